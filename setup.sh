#!/bin/sh
# Offline setup: make sure hypothesis (and atheris for the thorough fuzz campaigns) are importable.
# Nothing is fetched from a network; wheels come from /opt/veriftools/wheels.
cd "$(dirname "$0")"
mkdir -p .deps evidence
if ! /venv/bin/python -c "import hypothesis" 2>/dev/null; then
  /venv/bin/pip install -q --no-index --find-links /opt/veriftools/wheels --target .deps hypothesis || exit 1
fi
if ! PYTHONPATH=.deps /venv/bin/python -c "import atheris" 2>/dev/null; then
  /venv/bin/pip install -q --no-index --find-links /opt/veriftools/wheels --target .deps atheris || echo "atheris unavailable (fuzz campaigns skipped)"
fi
exit 0
