"""Audit-hook recorder and sandbox-tree snapshot/diff (used by C15).

`sys.addaudithook` hooks cannot be removed, so exactly ONE hook is installed per process; it does nothing unless
the module-level switch is on, and appends to the event list of the current `Monitor`.

Recorded events (everything that touches the file system by *path* or starts a process):
    open(path, mode, flags)                 builtins.open / io.open / os.open / gzip.open ...
    os.*  shutil.*  glob.*  tempfile.*  pathlib.*  subprocess.Popen
Events are stored as (event name, tuple of JSON-able args); bytes paths are decoded with os.fsdecode, objects that
are not str/bytes/int/None are replaced by their repr.
"""
from __future__ import annotations

import hashlib
import os
import stat
import sys

_PREFIXES = ("os.", "shutil.", "glob.", "tempfile.", "pathlib.", "subprocess.")
_installed = False
_on = False
_events = None


def _safe(a):
    if a is None or isinstance(a, (str, int)):
        return a
    if isinstance(a, (bytes, bytearray)):
        try:
            return os.fsdecode(bytes(a))
        except Exception:
            return repr(a)
    if isinstance(a, os.PathLike):
        try:
            return os.fspath(a)
        except Exception:
            return repr(a)
    return repr(a)[:200]


def _hook(event, args):
    if not _on:
        return
    if event == "open" or event.startswith(_PREFIXES):
        try:
            _events.append((event, tuple(_safe(a) for a in args)))
        except Exception as e:  # a hook must never disturb the observed code
            try:
                _events.append(("hook-error", (event, repr(e))))
            except Exception:
                pass


def install():
    global _installed
    if not _installed:
        sys.addaudithook(_hook)
        _installed = True


class Monitor:
    """with Monitor() as m: ...   -> m.events = [(event, args), ...] recorded while the block ran."""

    def __init__(self):
        self.events = []

    def __enter__(self):
        global _on, _events
        install()
        if _on:
            raise RuntimeError("sandboxfs.Monitor is not re-entrant")
        _events = self.events
        _on = True
        return self

    def __exit__(self, *exc):
        global _on, _events
        _on = False
        _events = None
        return False

    def mark(self, label):
        """Insert a harness marker into the event stream (e.g. which API call is running)."""
        self.events.append(("mark", (label,)))


# ---------------------------------------------------------------------------
WRITE_FLAGS = os.O_WRONLY | os.O_RDWR | os.O_CREAT | os.O_TRUNC | os.O_APPEND


def open_is_write(mode, flags):
    """Does an `open` audit event (mode, flags) ask for anything but plain reading?"""
    if isinstance(mode, str) and any(c in mode for c in "wax+"):
        return True
    if isinstance(flags, int) and flags & WRITE_FLAGS:
        return True
    return False


def absolute(path, cwd):
    """Lexical absolute path of an event argument (str) relative to the cwd that was in force."""
    if not isinstance(path, str):
        return None
    return os.path.normpath(os.path.join(cwd, path))


def resolve(path, cwd):
    """Symlink-free absolute path of an event argument; the last component need not exist."""
    if not isinstance(path, str):
        return None
    try:
        return os.path.realpath(os.path.join(cwd, path))
    except (OSError, ValueError):
        return os.path.normpath(os.path.join(cwd, path))


def under(path, directory):
    """path is `directory` itself or lies below it (both already resolved)."""
    if path is None:
        return False
    d = directory.rstrip(os.sep)
    return path == d or path.startswith(d + os.sep)


def strictly_under(path, directory):
    return path is not None and path.startswith(directory.rstrip(os.sep) + os.sep)


# ---------------------------------------------------------------------------
def snapshot(root):
    """{relative path: ("d",) | ("l", target) | ("f", size, sha1 hex)} for everything below root."""
    snap = {}
    stack = [root]
    while stack:
        d = stack.pop()
        with os.scandir(d) as it:
            entries = sorted(it, key=lambda e: e.name)
        for e in entries:
            rel = os.path.relpath(e.path, root)
            st = e.stat(follow_symlinks=False)
            if stat.S_ISLNK(st.st_mode):
                snap[rel] = ("l", os.readlink(e.path))
            elif stat.S_ISDIR(st.st_mode):
                snap[rel] = ("d",)
                stack.append(e.path)
            elif stat.S_ISREG(st.st_mode):
                with open(e.path, "rb") as f:
                    data = f.read()
                snap[rel] = ("f", len(data), hashlib.sha1(data).hexdigest())
            else:
                snap[rel] = ("other", stat.S_IFMT(st.st_mode))
    return snap


def diff(before, after):
    """(created, modified, deleted): sorted lists of relative paths."""
    created = sorted(p for p in after if p not in before)
    deleted = sorted(p for p in before if p not in after)
    modified = sorted(p for p in before if p in after and before[p] != after[p])
    return created, modified, deleted
