"""Helpers that drive pdfminer's interpreter and collect layout items."""
import io


def pages(pdf, laparams=None, **kw):
    """-> list of LTPage (PDFPageAggregator).  kw goes to PDFPage.get_pages."""
    from pdfminer.converter import PDFPageAggregator
    from pdfminer.pdfinterp import PDFPageInterpreter, PDFResourceManager
    from pdfminer.pdfpage import PDFPage

    rm = PDFResourceManager()
    dev = PDFPageAggregator(rm, laparams=laparams)
    it = PDFPageInterpreter(rm, dev)
    out = []
    for p in PDFPage.get_pages(io.BytesIO(pdf), **kw):
        it.process_page(p)
        out.append(dev.get_result())
    return out


def leaves(item, acc=None):
    """Depth-first leaves (through LTFigure and other containers)."""
    from pdfminer.layout import LTContainer

    acc = [] if acc is None else acc
    for c in item:
        if isinstance(c, LTContainer):
            leaves(c, acc)
        else:
            acc.append(c)
    return acc


def close(a, b, tol=1e-6):
    return abs(a - b) <= tol * max(1.0, abs(a), abs(b))


def fl(v):
    """Fraction / tuple of Fractions / None -> float form pdfminer reports."""
    if v is None:
        return None
    if isinstance(v, tuple):
        return tuple(float(x) for x in v)
    return float(v)
