"""Feature-covering seed documents (abstract object graphs) for fault enumeration (C13).

Each seed is {"name", "objs": {n: value}, "root": n, "form": "table"|"stream", "trailer_extra": {...}}.
"""
import zlib

from vlib import cidfonts as C
from vlib import filters as FL
from vlib import fonts as F
from vlib import pdfwrite as W
from vlib import xrefwrite as X

N, R, D, Stream = W.N, W.R, W.D, W.Stream


def _pages(objs, contents, resources, first=3, extra_page=None):
    kids = []
    n = first
    for c in contents:
        objs[n + 1] = c if W.is_stream(c) else Stream({}, c)
        page = D(Type=N("Page"), Parent=R(2), Contents=R(n + 1))
        if extra_page:
            page.update(extra_page)
        objs[n] = page
        kids.append(R(n))
        n += 2
    objs[1] = D(Type=N("Catalog"), Pages=R(2))
    objs[2] = D(Type=N("Pages"), Kids=kids, Count=len(kids), MediaBox=[0, 0, 612, 792], Resources=resources)
    return objs


def seed_simple():
    objs = {}
    ff, _ = F.type1_fontfile([(65, "A"), (66, "B"), (67, "uni0043")])
    tu, _ = F.tounicode_cmap({65: "a", 66: "bb", 68: "d"})
    # (names with #xx escapes, in an object and in a content stream: a file or stream may be cut between the two digits)
    objs[20] = D(Type=N("Font"), Subtype=N("Type1"), BaseFont=N("Sim 1(x)"), FirstChar=65, LastChar=70,
                 Widths=[500, 600, 700, 250, R(26), 333], ToUnicode=R(22),
                 Encoding=D(Type=N("Encoding"), BaseEncoding=N("WinAnsiEncoding"), Differences=[65, N("alpha"), N("beta"), 70, N("fi")]),
                 FontDescriptor=R(21))
    objs[21] = D(Type=N("FontDescriptor"), FontName=N("Sim1"), Flags=32, FontBBox=[-50, -250, 1000, 900], Ascent=800,
                 Descent=-200, MissingWidth=250, FontFile=R(23))
    objs[22] = Stream({}, tu)
    objs[23] = ff
    objs[24] = D(Type=N("Font"), Subtype=N("TrueType"), BaseFont=N("Helvetica"), Encoding=N("MacRomanEncoding"))
    objs[25] = D(Type=N("Font"), Subtype=N("Type3"), FontBBox=[0, 0, 1000, 1000], FontMatrix=[0.001, 0, 0, 0.001, 0, 0],
                 CharProcs={b"sq": R(27)}, Encoding=D(Type=N("Encoding"), Differences=[65, N("sq")]), FirstChar=65,
                 LastChar=65, Widths=[800], Resources={})
    objs[26] = 444
    objs[27] = Stream({}, b"800 0 0 0 800 800 d1 0 0 800 800 re f")
    res = {b"Font": {b"F1": R(20), b"F2": R(24), b"F3": R(25)}, b"ProcSet": [N("PDF"), N("Text")]}
    c1 = b"BT /F#31 12 Tf 1 0 0 1 50 700 Tm (ABCDEF) Tj 0 -14 Td [(AB) -250 (C) 100 (D)] TJ /F2 10 Tf 14 TL T* (Hello) ' ET"
    c2 = b"q 0.5 0 0 0.5 10 10 cm BT /F3 20 Tf 100 100 Td (AA) Tj ET Q BT /F1 9 Tf 2 Tc 3 Tw 90 Tz 1 Ts 50 50 Td 1 2 (A B) \" ET BT /F1 8 Tf 20 400 Td 0 -10 TD (L1) Tj T* (L2) Tj 1 Tr (L3) ' 2 0 (L4) \" ET"
    _pages(objs, [c1, c2], res, extra_page={b"Rotate": 90})
    return {"name": "simple", "objs": objs, "form": "table"}


def seed_cid():
    objs = {}
    ttf = C.build_ttf([(3, 1, 4, {0x41: 36, 0x42: 37, 0x3042: 100}), (0, 3, 2, {0x43: 38, 0x3044: 101, 0x3045: 102})])
    tu, _ = F.tounicode_cmap({0x0041: "A", 0x0042: "B", 0x0100: "xyz"}, codelen=2)
    objs[20] = C.type0(N("Identity-H"), R(21), R(24), basefont="CidA")
    objs[21] = C.descendant("CIDFontType2", "Adobe-Identity", R(22), basefont="CidA", W=[65, [500, 600], 70, 80, 700], DW=900,
                            cidtogid=N("Identity"))
    objs[22] = C.font_descriptor("CidA", fontfile2=R(23))
    objs[23] = Stream(D(Length1=len(ttf)), ttf)
    objs[24] = Stream({}, tu)
    objs[25] = C.type0(N("90ms-RKSJ-H"), R(26), basefont="CidB")
    objs[26] = C.descendant("CIDFontType0", "Adobe-Japan1", R(27), basefont="CidB", DW=1000)
    objs[27] = C.font_descriptor("CidB")
    objs[28] = C.type0(N("Identity-V"), R(29), basefont="CidC")
    objs[29] = C.descendant("CIDFontType0", "Adobe-Japan1", R(27), basefont="CidC", DW2=[880, -1000], W2=[1, [-900, 500, 880], 5, 9, -800, 400, 800])
    # no ToUnicode: the text comes from the cmap tables of the embedded TrueType program (format 4 and format 2)
    objs[30] = C.type0(N("Identity-H"), R(31), basefont="CidD")
    objs[31] = C.descendant("CIDFontType2", "Adobe-Identity", R(22), basefont="CidD", DW=750, cidtogid=N("Identity"))
    res = {b"Font": {b"F1": R(20), b"F2": R(25), b"F3": R(28), b"F4": R(30)}}
    jp = "あい漢A".encode("cp932")
    c1 = (b"BT /F1 12 Tf 50 700 Td <004100420100> Tj /F2 10 Tf 0 -20 Td <" + jp.hex().encode() +
          b"> Tj /F3 10 Tf 300 700 Td <00010002000600ff> Tj /F4 9 Tf 50 600 Td <0024002600640065> Tj ET")
    _pages(objs, [c1], res)
    return {"name": "cid", "objs": objs, "form": "table"}


def seed_graphics():
    objs = {}
    objs[20] = W.simple_font("Gfx")
    img = bytes(range(0, 48))
    pred = FL.png_forward(img, 3, 4, 8, [0, 1, 2, 4])
    objs[21] = Stream(D(Type=N("XObject"), Subtype=N("Image"), Width=4, Height=4, ColorSpace=N("DeviceRGB"), BitsPerComponent=8,
                        Filter=N("FlateDecode"), DecodeParms=D(Predictor=15, Colors=3, Columns=4, BitsPerComponent=8)),
                      zlib.compress(pred))
    objs[22] = Stream(D(Type=N("XObject"), Subtype=N("Form"), BBox=[0, 0, 200, 200], Matrix=[1, 0, 0, 1, 20, 30],
                        Resources={b"Font": {b"F1": R(20)}, b"XObject": {b"In": R(23)}}),
                      b"q 1 0 0 RG 2 w [3 1] 0 d 10 10 100 50 re S BT /F1 8 Tf 5 5 Td (in form) Tj ET /In Do Q")
    objs[23] = Stream(D(Type=N("XObject"), Subtype=N("Form"), BBox=[0, 0, 50, 50],
                        Resources={b"XObject": {b"Lf": R(26)}}), b"0 0 m 10 10 l 20 0 30 10 40 0 c h f* /Lf Do")
    objs[26] = Stream(D(Type=N("XObject"), Subtype=N("Form"), BBox=[0, 0, 20, 20], Resources={b"Font": {b"F1": R(20)}}),
                      b"BT /F1 6 Tf (leaf) Tj ET")
    objs[24] = Stream(D(N=3, Alternate=N("DeviceRGB")), b"\x00" * 16)
    objs[25] = D(Type=N("ExtGState"), LW=2, CA=0.5)
    res = {b"Font": {b"F1": R(20)}, b"XObject": {b"Im": R(21), b"Fm": R(22)},
           b"ColorSpace": {b"CS0": [N("ICCBased"), R(24)], b"CS1": [N("Indexed"), N("DeviceRGB"), 1, b"\x00\x00\x00\xff\xff\xff"]},
           b"ExtGState": {b"GS0": R(25)}, b"Properties": {b"MC0": D(Type=N("OCG"))}}
    c1 = (b"/GS0 gs /CS0 cs 0.1 0.2 0.3 sc /CS0 CS 1 0 0 SC q 100 0 0 100 50 600 cm /Im Do Q /Fm Do "
          b"/Span << /MCID 0 >> BDC BT /F1 10 Tf 50 500 Td (marked) Tj ET EMC /MC0 /MC0 BDC EMC "
          b"q 20 0 0 20 300 300 cm BI /W 2 /H 2 /BPC 8 /CS /G ID abcd\nEI Q "
          b"0.5 g 1 0 0 rg 0 0 0 1 k 50 50 m 60 60 l 70 50 80 60 v 90 50 100 60 y h B* 10 10 20 20 re n "
          b"0 G 1 J 1 j 4 M /Perceptual ri 1 i")
    _pages(objs, [c1], res)
    return {"name": "graphics", "objs": objs, "form": "table"}


def seed_filters():
    objs = {}
    objs[20] = W.simple_font("Flt")
    res = {b"Font": {b"F1": R(20)}}
    t1 = b"BT /F1 12 Tf 50 700 Td (first stream) Tj ET\n"
    t2 = b"BT /F1 12 Tf 50 680 Td (second stream with predictor....) Tj ET\n"
    t3 = b"BT /F1 12 Tf 50 660 Td (third: run length) Tj ET\n"
    s1 = Stream(D(Filter=[N("ASCII85Decode"), N("FlateDecode")], Length=R(30)), FL.a85_encode(zlib.compress(t1)))
    cols = 8
    pad = t2 + b" " * (-len(t2) % cols)
    s2 = Stream(D(Filter=N("LZWDecode"), DecodeParms=D(Predictor=12, Columns=cols)),
                FL.lzw_encode(FL.png_forward(pad, 1, cols, 8, [2, 1, 0, 3, 4])))
    s3 = Stream(D(Filter=[N("AHx"), N("RL")], DecodeParms=[None, None]), FL.ahx_encode(FL.rl_encode(t3)))
    s4 = Stream(D(Filter=N("Fl"), DecodeParms=D(Predictor=2, Colors=1, Columns=4)),
                zlib.compress(FL.tiff2_forward(b"q Q ", 1, 4)))
    t5 = b"BT /F1 12 Tf 50 640 Td (fifth: plain lzw lzw lzw lzw) Tj ET\n"
    objs[14] = Stream(D(Filter=N("LZWDecode")), FL.lzw_pack(FL.lzw_codes(t5)))
    objs[10], objs[11], objs[12], objs[13] = s1, s2, s3, s4
    objs[30] = len(s1[2])
    # sixth: a content stream stored as a Group 4 fax image whose 40 pixels x 2 rows spell `q Q \n` twice
    from vlib import ccittenc as CE
    t6 = b"q Q \nq Q \n"
    rows = CE.unpack_rows(t6, 40, False)
    data6, _ = CE.encode(rows, 40, lambda opts: opts[0])
    assert CE.pack_rows(rows, 40, False) == t6
    objs[15] = Stream(D(Filter=N("CCITTFaxDecode"), DecodeParms=D(K=-1, Columns=40, Rows=2)), data6)
    objs[3] = D(Type=N("Page"), Parent=R(2), Contents=[R(10), R(11), R(12), R(13), R(14), R(15)])
    objs[1] = D(Type=N("Catalog"), Pages=R(2))
    objs[2] = D(Type=N("Pages"), Kids=[R(3)], Count=1, MediaBox=[0, 0, 612, 792], Resources=res)
    return {"name": "filters", "objs": objs, "form": "table"}


def seed_structure():
    objs = {}
    objs[20] = W.simple_font("Str")
    res = {b"Font": {b"F1": R(20)}}
    objs[1] = D(Type=N("Catalog"), Pages=R(2), PageLabels=R(40), Outlines=R(50), Names=D(Dests=R(60)),
                Dests=D(Old=[R(5), N("Fit")]))
    objs[2] = D(Type=N("Pages"), Kids=[R(3), R(8)], Count=3, MediaBox=[0, 0, 612, 792], Resources=res, Rotate=0)
    objs[3] = D(Type=N("Pages"), Parent=R(2), Kids=[R(5), R(6)], Count=2, CropBox=[10, 10, 600, 780], Rotate=180)
    objs[5] = D(Type=N("Page"), Parent=R(3), Contents=R(15), Annots=[R(70)])
    objs[6] = D(Type=N("Page"), Parent=R(3), Contents=R(16), MediaBox=[R(31), 0, 300, 400], Rotate=270)
    objs[8] = D(Type=N("Page"), Parent=R(2), Contents=[R(17)], Resources=R(32))
    objs[15] = Stream({}, b"BT /F1 12 Tf 50 700 Td (page one) Tj ET")
    objs[16] = Stream({}, b"BT /F1 12 Tf 50 300 Td (page two) Tj ET")
    objs[17] = Stream({}, b"BT /F1 12 Tf 50 700 Td (page three) Tj ET")
    objs[31] = 0
    objs[32] = res
    objs[40] = D(Kids=[R(41), R(42)])
    objs[41] = D(Limits=[0, 0], Nums=[0, D(S=N("r"), P=b"front-", St=3)])
    objs[42] = D(Limits=[1, 2], Nums=[1, D(S=N("D")), 2, D(S=N("A"), P=b"\xfe\xff\x00A\x00-")])
    objs[50] = D(Type=N("Outlines"), First=R(51), Last=R(52), Count=2)
    objs[51] = D(Title=b"One", Parent=R(50), Next=R(52), Dest=[R(5), N("Fit")])
    objs[52] = D(Title=b"\xfe\xff\x00T\x00w\x00o", Parent=R(50), Prev=R(51), A=D(S=N("GoTo"), D=b"dest2"))
    objs[60] = D(Kids=[R(61)])
    objs[61] = D(Limits=[b"dest1", b"dest2"], Names=[b"dest1", [R(5), N("XYZ"), 0, 700, None], b"dest2", D(D=[R(6), N("Fit")])])
    objs[70] = D(Type=N("Annot"), Subtype=N("Link"), Rect=[0, 0, 10, 10], Dest=b"dest1")
    return {"name": "structure", "objs": objs, "form": "table", "info": D(Title=b"Seed", Producer=b"verif")}


def seed_objstm():
    s = seed_simple()
    s["name"] = "objstm"
    s["form"] = "stream"
    return s


def _seed_crypt(name, V, R, bits, cfm, em=True):
    """An encrypted document whose objects are held in their *encrypted* form and whose /Encrypt dictionary is an
    ordinary indirect object (50), so that the generic faults reach every entry of it.  Opens with the empty user
    password."""
    import random

    from vlib import crypt as CR

    objs = {}
    objs[20] = W.simple_font("CryptSeed")
    res = {b"Font": {b"F1": R_(20)}, b"XObject": {b"Fm1": R_(23)}}
    c1 = b"BT /F1 12 Tf 50 700 Td (Secret text) Tj ET q /Fm1 Do Q"
    _pages(objs, [c1], res)
    # a stream with a /Type entry that is decoded during extraction (the metadata stream is not)
    objs[23] = Stream(D(Type=N("XObject"), Subtype=N("Form"), BBox=[0, 0, 100, 100], Resources=D(Font=D(F1=R_(20)))),
                      b"BT /F1 9 Tf 5 5 Td (in a form) Tj ET")
    objs[21] = D(Title=b"A title", Author=b"\xfe\xff\x00A")
    objs[22] = Stream(D(Type=N("Metadata"), Subtype=N("XML")), b"<x:xmpmeta/>")
    objs[1][b"Metadata"] = R_(22)
    id0 = b"0123456789abcdef"
    h = CR.Handler(V, R, bits, cfm, em, CR.make_P(True, True, True), id0, "", "owner", random.Random(5))
    enc = {n: h.enc_value(n, 0, v) for n, v in objs.items()}
    enc[50] = h.encrypt_dict()
    return {"name": name, "objs": enc, "form": "table", "trailer": {b"Encrypt": R_(50), b"ID": [id0, id0], b"Info": R_(21)}}


R_ = R


def seed_crypt_rc4():
    return _seed_crypt("crypt-rc4", 2, 3, 128, None)


def seed_crypt_aes():
    # (/EncryptMetadata false: the metadata stream is stored in the clear)
    return _seed_crypt("crypt-aes", 4, 4, 128, "AESV2", em=False)


def seed_crypt_r6():
    return _seed_crypt("crypt-r6", 5, 6, 256, "AESV3")


ALL = [seed_simple, seed_cid, seed_graphics, seed_filters, seed_structure, seed_objstm, seed_crypt_rc4, seed_crypt_aes,
       seed_crypt_r6]


def write(seed, objs=None, trailer_extra=None):
    """Serialise a (possibly damaged) object graph of a seed.  trailer_extra: entries written into the trailer (or the
    cross-reference stream dictionary) over the regular ones; the value "SELFPOS" stands for the file's own startxref
    offset."""
    objs = seed["objs"] if objs is None else objs
    if seed.get("trailer"):
        merged = dict(seed["trailer"])
        merged.update(trailer_extra or {})
        trailer_extra = merged
    selfpos = {"SELFPOS": 0, "SELFPOS-1": -1}  # "SELFPOS-1": the end-of-line byte in front of the section
    if trailer_extra and any(isinstance(v, str) and v in selfpos for v in trailer_extra.values()):
        import re
        isp = lambda v: isinstance(v, str) and v in selfpos  # noqa: E731
        probe = write(seed, objs, {k: (0 if isp(v) else v) for k, v in trailer_extra.items()})
        pos = int(re.findall(rb"startxref\s+(\d+)", probe)[-1])
        trailer_extra = {k: (pos + selfpos[v] if isp(v) else v) for k, v in trailer_extra.items()}
    info = None
    if seed.get("info") is not None:
        objs = dict(objs)
        objs[99] = seed["info"]
        info = 99
    if seed["form"] == "table":
        return W.build_pdf(objs, info=info, trailer_extra=trailer_extra)
    rev = {"defs": objs, "root": 1, "info": info, "form": "stream", "trailer_extra": trailer_extra,
           "objstm_damage": seed.get("objstm_damage"),
           "pack": [n for n in objs if not W.is_stream(objs[n])], "nstm": 2, "flate": True, "png_up": True, "objstm_flate": True,
           "w": [1, 3, 2], "index_default": True}
    data, _ = X.write_history([rev])
    return data
