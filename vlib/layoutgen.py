"""Builders for LTPage trees from JSON-able glyph specs, LAParams, and tree walkers (C08, C09)."""


class StubFont:
    def __init__(self, name="Stub", vertical=False, descent=0.0):
        self.fontname = name
        self._v = vertical
        self._d = descent

    def is_vertical(self):
        return self._v

    def get_descent(self):
        return self._d


def mkchar(spec):
    """spec: {"x","y": origin, "w": advance, "h": font size, "t": text, optional "v": vertical, "m": [a,b,c,d] matrix
    linear part, "vx","vy" for vertical glyphs}.  A horizontal glyph with identity linear part has bbox
    (x, y, x+w, y+h)."""
    from pdfminer.layout import LTChar
    from pdfminer.pdfcolor import PREDEFINED_COLORSPACE
    from pdfminer.pdfinterp import PDFGraphicState

    a, b, c, d = spec.get("m", (1, 0, 0, 1))
    h = spec["h"]
    w = spec["w"]
    vertical = bool(spec.get("v"))
    font = StubFont("StubV" if vertical else "Stub", vertical)
    textwidth = (w / h) if h else 0.0
    disp = (spec.get("vx"), spec.get("vy", 880)) if vertical else 0
    return LTChar((a, b, c, d, spec["x"], spec["y"]), font, h, 1, spec.get("rise", 0), spec["t"], textwidth, disp,
                  PREDEFINED_COLORSPACE["DeviceGray"], PDFGraphicState())


def mkitem(spec):
    from pdfminer.layout import LTCurve, LTFigure, LTImage, LTLine, LTRect
    from pdfminer.pdftypes import PDFStream

    k = spec["k"]
    if k == "char":
        return mkchar(spec)
    if k == "rect":
        return LTRect(1, tuple(spec["bbox"]))
    if k == "line":
        x0, y0, x1, y1 = spec["bbox"]
        return LTLine(1, (x0, y0), (x1, y1))
    if k == "curve":
        return LTCurve(1, [tuple(p) for p in spec["pts"]])
    if k == "image":
        return LTImage("Im", PDFStream({"W": 1, "H": 1}, b""), tuple(spec["bbox"]))
    if k == "figure":
        x0, y0, x1, y1 = spec["bbox"]
        fig = LTFigure("Fig", (x0, y0, x1 - x0, y1 - y0), (1, 0, 0, 1, 0, 0))
        for s in spec["items"]:
            fig.add(mkitem(s))
        return fig
    raise ValueError(k)


def mkpage(items, bbox):
    from pdfminer.layout import LTPage

    page = LTPage(1, tuple(bbox))
    objs = []
    for s in items:
        o = mkitem(s)
        page.add(o)
        objs.append(o)
    return page, objs


def mklaparams(d):
    from pdfminer.layout import LAParams

    return LAParams(line_overlap=d.get("line_overlap", 0.5), char_margin=d.get("char_margin", 2.0),
                    line_margin=d.get("line_margin", 0.5), word_margin=d.get("word_margin", 0.1),
                    boxes_flow=d.get("boxes_flow", 0.5), detect_vertical=d.get("detect_vertical", False),
                    all_texts=d.get("all_texts", False))


def union(bboxes):
    bs = list(bboxes)
    return (min(b[0] for b in bs), min(b[1] for b in bs), max(b[2] for b in bs), max(b[3] for b in bs))
