"""Tier runner: seeding, sharding over processes, evidence, replay, exit codes.

A property module (props/cNN.py) provides
    ID, LEVEL, RULE, ASSUMPTIONS
    plan(tier) -> list of JSON-able shard specs
    run_shard(spec, ctx) -> ShardResult          (usually via hyp_search / enum_search below)
    run_case(case) -> Outcome                    (pure oracle on one JSON-able case; used for replay)
All randomness comes from Hypothesis seeded from (VERIF_SEED, property, shard index).
"""
from __future__ import annotations

import base64
import hashlib
import importlib
import json
import multiprocessing as mp
import os
import sys
import time
import traceback
from collections import Counter
from fractions import Fraction

HERE = os.path.dirname(os.path.dirname(os.path.abspath(__file__)))
NPROC = int(os.environ.get("VERIF_NPROC", "16"))
EVDIR = os.environ.get("VERIF_EVIDENCE_DIR") or os.path.join(HERE, "evidence")


# --------------------------------------------------------------------------
# JSON encoding of cases (bytes, tuples, Fractions, non-string dict keys)
# --------------------------------------------------------------------------
def _enc(o):
    if o is None or isinstance(o, (bool, int, str)):
        return o
    if isinstance(o, float):
        if o != o or o in (float("inf"), float("-inf")):
            return {"$fl": repr(o)}
        return o
    if isinstance(o, (bytes, bytearray)):
        return {"$b": base64.b64encode(bytes(o)).decode()}
    if isinstance(o, Fraction):
        return {"$q": "%d/%d" % (o.numerator, o.denominator)}
    if isinstance(o, tuple):
        return {"$t": [_enc(x) for x in o]}
    if isinstance(o, list):
        return [_enc(x) for x in o]
    if isinstance(o, (set, frozenset)):
        return {"$s": [_enc(x) for x in sorted(o, key=repr)]}
    if isinstance(o, dict):
        if all(isinstance(k, str) and not k.startswith("$") for k in o):
            return {k: _enc(v) for k, v in o.items()}
        return {"$d": [[_enc(k), _enc(v)] for k, v in o.items()]}
    raise TypeError("cannot encode %r" % type(o))


def _dec(o):
    if isinstance(o, list):
        return [_dec(x) for x in o]
    if isinstance(o, dict):
        if len(o) == 1:
            (k, v), = o.items()
            if k == "$b":
                return base64.b64decode(v)
            if k == "$q":
                a, b = v.split("/")
                return Fraction(int(a), int(b))
            if k == "$t":
                return tuple(_dec(x) for x in v)
            if k == "$s":
                return set(_dec(x) for x in v)
            if k == "$d":
                return {_dec(a): _dec(b) for a, b in v}
            if k == "$fl":
                return float(v)
        return {k: _dec(v) for k, v in o.items()}
    return o


def jdump(o, **kw):
    return json.dumps(_enc(o), sort_keys=False, **kw)


def jload(s):
    return _dec(json.loads(s))


def fingerprint(o) -> int:
    if not isinstance(o, (bytes, bytearray)):
        o = jdump(o).encode()
    return int.from_bytes(hashlib.sha1(o).digest()[:8], "big")


def brief(o, limit=600):
    """Human-readable, size-limited rendering of a case for evidence samples."""
    s = _enc(o)
    t = json.dumps(s)
    if len(t) <= limit:
        return s
    return {"truncated": t[:limit] + "...", "len": len(t)}


# --------------------------------------------------------------------------
class Outcome:
    __slots__ = ("classes", "nontrivial", "fp", "known", "fail", "sample")

    def __init__(self, classes=(), nontrivial=False, fp=None, known=None, fail=None, sample=None):
        self.classes = list(classes)
        self.nontrivial = nontrivial
        self.fp = fp
        self.known = known  # key of a known finding this case exercises (excluded from search)
        self.fail = fail  # message => violation
        self.sample = sample


class Violation(Exception):
    pass


class HarnessError(Exception):
    pass


class ShardResult:
    def __init__(self):
        self.evaluations = 0
        self.nontrivial = set()
        self.classes = Counter()
        self.samples = []
        self.failures = []  # (case, msg)
        self.excluded = Counter()
        self.harness_errors = []
        self.notes = []
        self.extra = {}

    def record(self, case, out: Outcome, max_samples=2):
        self.evaluations += 1
        for c in out.classes:
            self.classes[c] += 1
        if out.known:
            self.excluded[out.known] += 1
            return
        if out.nontrivial:
            self.nontrivial.add(out.fp if out.fp is not None else fingerprint(case))
            if len(self.samples) < max_samples:
                self.samples.append(brief(out.sample if out.sample is not None else case))

    def merge(self, o: "ShardResult"):
        self.evaluations += o.evaluations
        self.nontrivial |= o.nontrivial
        self.classes.update(o.classes)
        self.samples.extend(o.samples)
        self.failures.extend(o.failures)
        self.excluded.update(o.excluded)
        self.harness_errors.extend(o.harness_errors)
        self.notes.extend(o.notes)
        for k, v in o.extra.items():
            if isinstance(v, (int, float)) and isinstance(self.extra.get(k, 0), (int, float)):
                self.extra[k] = self.extra.get(k, 0) + v
            else:
                self.extra.setdefault(k, v)


class Ctx:
    def __init__(self, prop, tier, seed, index, known_keys):
        self.prop, self.tier, self.seed, self.index = prop, tier, seed, index
        self.known_keys = known_keys

    def hseed(self, salt=""):
        h = hashlib.sha1(("%s|%s|%s|%s" % (self.seed, self.prop, self.index, salt)).encode()).digest()
        return int.from_bytes(h[:8], "big")


# --------------------------------------------------------------------------
HYP_CHUNK = 3000


def hyp_search(ctx: Ctx, strategy, run_case, max_examples, res: ShardResult = None, salt="",
               shrink_budget=None):
    """Draw `max_examples` cases from `strategy`, run the oracle on each.  Large budgets are split into rounds of
    HYP_CHUNK examples, each a fresh Hypothesis run with its own derived seed (Hypothesis keeps a tree of everything
    it has generated; unbounded runs get slower and larger the longer they last)."""
    res = res if res is not None else ShardResult()
    done = 0
    rnd = 0
    while done < max_examples:
        n = min(HYP_CHUNK, max_examples - done)
        _hyp_round(ctx, strategy, run_case, n, res, "%s#%d" % (salt, rnd), shrink_budget)
        done += n
        rnd += 1
        if res.failures or res.harness_errors:
            break
    return res


def _hyp_round(ctx: Ctx, strategy, run_case, max_examples, res: ShardResult, salt, shrink_budget):
    """One Hypothesis run.  On the first failing case Hypothesis shrinks (bounded by shrink_budget further
    executions); the smallest failing case seen is recorded in res.failures."""
    import hypothesis
    from hypothesis import HealthCheck, Phase, given, settings

    if shrink_budget is None:
        shrink_budget = 400 if ctx.tier == "quick" else 4000
    st = {"fail": None, "since": 0, "herr": None}

    def body(case):
        if st["herr"] is not None:
            return
        if st["fail"] is not None:
            st["since"] += 1
            if st["since"] > shrink_budget:
                return
        try:
            out = run_case(case)
        except (Violation, KeyboardInterrupt):
            raise
        except BaseException as e:  # anything escaping the oracle is a harness problem
            if type(e).__name__ in ("UnsatisfiedAssumption", "StopTest", "Frozen"):
                raise
            st["herr"] = "%s\ncase=%s" % (traceback.format_exc(), jdump(brief(case, 2000)))
            return
        if st["fail"] is None:
            res.record(case, out)
        if out.fail and not out.known:
            st["fail"] = (case, out.fail)
            raise Violation(out.fail)

    test = given(strategy)(body)
    test = hypothesis.seed(ctx.hseed(salt))(test)
    test = settings(
        max_examples=max_examples,
        database=None,
        deadline=None,
        derandomize=False,
        report_multiple_bugs=False,
        print_blob=False,
        phases=(Phase.generate, Phase.shrink),
        suppress_health_check=list(HealthCheck),
        verbosity=hypothesis.Verbosity.quiet,
    )(test)
    try:
        test()
    except Violation:
        pass
    except BaseException as e:
        if st["fail"] is None and st["herr"] is None:
            st["herr"] = traceback.format_exc()
    if st["herr"] is not None:
        res.harness_errors.append(st["herr"])
    if st["fail"] is not None:
        res.failures.append(st["fail"])
    return res


def enum_search(ctx, cases, run_case, res: ShardResult = None, stop_after=1):
    """Run the oracle on every case of an iterable (bounded enumeration)."""
    res = res if res is not None else ShardResult()
    for case in cases:
        try:
            out = run_case(case)
        except BaseException:
            res.harness_errors.append("%s\ncase=%s" % (traceback.format_exc(), jdump(brief(case, 2000))))
            break
        res.record(case, out)
        if out.fail and not out.known:
            res.failures.append((case, out.fail))
            if len(res.failures) >= stop_after:
                break
    return res


# --------------------------------------------------------------------------
def load_known(prop):
    """KNOWN_FINDINGS.txt -> (known entries, fixed entries) for one property."""
    known, fixed = [], []
    path = os.path.join(HERE, "KNOWN_FINDINGS.txt")
    if not os.path.exists(path):
        return known, fixed
    for line in open(path):
        line = line.strip()
        if not line or line.startswith("#"):
            continue
        kind, _, rest = line.partition(":")
        rest = rest.strip()
        if kind == "known":
            head, _, text = rest.partition("::")
            kv = dict(x.split("=", 1) for x in head.split() if "=" in x)
            if kv.get("property") == prop:
                known.append({"key": kv.get("key"), "replay": kv.get("replay"), "text": text.strip()})
        elif kind == "fixed":
            kv = dict(x.split("=", 1) for x in rest.split()[:1] if "=" in x)
            if kv.get("property") == prop:
                fixed.append(rest)
    return known, fixed


def _load_mod(prop):
    import logging

    # pdfminer logs a warning for every malformed operand; keep check output readable
    logging.getLogger("pdfminer").setLevel(logging.CRITICAL)
    return importlib.import_module("props." + prop.lower())


def _shard_worker(args):
    prop, tier, seed, index, spec, known_keys = args
    try:
        mod = _load_mod(prop)
        ctx = Ctx(prop, tier, seed, index, set(known_keys))
        import vlib.runner as R

        R.ACTIVE_KNOWN = set(known_keys)
        r = mod.run_shard(spec, ctx)
    except BaseException:
        r = ShardResult()
        r.harness_errors.append(traceback.format_exc())
    return r


ACTIVE_KNOWN = set()


def replay_file(mod, path):
    """Returns (Outcome, meta)."""
    d = json.load(open(path))
    case = _dec(d["case"])
    return mod.run_case(case), d


def write_replay(prop, case, msg):
    d = os.path.join(EVDIR, "replays", prop)
    os.makedirs(d, exist_ok=True)
    fp = "%016x" % fingerprint(case)
    path = os.path.join(d, fp + ".json")
    with open(path, "w") as f:
        json.dump({"property": prop, "expect": "pass", "msg": msg, "case": _enc(case)}, f, indent=1)
    return os.path.relpath(path, HERE) if path.startswith(HERE) else path


def main(argv):
    if not argv:
        print("usage: check <ID> [quick|thorough] [--replay FILE]")
        return 2
    prop = argv[0].upper()
    tier = os.environ.get("VERIF_TIER", "quick")
    replay = None
    i = 1
    while i < len(argv):
        if argv[i] in ("quick", "thorough"):
            tier = argv[i]
        elif argv[i] == "--replay":
            replay = argv[i + 1]
            i += 1
        i += 1
    seed = int(os.environ.get("VERIF_SEED", "1") or "1")
    t0 = time.time()
    try:
        mod = _load_mod(prop)
    except BaseException:
        traceback.print_exc()
        print("HARNESS-ERROR property=%s cannot import property module" % prop)
        return 2
    known, fixed = load_known(prop)
    known_keys = sorted(k["key"] for k in known if k["key"])
    global ACTIVE_KNOWN
    ACTIVE_KNOWN = set(known_keys)

    if replay:
        try:
            out, meta = replay_file(mod, replay)
        except BaseException:
            traceback.print_exc()
            return 2
        if out.fail:
            print("replay fails: %s" % out.fail)
            print("VIOLATION property=%s replay=%s" % (prop, replay))
            return 1
        print("replay passes")
        return 0

    if hasattr(mod, "selfcheck"):
        try:
            mod.selfcheck()
        except BaseException:
            traceback.print_exc()
            print("HARNESS-ERROR property=%s selfcheck failed" % prop)
            return 2

    total = ShardResult()
    violations = []  # (replay path, msg)
    known_lines = []
    # ---- replay tier: committed regressions and known-finding demonstrations
    rdir = os.path.join(HERE, "replays", prop)
    nreplay = 0
    known_by_replay = {k["replay"]: k for k in known if k["replay"]}
    if os.path.isdir(rdir):
        for fn in sorted(os.listdir(rdir)):
            if not fn.endswith(".json"):
                continue
            rel = os.path.join("replays", prop, fn)
            try:
                saved = set(ACTIVE_KNOWN)
                ACTIVE_KNOWN.clear()  # replays are judged without exclusions
                try:
                    out, meta = replay_file(mod, os.path.join(HERE, rel))
                finally:
                    ACTIVE_KNOWN.update(saved)
            except BaseException:
                traceback.print_exc()
                print("HARNESS-ERROR property=%s replay %s crashed" % (prop, rel))
                return 2
            nreplay += 1
            if rel in known_by_replay:
                k = known_by_replay[rel]
                if out.fail:
                    known_lines.append("KNOWN-FINDING: property=%s key=%s %s" % (prop, k["key"], k["text"]))
                else:
                    print("note: known finding %s no longer reproduces from %s" % (k["key"], rel))
            elif out.fail:
                violations.append((rel, out.fail))
    # ---- search
    specs = mod.plan(tier)
    jobs = [(prop, tier, seed, i, s, known_keys) for i, s in enumerate(specs)]
    if jobs and not violations:
        nproc = min(NPROC, len(jobs))
        if nproc <= 1:
            results = map(_shard_worker, jobs)
            for r in results:
                total.merge(r)
        else:
            ctxm = mp.get_context("spawn")
            # A wall-clock limit per shard only protects the harness against a hang in the code under test; hitting
            # it is reported as inconclusive (exit 2), never as a violation.
            limit = float(os.environ.get("VERIF_SHARD_TIMEOUT", "1800" if tier == "quick" else "10800"))
            with ctxm.Pool(nproc, maxtasksperchild=getattr(mod, "MAXTASKS", None)) as pool:
                it = pool.imap_unordered(_shard_worker, jobs, chunksize=1)
                for _ in range(len(jobs)):
                    try:
                        r = it.next(timeout=limit)
                    except mp.TimeoutError:
                        pool.terminate()
                        print("HARNESS-ERROR property=%s a shard did not finish within %.0f s (possible non-termination "
                              "in the code under test): inconclusive" % (prop, limit))
                        return 2
                    total.merge(r)
    if total.harness_errors:
        for h in total.harness_errors[:3]:
            print(h)
        print("HARNESS-ERROR property=%s (%d shard errors)" % (prop, len(total.harness_errors)))
        return 2
    seen = set()
    for case, msg in total.failures:
        fp = fingerprint(case)
        if fp in seen:
            continue
        seen.add(fp)
        violations.append((write_replay(prop, case, msg), msg))
    wall = time.time() - t0
    cov = {
        "evaluations": total.evaluations + nreplay,
        "distinct_nontrivial": len(total.nontrivial),
        "rule": mod.RULE,
        "samples": total.samples[:8],
        "classes": dict(sorted(total.classes.items())),
        "excluded_known": dict(total.excluded),
        "replays_run": nreplay,
        "shards": len(jobs),
    }
    cov.update(total.extra)
    if hasattr(mod, "exhaustive"):
        cov["exhaustive"] = bool(mod.exhaustive(tier))
    if total.notes:
        cov["notes"] = total.notes[:20]
    ev = {
        "property_id": prop,
        "tier": tier,
        "seed": seed,
        "level": mod.LEVEL,
        "coverage": cov,
        "assumptions": list(getattr(mod, "ASSUMPTIONS", [])),
        "wall_s": round(wall, 2),
        "violations": len(violations),
        "known_findings": known_lines,
    }
    os.makedirs(EVDIR, exist_ok=True)
    with open(os.path.join(EVDIR, prop + ".json"), "w") as f:
        json.dump(ev, f, indent=1)
    for l in known_lines:
        print(l)
    print("%s %s seed=%d: %d evaluations, %d distinct non-trivial, %d excluded-known, %.1fs" % (
        prop, tier, seed, cov["evaluations"], cov["distinct_nontrivial"], sum(total.excluded.values()), wall))
    if violations:
        for path, msg in violations[:5]:
            print("  failure: %s" % (msg[:1000],))
            print("VIOLATION property=%s replay=%s" % (prop, path))
        return 1
    return 0
