"""ITU-T T.6 (Group 4 / MMR) *encoder* with free admissible mode choices, written from the Recommendation.

Harness pixel convention: a row is a sequence of 0/1 "ink" values, 0 = white, 1 = black (T.4: black = mark).
(pdfminer's decoder uses the opposite internal convention; nothing here is shared with it.)

T.6 section 2.2 definitions (changing element = pel whose colour differs from the previous pel on the same
line; an imaginary white pel precedes every line, an imaginary changing element follows the last pel):
    a0  reference element on the coding line; at the start of a line it is the imaginary white pel at -1
    a1  next changing element to the right of a0 on the coding line (opposite colour to a0)
    a2  next changing element to the right of a1 on the coding line
    b1  first changing element on the reference line to the right of a0 and of opposite colour to a0
    b2  next changing element to the right of b1 on the reference line
Modes:
    pass        b2 < a1            code P,           a0 := b2 (colour unchanged)
    vertical    |a1 - b1| <= 3     code V(a1 - b1),  a0 := a1 (colour flips)
    horizontal  always decodable   code H + M(a0a1) + M(a1a2), a0 := a2 (colour unchanged);
                                   the first run of a line is a1 - 0 (T.4: a0a1 - 1 from the imaginary pel)
The Recommendation's own procedure is "pass, else vertical, else horizontal"; every decoder has to interpret
each mode code by its definition, so any admissible choice yields a stream that denotes the same picture.
The reference line of the first row is all white.  EOFB = EOL EOL.
Run lengths (T.4 4.1.1): 0..63 terminating code; 64..2623 one make-up code + terminating code;
>= 2624: make-up 2560 repeated while the remainder is >= 2560, then as before.
"""
from __future__ import annotations

from bisect import bisect_right
from fractions import Fraction


def _tbl(text):
    d = {}
    for tok in text.split():
        n, _, code = tok.partition(":")
        n = int(n)
        assert n not in d and code and set(code) <= {"0", "1"}, tok
        d[n] = code
    return d


# ---- T.4 Table 2 (terminating codes) -------------------------------------------------------------------
_WHITE_TERM = """
0:00110101 1:000111 2:0111 3:1000 4:1011 5:1100 6:1110 7:1111
8:10011 9:10100 10:00111 11:01000 12:001000 13:000011 14:110100 15:110101
16:101010 17:101011 18:0100111 19:0001100 20:0001000 21:0010111 22:0000011 23:0000100
24:0101000 25:0101011 26:0010011 27:0100100 28:0011000 29:00000010 30:00000011 31:00011010
32:00011011 33:00010010 34:00010011 35:00010100 36:00010101 37:00010110 38:00010111 39:00101000
40:00101001 41:00101010 42:00101011 43:00101100 44:00101101 45:00000100 46:00000101 47:00001010
48:00001011 49:01010010 50:01010011 51:01010100 52:01010101 53:00100100 54:00100101 55:01011000
56:01011001 57:01011010 58:01011011 59:01001010 60:01001011 61:00110010 62:00110011 63:00110100
"""
_BLACK_TERM = """
0:0000110111 1:010 2:11 3:10 4:011 5:0011 6:0010 7:00011
8:000101 9:000100 10:0000100 11:0000101 12:0000111 13:00000100 14:00000111 15:000011000
16:0000010111 17:0000011000 18:0000001000 19:00001100111 20:00001101000 21:00001101100
22:00000110111 23:00000101000 24:00000010111 25:00000011000 26:000011001010 27:000011001011
28:000011001100 29:000011001101 30:000001101000 31:000001101001 32:000001101010 33:000001101011
34:000011010010 35:000011010011 36:000011010100 37:000011010101 38:000011010110 39:000011010111
40:000001101100 41:000001101101 42:000011011010 43:000011011011 44:000001010100 45:000001010101
46:000001010110 47:000001010111 48:000001100100 49:000001100101 50:000001010010 51:000001010011
52:000000100100 53:000000110111 54:000000111000 55:000000100111 56:000000101000 57:000001011000
58:000001011001 59:000000101011 60:000000101100 61:000001011010 62:000001100110 63:000001100111
"""
# ---- T.4 Table 3a (make-up codes 64..1728) ----------------------------------------------------------------
_WHITE_MAKEUP = """
64:11011 128:10010 192:010111 256:0110111 320:00110110 384:00110111 448:01100100 512:01100101
576:01101000 640:01100111 704:011001100 768:011001101 832:011010010 896:011010011 960:011010100
1024:011010101 1088:011010110 1152:011010111 1216:011011000 1280:011011001 1344:011011010
1408:011011011 1472:010011000 1536:010011001 1600:010011010 1664:011000 1728:010011011
"""
_BLACK_MAKEUP = """
64:0000001111 128:000011001000 192:000011001001 256:000001011011 320:000000110011 384:000000110100
448:000000110101 512:0000001101100 576:0000001101101 640:0000001001010 704:0000001001011
768:0000001001100 832:0000001001101 896:0000001110010 960:0000001110011 1024:0000001110100
1088:0000001110101 1152:0000001110110 1216:0000001110111 1280:0000001010010 1344:0000001010011
1408:0000001010100 1472:0000001010101 1536:0000001011010 1600:0000001011011 1664:0000001100100
1728:0000001100101
"""
# ---- T.4 Table 3b (make-up codes 1792..2560, common to both colours) -----------------------------------------
_EXT_MAKEUP = """
1792:00000001000 1856:00000001100 1920:00000001101 1984:000000010010 2048:000000010011
2112:000000010100 2176:000000010101 2240:000000010110 2304:000000010111 2368:000000011100
2432:000000011101 2496:000000011110 2560:000000011111
"""

EXT = _tbl(_EXT_MAKEUP)
WHITE = {**_tbl(_WHITE_TERM), **_tbl(_WHITE_MAKEUP), **EXT}
BLACK = {**_tbl(_BLACK_TERM), **_tbl(_BLACK_MAKEUP), **EXT}

# ---- T.6 Table 1 (mode codes) ----------------------------------------------------------------------------
PASS = "0001"
HORIZ = "001"
VERT = {0: "1", 1: "011", 2: "000011", 3: "0000011", -1: "010", -2: "000010", -3: "0000010"}  # +n = VR(n), a1 right of b1
EXTENSION_PREFIX = "0000001"  # + 3 bits (uncompressed mode = 111); not produced by this encoder
EOL = "000000000001"
EOFB = EOL + EOL
MODES = {"P": PASS, "H": HORIZ, **VERT}


# ---------------------------------------------------------------------------------------------------------
def _prefix_free(codes):
    s = sorted(codes)
    for a, b in zip(s, s[1:]):
        if b.startswith(a):
            return "%s is a prefix of (or equal to) %s" % (a, b)
    return None


def _kraft(codes):
    return sum(Fraction(1, 2 ** len(c)) for c in codes)


def check_tables():
    """Structural validation of the transcribed tables; raises AssertionError."""
    keys = set(range(64)) | set(range(64, 2561, 64))
    for name, t in (("WHITE", WHITE), ("BLACK", BLACK)):
        assert set(t) == keys, "%s: run lengths %r" % (name, sorted(set(t) ^ keys))
        assert len(t) == 104
        codes = list(t.values())
        assert len(set(codes)) == len(codes), name + ": duplicate code"
        e = _prefix_free(codes)
        assert e is None, "%s not prefix-free: %s" % (name, e)
        # completeness: the codes fill the whole code space except the subtree 00000000 (8 zeros),
        # which T.4 reserves for fill bits + EOL.
        e = _prefix_free(codes + ["00000000"])
        assert e is None, "%s collides with the EOL/fill subtree: %s" % (name, e)
        assert _kraft(codes) == 1 - Fraction(1, 256), "%s: Kraft sum %s, expected 255/256" % (name, _kraft(codes))
        assert max(len(c) for c in codes) <= 13
    assert EOL.startswith("00000000") and EOL == "0" * 11 + "1"
    for n, c in EXT.items():
        assert WHITE[n] == BLACK[n] == c and c.startswith("00000001") and len(c) in (11, 12)
    assert sorted(EXT) == list(range(1792, 2561, 64))
    # mode codes
    mc = list(MODES.values())
    assert len(set(mc)) == 9
    e = _prefix_free(mc + ["000000"])
    assert e is None, "mode codes: %s" % e
    assert _kraft(mc) == 1 - Fraction(1, 64), _kraft(mc)  # rest = 000000x: extensions 0000001xxx and EOL
    assert EXTENSION_PREFIX.startswith("000000") and EOL.startswith("0000000")
    for d in (1, 2, 3):  # VR/VL pairs differ in the last bit only, VR ends in 1
        assert VERT[d][:-1] == VERT[-d][:-1] and VERT[d][-1] == "1" and VERT[-d][-1] == "0"
    return True


def tables_digest():
    import hashlib

    t = ";".join("%s=%s" % kv for t in (WHITE, BLACK) for kv in sorted(t.items()))
    t += ";" + ";".join("%s=%s" % kv for kv in sorted(MODES.items(), key=str)) + ";" + EOFB
    return hashlib.sha1(t.encode()).hexdigest()


# Digest of the tables above in the state that was verified by hand (2026-10-03): structurally (prefix-free,
# Kraft-complete up to the EOL subtree) and entry by entry against pdfminer/ccitt.py at faf1428 - two
# independent transcriptions of T.4 Tables 2/3 and T.6 Table 1 that agree.  selfcheck() refuses to run with
# edited tables until they are re-verified and this pin is updated.
TABLES_PIN = "b1b2cc43d3b3a49f37bcb65d47b1aa4e7d27b246"


def _walk(trie, prefix=""):
    """pdfminer BitParser trie ([zero, one] nested lists) -> {bits: value}"""
    out = {}
    for b in (0, 1):
        v = trie[b]
        if isinstance(v, list):
            out.update(_walk(v, prefix + str(b)))
        elif v is not None:
            out[prefix + str(b)] = v
    return out


def compare_with_library():
    """Compares the harness tables with pdfminer.ccitt's tries.  Returns a list of disagreements (strings)."""
    from pdfminer.ccitt import CCITTG4Parser as P

    diffs = []
    for name, mine, trie in (("WHITE", WHITE, P.WHITE), ("BLACK", BLACK, P.BLACK)):
        lib = _walk(trie)
        libd = {}
        for bits, v in lib.items():
            if v in libd:
                diffs.append("%s: library has two codes for run %r" % (name, v))
            libd[v] = bits
        for n in sorted(set(mine) | set(libd), key=str):
            if mine.get(n) != libd.get(n):
                diffs.append("%s run %r: harness %s library %s" % (name, n, mine.get(n), libd.get(n)))
    lib = {v: bits for bits, v in _walk(P.MODE).items()}
    mine = {"p": PASS, "h": HORIZ, "e": EOFB}
    mine.update(VERT)
    for k in sorted(mine, key=str):
        if lib.get(k) != mine[k]:
            diffs.append("MODE %r: harness %s library %s" % (k, mine[k], lib.get(k)))
    for k in sorted(set(lib) - set(mine), key=str):
        if not (lib[k].startswith(EXTENSION_PREFIX) and len(lib[k]) == 10):
            diffs.append("MODE %r: library-only code %s outside the extension subtree" % (k, lib[k]))
    return diffs


# ---------------------------------------------------------------------------------------------------------
def changes(row):
    """Positions of the changing elements of a row (imaginary white pel before the row)."""
    out = []
    prev = 0
    for i, p in enumerate(row):
        if p != prev:
            out.append(i)
            prev = p
    return out


class Stats:
    def __init__(self):
        self.modes = set()       # "P", "V0", "VR1".., "H"
        self.kinds = set()       # "P", "V", "H"
        self.makeup = 0          # make-up codes 64..1728
        self.ext = 0             # make-up codes 1792..2560
        self.rep2560 = 0         # runs with 2560 issued at least twice
        self.after2560 = 0       # 2560 followed by a further make-up code
        self.fill_rows = 0       # rows after which fill bits precede further content (next row or EOFB)
        self.zero_runs = 0
        self.steps = 0
        self.nbits = 0
        self.choice_points = 0   # steps with more than one admissible mode
        self.nonstd = 0          # steps where the choice differs from the Recommendation's procedure
        self.runs_used = set()   # (colour, code value)


def run_code(color, n, stats=None):
    """Code words for a run of n pels of the given colour (0 white / 1 black)."""
    tbl = BLACK if color else WHITE
    out = []
    c2560 = 0
    while n >= 2560:
        out.append(tbl[2560])
        n -= 2560
        c2560 += 1
    if n >= 64:
        m = n - n % 64
        out.append(tbl[m])
        n -= m
        if stats is not None:
            if m >= 1792:
                stats.ext += 1
            else:
                stats.makeup += 1
            stats.runs_used.add((color, m))
            if c2560:
                stats.after2560 += 1
    out.append(tbl[n])
    if stats is not None:
        stats.runs_used.add((color, n))
        if c2560:
            stats.ext += c2560
            stats.runs_used.add((color, 2560))
        if c2560 >= 2:
            stats.rep2560 += 1
    return "".join(out)


def _vname(d):
    return "V0" if d == 0 else ("VR%d" % d if d > 0 else "VL%d" % -d)


def encode_row(refch, row, w, choose, stats):
    """One coding line.  refch = changing elements of the reference line.  choose(opts) picks from a
    non-empty list drawn from ["P", "V", "H"] (in this order).  Returns (bit string, changes of row)."""
    cur = changes(row)
    out = []
    a0 = -1
    color = 0
    nr, nc = len(refch), len(cur)
    while a0 < w:
        j = bisect_right(cur, a0)
        assert j % 2 == color  # the next changing element of the coding line has the opposite colour
        a1 = cur[j] if j < nc else w
        a2 = cur[j + 1] if j + 1 < nc else w
        k = bisect_right(refch, a0)
        if k % 2 != color:  # element k has colour (k+1)%2... even index = white->black
            k += 1
        b1 = refch[k] if k < nr else w
        b2 = refch[k + 1] if k + 1 < nr else w
        assert a0 < a1 <= a2 <= w and a0 < b1 <= b2 <= w
        opts = []
        if b2 < a1:
            opts.append("P")
        if abs(a1 - b1) <= 3:
            opts.append("V")
        opts.append("H")
        m = choose(opts) if len(opts) > 1 else opts[0]
        assert m in opts
        stats.steps += 1
        if len(opts) > 1:
            stats.choice_points += 1
            if m != opts[0]:
                stats.nonstd += 1
        stats.kinds.add(m)
        if m == "P":
            out.append(PASS)
            stats.modes.add("P")
            a0 = b2
        elif m == "V":
            d = a1 - b1
            out.append(VERT[d])
            stats.modes.add(_vname(d))
            a0 = a1
            color ^= 1
        else:
            s = a0 if a0 > 0 else 0
            r1, r2 = a1 - s, a2 - a1
            if r1 == 0 or r2 == 0:
                stats.zero_runs += 1
            out.append(HORIZ + run_code(color, r1, stats) + run_code(color ^ 1, r2, stats))
            stats.modes.add("H")
            a0 = a2
    return "".join(out), cur


def encode(rows, w, choose, align=False, eofb=True):
    """rows: list of sequences of 0/1 ink of length w.  Returns (bytes, Stats).
    align: every row starts on a byte boundary (EncodedByteAlign); the EOFB, if any, too."""
    assert w >= 1
    st = Stats()
    parts = []
    n = 0
    ref = []
    for row in rows:
        assert len(row) == w
        if align and n % 8:
            parts.append("0" * (-n % 8))
            n += -n % 8
            st.fill_rows += 1
        bits, ref = encode_row(ref, row, w, choose, st)
        parts.append(bits)
        n += len(bits)
    if eofb:
        if align and n % 8:
            parts.append("0" * (-n % 8))
            n += -n % 8
            st.fill_rows += 1
        parts.append(EOFB)
        n += len(EOFB)
    if n % 8:
        parts.append("0" * (-n % 8))
        n += -n % 8
    st.nbits = n
    s = "".join(parts)
    return (int(s, 2).to_bytes(n // 8, "big") if n else b""), st


# ---- mode policies ---------------------------------------------------------------------------------------
def policy(name, rnd=None):
    """Returns choose(opts).  opts is a sub-list of ["P","V","H"] in that order, len >= 2."""
    if name == "std":      # the Recommendation's procedure: pass, else vertical, else horizontal
        return lambda o: o[0]
    if name == "vert":     # vertical before pass
        return lambda o: "V" if "V" in o else o[0]
    if name == "horiz":    # horizontal everywhere
        return lambda o: "H"
    if name == "passh":    # pass when available, otherwise horizontal (never vertical)
        return lambda o: "P" if "P" in o else "H"
    if name == "rnd":
        return lambda o: o[rnd.randrange(len(o))]
    if name == "rndh":     # horizontal-heavy random
        return lambda o: "H" if rnd.random() < 0.6 else o[rnd.randrange(len(o))]
    raise ValueError(name)


POLICIES = ["std", "vert", "horiz", "passh", "rnd", "rndh"]


class Script:
    """Chooser that replays a list of choice indices and then takes index 0, recording arities, so that all
    admissible mode sequences of a bitmap can be enumerated (odometer over the recorded arities)."""

    def __init__(self, prefix=()):
        self.prefix = list(prefix)
        self.taken = []
        self.arity = []

    def __call__(self, opts):
        i = len(self.taken)
        c = self.prefix[i] if i < len(self.prefix) else 0
        self.taken.append(c)
        self.arity.append(len(opts))
        return opts[c]


def all_encodings(rows, w, align=False, eofb=True, limit=None):
    """Yields (data, stats, choice list) for every admissible sequence of mode choices."""
    prefix = []
    count = 0
    while True:
        sc = Script(prefix)
        data, st = encode(rows, w, sc, align, eofb)
        yield data, st, list(sc.taken)
        count += 1
        if limit is not None and count >= limit:
            return
        t, a = sc.taken, sc.arity
        i = len(t) - 1
        while i >= 0 and t[i] + 1 >= a[i]:
            i -= 1
        if i < 0:
            return
        prefix = t[:i] + [t[i] + 1]


# ---- packing ------------------------------------------------------------------------------------------
_TR = bytes.maketrans(b"\x00\x01", b"01")


def pack_rows(rows, w, black1):
    """PDF sample data: rows MSB first, each padded with 0 bits to a byte; BlackIs1 false: black = 0."""
    out = bytearray()
    nb = (w + 7) // 8
    full = (1 << w) - 1
    for row in rows:
        assert len(row) == w
        v = int(bytes(row).translate(_TR), 2)  # ink bits, first pel = most significant
        if not black1:
            v ^= full
        out += (v << (nb * 8 - w)).to_bytes(nb, "big")
    return bytes(out)


def unpack_rows(data, w, black1):
    nb = (w + 7) // 8
    assert len(data) % nb == 0
    rows = []
    for i in range(0, len(data), nb):
        v = int.from_bytes(data[i:i + nb], "big") >> (nb * 8 - w)
        row = [(v >> (w - 1 - x)) & 1 for x in range(w)]
        rows.append(row if black1 else [1 - p for p in row])
    return rows


# ---- independent textbook decoder (validates the encoder; used for triage, never as the oracle) --------
class DecodeError(Exception):
    pass


_MODE_BY_CODE = {c: m for m, c in MODES.items()}
_RUN_BY_CODE = ({c: n for n, c in WHITE.items()}, {c: n for n, c in BLACK.items()})


def ref_decode(data, w, nrows, align=False, eofb=None):
    """Decodes exactly nrows rows by the T.6 definitions (pel scanning, no shared code with the encoder's
    bisect logic).  eofb: None = do not check the tail; True/False = tail must be (fill +) EOFB + zero fill
    / zero fill only.  Returns the rows (lists of ink)."""
    s = bin(int.from_bytes(b"\x01" + data, "big"))[3:]
    pos = 0

    def code(table, what):
        nonlocal pos
        for L in range(1, 14):
            c = s[pos:pos + L]
            if len(c) < L:
                break
            if c in table:
                pos += L
                return table[c]
        raise DecodeError("no %s code at bit %d: %s" % (what, pos, s[pos:pos + 14]))

    def run(color):
        n = 0
        while True:
            r = code(_RUN_BY_CODE[color], "run")
            n += r
            if r < 64:
                return n

    def find_b(ref, a0, color):
        # b1: first x > a0 with ref[x] != color and previous pel (imaginary white at -1) == color ... i.e. a
        # changing element whose colour is opposite to a0's colour
        x = a0 + 1
        while x < w:
            prev = ref[x - 1] if x > 0 else 0
            if ref[x] != prev and ref[x] != color:
                break
            x += 1
        b1 = x
        x = b1 + 1
        while x < w and ref[x] == ref[b1]:
            x += 1
        b2 = min(x, w)
        return b1, b2

    rows = []
    ref = [0] * w
    for _ in range(nrows):
        if align and pos % 8:
            if "1" in s[pos:pos + (-pos % 8)]:
                raise DecodeError("non-zero fill bits at %d" % pos)
            pos += -pos % 8
        cur = [0] * w
        a0 = -1
        color = 0
        while a0 < w:
            m = code(_MODE_BY_CODE, "mode")
            s0 = max(a0, 0)
            if m == "P":
                b1, b2 = find_b(ref, a0, color)
                if b1 >= w:
                    raise DecodeError("pass mode without b1/b2")
                for x in range(s0, b2):
                    cur[x] = color
                a0 = b2
            elif m == "H":
                r1 = run(color)
                r2 = run(color ^ 1)
                if s0 + r1 + r2 > w:
                    raise DecodeError("horizontal runs exceed the line")
                for x in range(s0, s0 + r1):
                    cur[x] = color
                for x in range(s0 + r1, s0 + r1 + r2):
                    cur[x] = color ^ 1
                a0 = s0 + r1 + r2
                if r1 + r2 == 0:
                    raise DecodeError("no progress")
            else:
                b1, b2 = find_b(ref, a0, color)
                a1 = b1 + m
                if a1 <= a0 or a1 > w:
                    raise DecodeError("vertical mode out of range")
                for x in range(s0, a1):
                    cur[x] = color
                a0 = a1
                color ^= 1
        rows.append(cur)
        ref = cur
    if eofb is not None:
        if eofb:
            if align and pos % 8:
                pos += -pos % 8
            if s[pos:pos + 24] != EOFB:
                raise DecodeError("EOFB expected at bit %d" % pos)
            pos += 24
        if "1" in s[pos:] or len(s) - pos >= 8:
            raise DecodeError("unexpected tail after bit %d" % pos)
    return rows


def selfcheck():
    import itertools
    import random

    check_tables()
    assert tables_digest() == TABLES_PIN, "harness code tables were edited: re-verify against T.4/T.6 and update TABLES_PIN"
    # run_code boundaries
    for n, want in ((0, [0]), (63, [63]), (64, [64, 0]), (1728, [1728, 0]), (1791, [1728, 63]), (1792, [1792, 0]),
                    (2559, [2496, 63]), (2560, [2560, 0]), (2623, [2560, 63]), (2624, [2560, 64, 0]),
                    (5119, [2560, 2496, 63]), (5120, [2560, 2560, 0]), (7745, [2560, 2560, 2560, 64, 1])):
        for col, tbl in ((0, WHITE), (1, BLACK)):
            assert run_code(col, n) == "".join(tbl[x] for x in want), (n, col)
            assert sum(want) == n
    # T.6 worked micro-examples (hand-computed from the definitions)
    std = policy("std")
    # all-white row: a1 = b1 = w -> V0
    d, _ = encode([[0, 0, 0, 0]], 4, std, eofb=False)
    assert d == bytes([0b10000000]), d
    # row 0110 on white reference: b1 = 4; a1 = 1 -> VL3 (0000010); then a1 = 3, b1 = 4 -> VL1 (010);
    # then a1 = 4 = b1 -> V0 (1):  0000010 010 1 + fill
    d, _ = encode([[0, 1, 1, 0]], 4, std, eofb=False)
    assert d == bytes([0b00000100, 0b10100000]), d
    # same row, horizontal everywhere: H W1 B2 (001 000111 11), then a0=3: a1=a2=4: H W1 B0 (001 000111 0000110111)
    d, _ = encode([[0, 1, 1, 0]], 4, policy("horiz"), eofb=False)
    want = "001" + "000111" + "11" + "001" + "000111" + "0000110111"
    want += "0" * (-len(want) % 8)
    assert d == int(want, 2).to_bytes(len(want) // 8, "big"), d
    # pass mode: reference 0110, coding 0000: a1 = 4, b1 = 1, b2 = 3 < a1 -> P (0001), a0 = 3; then b1 = 4 = a1 -> V0
    d, st = encode([[0, 1, 1, 0], [0, 0, 0, 0]], 4, std, eofb=True)
    want = "0000010" + "010" + "1" + "0001" + "1" + EOFB
    want += "0" * (-len(want) % 8)
    assert d == int(want, 2).to_bytes(len(want) // 8, "big"), d
    assert st.kinds == {"P", "V"}
    # round trips through the textbook decoder: every bitmap w<=4,h<=2 under every mode sequence
    n = 0
    for w in range(1, 5):
        for h in (1, 2):
            for px in itertools.product((0, 1), repeat=w * h):
                rows = [list(px[i * w:(i + 1) * w]) for i in range(h)]
                for k, (data, st, ch) in enumerate(all_encodings(rows, w, align=(n % 2 == 1), eofb=(n % 3 != 0))):
                    got = ref_decode(data, w, h, align=(n % 2 == 1), eofb=(n % 3 != 0))
                    assert got == rows, (rows, ch, data)
                    if k >= 40:
                        break
                n += 1
                for b1 in (False, True):
                    assert unpack_rows(pack_rows(rows, w, b1), w, b1) == rows
    rnd = random.Random(19)
    for t in range(60):
        w = rnd.choice([7, 8, 9, 63, 64, 65, 130, 700, 1729, 2561, 2700, 5200])
        rows = []
        for r in range(rnd.randint(1, 3)):
            row = []
            c = rnd.randint(0, 1)
            while len(row) < w:
                row += [c] * rnd.choice([1, 2, 3, 5, 63, 64, 65, 640, 1728, 1792, 2560, 2624, 5120, 5121])
                c ^= 1
            rows.append(row[:w])
        pol = POLICIES[t % len(POLICIES)]
        al, eo = bool(t & 1), bool(t & 2)
        data, st = encode(rows, w, policy(pol, rnd), al, eo)
        assert ref_decode(data, w, len(rows), al, eo) == rows, (w, pol)
    assert pack_rows([[1, 0, 0]], 3, True) == b"\x80" and pack_rows([[1, 0, 0]], 3, False) == b"\x60"
    return True
