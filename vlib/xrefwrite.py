"""Writer for revision histories in drawn physical forms (classic table / xref stream / hybrid, object streams,
incremental updates).  Independent of pdfminer; trusted base of C02 (and used by C10/C12/C13 for variety).

history = [revision, ...]; revision = {
   "defs": {objnum: abstract value (vlib.pdfwrite) incl. ("S", dict, data) streams},
   "root": objnum of the catalog for this revision's trailer, "info": objnum or None,
   "form": "table" | "stream" | "hybrid",
   "pack": [objnums stored in object streams]  (ignored for form "table"), "nstm": 1..3 object streams,
   "eol": b"\n" | b"\r\n" | b"\r"        line ends of xref keyword / subsection headers / trailer lines,
   "trailer_sep": what stands between the keyword `trailer` and its dictionary (default: eol; b" " and b"" are valid too),
   "entry_eol": b" \n" | b" \r" | b"\r\n"   20-byte entry terminator,
   "split": bool       split contiguous runs into extra subsections / index ranges,
   "pad_free": bool    cover min..max with one range, undefined numbers as free entries,
   "w": [a,b,c]        xref stream field widths, "index_default": bool (Index omitted: 0..Size),
   "flate": bool, "png_up": bool (+ "png_rows": [tags], "png_predictor": 10..15), "objstm_flate": bool
}
"""
import struct
import zlib

from vlib import pdfwrite as W


def _runs(nums, split=False, splitter=None):
    runs = []
    for n in sorted(nums):
        if runs and runs[-1][-1] == n - 1 and not (split and splitter and splitter(n)):
            runs[-1].append(n)
        else:
            runs.append([n])
    return runs


def _pack_field(v, w):
    if w == 0:
        return b""
    return v.to_bytes(w, "big")


def write_history(history, header=b"%PDF-1.7\n%\xe2\xe3\xcf\xd3\n", tail=b"\n", container_base=1000):
    """-> (file bytes, meta).  meta = {"sections": [set of in-use numbers per revision], "containers": set,
    "offsets": {...}, "startxref": final offset, "xref_spans": [(start, end) of each classic table section]}"""
    out = bytearray(header)
    prev = None
    nextc = container_base
    sections = []
    hybrid_parts = {}  # ri -> (offset of the /XRefStm stream, ids in the table, ids in the stream)
    copied = set()  # revisions (classic table) whose trailer repeats the /XRefStm of the hybrid revision before them
    containers = set()
    maxn = 0
    spans = []
    all_offs = {}
    ever = set()  # numbers defined by any revision so far (a free entry for one of them would delete it)
    for ri, rev in enumerate(history):
        form = rev["form"]
        eol = rev.get("eol", b"\n")
        defs = rev["defs"]
        offs = {}
        comp = {}
        gens = rev.get("gens", {})
        packable = [n for n in sorted(defs) if n in set(rev.get("pack", [])) and form != "table"
                    and not W.is_stream(defs[n]) and gens.get(n, 0) == 0]
        for n in sorted(defs):
            if n in packable:
                continue
            offs[n] = len(out)
            out += W.obj_bytes(n, gens.get(n, 0), defs[n], eol=b"\n", stream_eol=rev.get("stream_eol", b"\n"),
                               end_eol=rev.get("stream_end_eol", b"\n"), head_sep=rev.get("head_sep"))
        if packable:
            k = max(1, min(rev.get("nstm", 1), len(packable)))
            groups = [packable[i::k] for i in range(k)]
            for grp in groups:
                stm = nextc
                nextc += 1
                hdr = b""
                body = b""
                for i, n in enumerate(grp):
                    hdr += b"%d %d " % (n, len(body))
                    body += W.ser(defs[n]) + b"\n"
                    comp[n] = (stm, i)
                data = hdr + body
                d = W.D(Type=W.N("ObjStm"), N=len(grp), First=len(hdr))
                dmg = rev.get("objstm_damage")
                if dmg and dmg.get("group", 0) == groups.index(grp):
                    # a damaged object stream (C13): payload cut / dictionary entries replaced
                    if "cut" in dmg:
                        data = data[:dmg["cut"]]
                    for key, val in dmg.get("dict", {}).items():
                        d[key] = val
                if rev.get("objstm_flate"):
                    data = zlib.compress(data)
                    d[b"Filter"] = W.N("FlateDecode")
                offs[stm] = len(out)
                out += W.obj_bytes(stm, 0, W.Stream(d, data))
                containers.add(stm)
        trailer = {b"Root": W.R(rev["root"])}
        if rev.get("info") is not None:
            trailer[b"Info"] = W.R(rev["info"])
        if prev is not None:
            trailer[b"Prev"] = prev
        if rev.get("trailer_extra"):
            trailer.update(rev["trailer_extra"])
        xs_num = None
        if form in ("stream", "hybrid"):
            xs_num = nextc
            nextc += 1
            containers.add(xs_num)
        maxn = max([maxn] + list(offs) + list(comp) + ([xs_num] if xs_num else []))
        size = maxn + 1

        def table_bytes(entries_inuse, free_nums):
            nums = set(entries_inuse) | set(free_nums)
            if ri == 0:
                nums.add(0)
            splitter = (lambda n: n % 3 == 0) if rev.get("split") else None
            if rev.get("pad_free") and nums:
                nums |= set(range(min(nums), max(nums) + 1)) - ever
            runs = _runs(nums, rev.get("split"), splitter)
            t = bytearray(b"xref" + eol)
            ee = rev.get("entry_eol", b" \n")
            for r in runs:
                t += b"%d %d" % (r[0], len(r)) + eol
                for n in r:
                    if n in entries_inuse:
                        t += b"%010d %05d n" % (entries_inuse[n], gens.get(n, 0)) + ee
                    else:
                        t += b"%010d %05d f" % (0, 65535 if n == 0 else 0) + ee
            return bytes(t)

        def xref_stream_obj(num, entries, extra_dict, self_off):
            """entries: {n: (type, f2, f3)} for in-use; returns object bytes"""
            w = list(rev.get("w", [1, 4, 2]))
            ents = dict(entries)
            ents[num] = (1, self_off, 0)
            nums = set(ents)
            index_default = rev.get("index_default") and ri == 0
            if ri == 0:
                nums.add(0)
            if index_default:
                nums = set(range(0, size))
            elif rev.get("pad_free") and nums:
                nums |= set(range(min(nums), max(nums) + 1)) - ever
            splitter = (lambda n: n % 3 == 0) if rev.get("split") else None
            runs = _runs(nums, rev.get("split"), splitter)
            # /Index lists the subsections in the order of the stream data, which need not be ascending
            if index_default:
                pass  # no /Index entry: one subsection, 0 .. Size-1
            elif rev.get("index_order") == "reversed":
                runs = runs[::-1]
            elif rev.get("index_order") == "rotated":
                runs = runs[1:] + runs[:1]
            need2 = max([e[1] for e in ents.values()] + [0])
            while need2 >= 256 ** w[1]:
                w[1] += 1
            need3 = max([e[2] for e in ents.values()] + [0])
            if w[2] == 0 and need3 > 0:
                w[2] = 2
            while need3 >= 256 ** max(w[2], 1) and w[2] > 0:
                w[2] += 1
            if w[0] == 0 and any(e[0] != 1 for e in ents.values()) or (w[0] == 0 and len(nums) != len(ents)):
                w[0] = 1
            rows = []
            for r in runs:
                for n in r:
                    t, f2, f3 = ents.get(n, (0, 0, 65535 if n == 0 else 0))
                    if w[2] and f3 >= 256 ** w[2]:
                        f3 = 256 ** w[2] - 1
                    rows.append(_pack_field(t, w[0]) + _pack_field(f2, w[1]) + _pack_field(f3, w[2]))
            data = b"".join(rows)
            d = W.D(Type=W.N("XRef"), Size=size, W=w)
            if not index_default:
                d[b"Index"] = [v for r in runs for v in (r[0], len(r))]
            d.update(extra_dict)
            if rev.get("flate"):
                if rev.get("png_up"):
                    # PNG prediction: the per-row tag decides the filter (Up for every row unless "png_rows" gives a
                    # cycle of tags 0..4); the /Predictor value >= 10 only announces that rows are tagged.
                    from vlib import filters as _F
                    cols = sum(w)
                    tags = rev.get("png_rows") or [2]
                    data = _F.png_forward(data, 1, cols, 8, tags)
                    d[b"DecodeParms"] = W.D(Predictor=rev.get("png_predictor", 12), Columns=cols)
                data = zlib.compress(data)
                d[b"Filter"] = W.N("FlateDecode")
            return W.obj_bytes(num, 0, W.Stream(d, data))

        if form == "table":
            x = len(out)
            t = table_bytes(offs, [])
            out += t
            spans.append((x, x + len(t)))
            trailer[b"Size"] = size
            if rev.get("copy_xrefstm") and (ri - 1) in hybrid_parts:
                # a writer that copies the previous trailer: the update names the cross-reference stream of the hybrid
                # revision before it once more (nothing is defined twice: no object is ever deleted)
                trailer[b"XRefStm"] = hybrid_parts[ri - 1][0]
                copied.add(ri)
            out += b"trailer" + rev.get("trailer_sep", eol) + W.ser(trailer) + eol
            sections.append(set(offs))
        elif form == "stream":
            x = len(out)
            ents = {n: (1, o, gens.get(n, 0)) for n, o in offs.items()}
            ents.update({n: (2, s, i) for n, (s, i) in comp.items()})
            out += xref_stream_obj(xs_num, ents, trailer, x)
            offs[xs_num] = x
            sections.append(set(ents) | {xs_num})
        else:  # hybrid: compressed objects only in the XRefStm; the table lists them as free
            xs_off = len(out)
            ents = {n: (2, s, i) for n, (s, i) in comp.items()}
            out += xref_stream_obj(xs_num, ents, {}, xs_off)
            offs[xs_num] = xs_off
            x = len(out)
            t = table_bytes(offs, list(comp))
            out += t
            spans.append((x, x + len(t)))
            trailer[b"Size"] = size
            trailer[b"XRefStm"] = xs_off
            out += b"trailer" + rev.get("trailer_sep", eol) + W.ser(trailer) + eol
            sections.append(set(offs) | set(comp))
            hybrid_parts[ri] = (xs_off, set(offs), set(comp) | {xs_num})
        out += b"startxref" + eol + b"%d" % x + eol + b"%%EOF" + (tail if ri == len(history) - 1 else b"\n")
        prev = x
        all_offs.update(offs)
        ever |= set(offs) | set(comp)
    return bytes(out), {"sections": sections, "hybrid_parts": hybrid_parts, "copied_xrefstm": copied, "containers": containers, "startxref": prev, "xref_spans": spans,
                        "offsets": all_offs}
