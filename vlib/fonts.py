"""Simple-font helpers for the harness (C06; generic enough for other font checks).

* font dictionary builders for Type1 / MMType1 / TrueType / Type3 (values as understood by vlib.pdfwrite)
* `tounicode_cmap`  : ToUnicode CMap stream text (bfchar, bfrange incremental form, bfrange array form; n-byte codes,
                      multi-character and non-BMP targets)
* `type1_program`   : minimal embedded Type 1 font program (clear-text header with a `dup <code> /<name> put`
                      built-in encoding, then an opaque eexec portion) for /FontFile + /Length1
* REFERENCE implementation of the Adobe Glyph List algorithm (agl_*), written from the AGL specification
  (https://github.com/adobe-type-tools/agl-specification, section 2 "The mapping")
* independently derived tables of the four Latin base encodings of ISO 32000-1 Annex D (code -> Unicode string):
  StandardEncoding and PDFDocEncoding transcribed, MacRomanEncoding / WinAnsiEncoding derived from Python's
  mac_roman / cp1252 codecs plus a short, justified exception list
* `selfcheck()`     : internal consistency of all of the above (raises AssertionError => harness error)

pdfminer is imported only as a source of *data* (glyph list, AFM widths) and only lazily.
"""
from __future__ import annotations

from vlib.pdfwrite import D, N, R, Real, Stream  # noqa: F401  (re-exported for users of this module)

HEXU = "0123456789ABCDEF"


# =====================================================================================================
# Adobe Glyph List algorithm - reference implementation
# =====================================================================================================
def glyphlist():
    """The AGL glyph list (name -> string).  DATA shared with the library; cross-validated in selfcheck()."""
    from pdfminer.glyphlist import glyphname2unicode

    return glyphname2unicode


def _scalar_ok(v):
    return 0 <= v <= 0xD7FF or 0xE000 <= v <= 0x10FFFF


def agl_component(comp, gl=None, hexdigits=HEXU):
    """AGL spec step 3 for ONE component: string, or None when the component maps to the empty string.
    `hexdigits` is the digit alphabet (the specification: uppercase only)."""
    gl = glyphlist() if gl is None else gl
    if comp in gl:
        return gl[comp]
    if comp.startswith("uni"):
        h = comp[3:]
        if len(h) >= 4 and len(h) % 4 == 0 and all(c in hexdigits for c in h):
            vals = [int(h[i:i + 4], 16) for i in range(0, len(h), 4)]
            if all(v <= 0xD7FF or v >= 0xE000 for v in vals):
                return "".join(chr(v) for v in vals)
    if comp.startswith("u"):
        h = comp[1:]
        if 4 <= len(h) <= 6 and all(c in hexdigits for c in h) and _scalar_ok(int(h, 16)):
            return chr(int(h, 16))
    return None


def agl_components(name, gl=None, hexdigits=HEXU):
    """Steps 1-3: drop everything from the first '.', split at '_', map each component (None = unmappable)."""
    base = name.split(".", 1)[0]
    return [agl_component(c, gl, hexdigits) for c in base.split("_")]


def agl_lenient_differs(name, gl=None):
    """True if reading lowercase hexadecimal digits as well (a documented leniency of pdfminer, pinned by
    tests/test_encodingdb.py: 'lowercase unicode often occurs in pdf's') changes the result for some component."""
    return agl_components(name, gl) != agl_components(name, gl, HEXU + "abcdef")


def agl_text(name, gl=None):
    """The string the AGL specification assigns to `name` (unmappable components contribute nothing)."""
    return "".join(c or "" for c in agl_components(name, gl))


def agl_strict(name, gl=None):
    """String if EVERY component is mappable, else None.  (pdfminer.encodingdb.name2unicode documents that it
    raises KeyError instead of returning an empty string for an unknown component.)"""
    comps = agl_components(name, gl)
    if any(c is None for c in comps):
        return None
    return "".join(comps)


def agl_kind(name, gl=None):
    """'all' (every component mappable), 'none' (no component mappable), 'mixed'."""
    comps = agl_components(name, gl)
    k = sum(c is not None for c in comps)
    return "all" if k == len(comps) else ("none" if k == 0 else "mixed")


# =====================================================================================================
# Base encodings (ISO 32000-1 Annex D.2), derived independently of pdfminer.latin_enc
# =====================================================================================================
ENCODING_NAMES = ["StandardEncoding", "MacRomanEncoding", "WinAnsiEncoding", "PDFDocEncoding"]

# --- StandardEncoding, transcribed (code, glyph name, Unicode of the name per AGL).  Codes 32-126 are ASCII except
# 39 = quoteright and 96 = quoteleft.
_STD_HIGH = [
    (161, "exclamdown", 0x00A1), (162, "cent", 0x00A2), (163, "sterling", 0x00A3), (164, "fraction", 0x2044),
    (165, "yen", 0x00A5), (166, "florin", 0x0192), (167, "section", 0x00A7), (168, "currency", 0x00A4),
    (169, "quotesingle", 0x0027), (170, "quotedblleft", 0x201C), (171, "guillemotleft", 0x00AB),
    (172, "guilsinglleft", 0x2039), (173, "guilsinglright", 0x203A), (174, "fi", 0xFB01), (175, "fl", 0xFB02),
    (177, "endash", 0x2013), (178, "dagger", 0x2020), (179, "daggerdbl", 0x2021), (180, "periodcentered", 0x00B7),
    (182, "paragraph", 0x00B6), (183, "bullet", 0x2022), (184, "quotesinglbase", 0x201A),
    (185, "quotedblbase", 0x201E), (186, "quotedblright", 0x201D), (187, "guillemotright", 0x00BB),
    (188, "ellipsis", 0x2026), (189, "perthousand", 0x2030), (191, "questiondown", 0x00BF), (193, "grave", 0x0060),
    (194, "acute", 0x00B4), (195, "circumflex", 0x02C6), (196, "tilde", 0x02DC), (197, "macron", 0x00AF),
    (198, "breve", 0x02D8), (199, "dotaccent", 0x02D9), (200, "dieresis", 0x00A8), (202, "ring", 0x02DA),
    (203, "cedilla", 0x00B8), (205, "hungarumlaut", 0x02DD), (206, "ogonek", 0x02DB), (207, "caron", 0x02C7),
    (208, "emdash", 0x2014), (225, "AE", 0x00C6), (227, "ordfeminine", 0x00AA), (232, "Lslash", 0x0141),
    (233, "Oslash", 0x00D8), (234, "OE", 0x0152), (235, "ordmasculine", 0x00BA), (241, "ae", 0x00E6),
    (245, "dotlessi", 0x0131), (248, "lslash", 0x0142), (249, "oslash", 0x00F8), (250, "oe", 0x0153),
    (251, "germandbls", 0x00DF),
]

# --- PDFDocEncoding, transcribed from ISO 32000-1 Annex D.2/D.3: 0x18-0x1F accents, 0x20-0x7E ASCII, 0x7F undefined,
# 0x80-0x9E below, 0x9F undefined, 0xA0 Euro, 0xA1-0xFF Latin-1 with 0xAD undefined.
_PDFDOC_SPECIAL = [
    (0x18, "breve", 0x02D8), (0x19, "caron", 0x02C7), (0x1A, "circumflex", 0x02C6), (0x1B, "dotaccent", 0x02D9),
    (0x1C, "hungarumlaut", 0x02DD), (0x1D, "ogonek", 0x02DB), (0x1E, "ring", 0x02DA), (0x1F, "tilde", 0x02DC),
    (0x80, "bullet", 0x2022), (0x81, "dagger", 0x2020), (0x82, "daggerdbl", 0x2021), (0x83, "ellipsis", 0x2026),
    (0x84, "emdash", 0x2014), (0x85, "endash", 0x2013), (0x86, "florin", 0x0192), (0x87, "fraction", 0x2044),
    (0x88, "guilsinglleft", 0x2039), (0x89, "guilsinglright", 0x203A), (0x8A, "minus", 0x2212),
    (0x8B, "perthousand", 0x2030), (0x8C, "quotedblbase", 0x201E), (0x8D, "quotedblleft", 0x201C),
    (0x8E, "quotedblright", 0x201D), (0x8F, "quoteleft", 0x2018), (0x90, "quoteright", 0x2019),
    (0x91, "quotesinglbase", 0x201A), (0x92, "trademark", 0x2122), (0x93, "fi", 0xFB01), (0x94, "fl", 0xFB02),
    (0x95, "Lslash", 0x0141), (0x96, "OE", 0x0152), (0x97, "Scaron", 0x0160), (0x98, "Ydieresis", 0x0178),
    (0x99, "Zcaron", 0x017D), (0x9A, "dotlessi", 0x0131), (0x9B, "lslash", 0x0142), (0x9C, "oe", 0x0153),
    (0x9D, "scaron", 0x0161), (0x9E, "zcaron", 0x017E), (0xA0, "Euro", 0x20AC),
]

# --- WinAnsiEncoding = Windows code page 1252, except (ISO 32000-1 Annex D.2, footnotes 3, 5, 6):
#   * 0xA0: "The SPACE character shall also be encoded as ... 240 [octal] in WinAnsiEncoding" - the glyph is `space`,
#     whose AGL value is U+0020 (cp1252 has U+00A0).
#   * 0xAD: "The HYPHEN character shall also be encoded as 255 [octal] in WinAnsiEncoding" - the glyph is `hyphen`,
#     AGL value U+002D (cp1252 has U+00AD SOFT HYPHEN).
#   * 0x7F, 0x81, 0x8D, 0x8F, 0x90, 0x9D: unused in cp1252.  Footnote 3: "all unused codes greater than 40 map to the
#     bullet character.  However, only code 225 [octal] shall be specifically assigned to the bullet character; other
#     codes are subject to future reassignment."  Either "no character" or a bullet is acceptable => UNASSERTED.
WIN_SPACE_HYPHEN = {0xA0: " ", 0xAD: "-"}
WIN_UNUSED = (0x7F, 0x81, 0x8D, 0x8F, 0x90, 0x9D)

# --- MacRomanEncoding = Mac OS Roman, except (ISO 32000-1 Annex D.2 and the note under Table 115 in 9.6.6.4):
#   * the PDF encoding covers only the standard Latin character set; "Mac OS Roman" adds 15 entries which are NOT in
#     MacRomanEncoding: notequal 173, infinity 176, lessequal 178, greaterequal 179, partialdiff 182, summation 183,
#     product 184, pi 185, integral 186, Omega 189, radical 195, approxequal 197, Delta 198, lozenge 215, apple 240;
#   * 219 is `currency` (U+00A4) in MacRomanEncoding; Mac OS Roman replaced it by the Euro sign;
#   * 202: footnote 5, the glyph is `space` => U+0020 (mac_roman has U+00A0).
MAC_NOT_IN_PDF = (173, 176, 178, 179, 182, 183, 184, 185, 186, 189, 195, 197, 198, 215, 240)
MAC_OVERRIDE = {219: "\xa4", 202: " "}

UNASSERTED = "<unasserted>"  # marker in base tables: cell whose content ISO leaves open


def _codec_table(codec, skip, override, unasserted=()):
    t = {}
    for c in range(32, 256):
        if c == 127 or c in skip:
            continue
        try:
            t[c] = bytes([c]).decode(codec)
        except UnicodeDecodeError:
            continue
    t.update(override)
    for c in unasserted:
        t[c] = UNASSERTED
    return t


_BASE_CACHE = {}


def base_tables():
    """{encoding name: {code: Unicode string | UNASSERTED}}; codes without an entry have no glyph."""
    if _BASE_CACHE:
        return _BASE_CACHE
    std = {c: chr(c) for c in range(32, 127)}
    std[39] = "\u2019"
    std[96] = "\u2018"
    for c, _, u in _STD_HIGH:
        std[c] = chr(u)
    pdf = {c: chr(c) for c in range(32, 127)}
    for c in range(0xA1, 0x100):
        if c != 0xAD:
            pdf[c] = chr(c)
    for c, _, u in _PDFDOC_SPECIAL:
        pdf[c] = chr(u)
    win = _codec_table("cp1252", (), WIN_SPACE_HYPHEN)
    for c in WIN_UNUSED:
        assert c not in win or c == 0x7F
        win[c] = UNASSERTED
    mac = _codec_table("mac_roman", MAC_NOT_IN_PDF, MAC_OVERRIDE)
    _BASE_CACHE.update({"StandardEncoding": std, "MacRomanEncoding": mac, "WinAnsiEncoding": win,
                        "PDFDocEncoding": pdf})
    return _BASE_CACHE


def latin_names():
    """Glyph names of the standard Latin character set (names only; DATA from pdfminer.latin_enc, used by
    generators to pick realistic /Differences names)."""
    from pdfminer.latin_enc import ENCODING

    return sorted({row[0] for row in ENCODING})


# =====================================================================================================
# Standard-14 metrics (DATA from pdfminer.fontmetrics; spot-checked in selfcheck)
# =====================================================================================================
STD14_LATIN = ["Courier", "Courier-Bold", "Courier-Oblique", "Courier-BoldOblique",
               "Helvetica", "Helvetica-Bold", "Helvetica-Oblique", "Helvetica-BoldOblique",
               "Times-Roman", "Times-Bold", "Times-Italic", "Times-BoldItalic"]
STD14_ALL = STD14_LATIN + ["Symbol", "ZapfDingbats"]


def afm_widths(basefont):
    """{character: width} of a standard-14 font."""
    from pdfminer.fontmetrics import FONT_METRICS

    return FONT_METRICS[basefont][1]


def is_metrics_name(basefont):
    """True if pdfminer has built-in metrics under this BaseFont (the standard 14 and some aliases)."""
    from pdfminer.fontmetrics import FONT_METRICS

    return basefont in FONT_METRICS


# =====================================================================================================
# ToUnicode CMap emitter
# =====================================================================================================
def utf16be_hex(s, upper=True):
    h = s.encode("utf-16-be").hex()
    return h.upper() if upper else h


def _hx(rnd, b):
    h = b.hex()
    if rnd is not None and rnd.random() < 0.5:
        h = h.upper()
    return "<" + h + ">"


def plan_tounicode(mapping, rnd=None, codelen=1, allow_ranges=True):
    """Group {code: target string} into CMap entries.
    Returns a list of ("char", code, s) | ("range", lo, hi, s_lo) | ("array", lo, [s...]).
    A ("range") entry is only formed when the targets of lo..hi are s_lo with its LAST UTF-16 code unit incremented
    by 0..hi-lo and the low byte of that unit does not overflow (ISO 32000-1 9.10.3), and when all codes share
    their high-order bytes."""
    codes = sorted(mapping)
    out = []
    i = 0
    if (codelen == 1 and allow_ranges and codes == list(range(256)) and len(mapping[0]) == 1 and ord(mapping[0]) % 256 == 0
            and all(mapping[c] == chr(ord(mapping[0]) + c) for c in codes) and (rnd is None or rnd.random() < 0.7)):
        # the whole one-byte code space as one range: <00> <FF> <xx00>
        return [("range", 0, 255, mapping[0])]
    while i < len(codes):
        c = codes[i]
        j = i
        # maximal run of consecutive codes with a common prefix (all but the last byte)
        while j + 1 < len(codes) and codes[j + 1] == codes[j] + 1 and (codes[j + 1] >> 8) == (c >> 8):
            j += 1
        runlen = j - i + 1
        if not allow_ranges or runlen == 1 or (rnd is not None and rnd.random() < 0.3):
            out.append(("char", c, mapping[c]))
            i += 1
            continue
        k = runlen if rnd is None else rnd.randint(2, runlen)
        # try the incremental form on the first k codes
        s0 = mapping[c]
        u0 = s0.encode("utf-16-be")
        inc = 1
        if len(u0) >= 2:
            while inc < k:
                last = int.from_bytes(u0[-2:], "big") + inc
                if (u0[-1] + inc) > 255:
                    break
                try:
                    want = (u0[:-2] + last.to_bytes(2, "big")).decode("utf-16-be")
                except UnicodeDecodeError:
                    break
                if mapping[c + inc] != want:
                    break
                inc += 1
        if inc >= 2 and (rnd is None or rnd.random() < 0.8):
            out.append(("range", c, c + inc - 1, s0))
            i += inc
        else:
            out.append(("array", c, [mapping[c + t] for t in range(k)]))
            i += k
    return out


def tounicode_cmap(mapping, rnd=None, codelen=1, allow_ranges=True, boilerplate=True, eol=b"\n"):
    """ToUnicode CMap program for {code: target string}.  Sections hold at most 100 entries (CMap spec)."""
    def code(c):
        return _hx(rnd, c.to_bytes(codelen, "big"))

    def tgt(s):
        return _hx(rnd, s.encode("utf-16-be"))

    entries = plan_tounicode(mapping, rnd, codelen, allow_ranges)
    chars = [e for e in entries if e[0] == "char"]
    ranges = [e for e in entries if e[0] != "char"]
    lines = []
    if boilerplate:
        lines += [b"/CIDInit /ProcSet findresource begin", b"12 dict begin", b"begincmap",
                  b"/CIDSystemInfo << /Registry (Adobe) /Ordering (UCS) /Supplement 0 >> def",
                  b"/CMapName /Adobe-Identity-UCS def", b"/CMapType 2 def"]
    lines += [b"1 begincodespacerange", (code(0) + " " + code(256 ** codelen - 1)).encode(), b"endcodespacerange"]
    sections = []
    for k in range(0, len(chars), 100):
        sections.append(("bfchar", chars[k:k + 100]))
    for k in range(0, len(ranges), 100):
        sections.append(("bfrange", ranges[k:k + 100]))
    if rnd is not None:
        rnd.shuffle(sections)
    for kind, es in sections:
        lines.append(b"%d begin%s" % (len(es), kind.encode()))
        for e in es:
            if e[0] == "char":
                lines.append(("%s %s" % (code(e[1]), tgt(e[2]))).encode())
            elif e[0] == "range":
                lines.append(("%s %s %s" % (code(e[1]), code(e[2]), tgt(e[3]))).encode())
            else:
                lines.append(("%s %s [%s]" % (code(e[1]), code(e[1] + len(e[2]) - 1),
                                              " ".join(tgt(s) for s in e[2]))).encode())
        lines.append(b"end" + kind.encode())
    if boilerplate:
        lines += [b"endcmap", b"CMapName currentdict /CMap defineresource pop", b"end", b"end"]
    return eol.join(lines) + eol, entries


def read_tounicode_reference(data):
    """Tiny independent reader of the CMap subset emitted above (used by selfcheck only): {code: string}."""
    import re

    out = {}
    toks = re.findall(rb"<[0-9A-Fa-f]*>|\[|\]|[A-Za-z]+|\d+", data)
    i = 0
    mode = None
    while i < len(toks):
        t = toks[i]
        if t in (b"beginbfchar", b"beginbfrange"):
            mode = t
        elif t in (b"endbfchar", b"endbfrange", b"begincodespacerange"):
            mode = None if t != b"begincodespacerange" else b"skip"
        elif t == b"endcodespacerange":
            mode = None
        elif mode == b"beginbfchar" and t.startswith(b"<"):
            c = int(t[1:-1], 16)
            out[c] = bytes.fromhex(toks[i + 1][1:-1].decode()).decode("utf-16-be")
            i += 1
        elif mode == b"beginbfrange" and t.startswith(b"<"):
            lo, hi = int(t[1:-1], 16), int(toks[i + 1][1:-1], 16)
            if toks[i + 2] == b"[":
                k = i + 3
                c = lo
                while toks[k] != b"]":
                    out[c] = bytes.fromhex(toks[k][1:-1].decode()).decode("utf-16-be")
                    c += 1
                    k += 1
                assert c == hi + 1
                i = k
            else:
                u = bytes.fromhex(toks[i + 2][1:-1].decode())
                for d in range(hi - lo + 1):
                    last = int.from_bytes(u[-2:], "big") + d
                    assert u[-1] + d <= 255
                    out[lo + d] = (u[:-2] + last.to_bytes(2, "big")).decode("utf-16-be")
                i += 2
        i += 1
    return out


# =====================================================================================================
# Embedded Type 1 font program with a built-in encoding
# =====================================================================================================
def type1_program(pairs, fontname="VerifFont", rnd=None, tail_pairs=(), binary_tail=None):
    """Returns (data, length1).  data[:length1] is the clear-text portion:
        /Encoding 256 array 0 1 255 {1 index exch /.notdef put} for   dup <code> /<name> put ...  readonly def
    so the built-in encoding assigns exactly `pairs` (a list of (code, glyph name)); every other code is .notdef.
    data[length1:] is the (opaque) encrypted portion; `tail_pairs` are written THERE in clear text as a decoy that a
    reader honouring /Length1 never sees."""
    nl = "\n" if rnd is None else rnd.choice(["\n", "\r", "\r\n", "\n"])
    sp = (lambda: " ") if rnd is None else (lambda: rnd.choice([" ", " ", "  ", "\t"]))
    L = ["%!PS-AdobeFont-1.0: " + fontname + " 001.001", "%%CreationDate: Thu Jan 1 00:00:00 1998",
         "%%VMusage: 1024 2048", "% dup 66 /comment put", "11 dict begin",
         "/FontInfo 9 dict dup begin", "/version (001.001) readonly def", "/Notice (no (c) put here) readonly def",
         "/FullName (" + fontname + ") readonly def", "/FamilyName (" + fontname + ") readonly def",
         "/Weight (Medium) readonly def", "/ItalicAngle 0 def", "/isFixedPitch false def",
         "/UnderlinePosition -100 def", "/UnderlineThickness 50 def", "end readonly def",
         "/FontName /" + fontname + " def", "/PaintType 0 def", "/FontType 1 def",
         "/FontMatrix [0.001 0 0 0.001 0 0] readonly def", "/Encoding 256 array",
         "0 1 255 {1 index exch /.notdef put} for"]
    for code, name in pairs:
        L.append("dup%s%d%s/%s%sput" % (sp(), code, sp(), name, sp()))
    L += ["readonly def", "/FontBBox {-50 -250 1000 900} readonly def", "/UniqueID 4000001 def", "currentdict end",
          "currentfile eexec"]
    clear = (nl.join(L) + nl).encode("latin-1")
    if binary_tail is None:
        binary_tail = bytes((37 * i + 11) & 255 for i in range(64)) if rnd is None else bytes(
            rnd.randrange(256) for _ in range(rnd.randint(8, 96)))
    decoy = "".join("\ndup %d /%s put" % (c, n) for c, n in tail_pairs).encode("latin-1")
    trailer = b"\n" + (b"0" * 64 + b"\n") * 8 + b"cleartomark\n"
    return clear + binary_tail + decoy + trailer, len(clear)


def type1_fontfile(pairs, rnd=None, tail_pairs=(), fontname="VerifFont"):
    """(Stream value for /FontFile, info dict)"""
    data, l1 = type1_program(pairs, fontname, rnd, tail_pairs)
    l3 = 8 * 65 + len(b"cleartomark\n") + 1
    d = D(Length1=l1, Length2=len(data) - l1 - l3, Length3=l3)
    return Stream(d, data), {"length1": l1, "size": len(data)}


# =====================================================================================================
# Font dictionary builders
# =====================================================================================================
def differences_array(runs):
    """runs: list of (first code, [glyph names]) -> /Differences value."""
    out = []
    for first, names in runs:
        out.append(first)
        out.extend(N(n) for n in names)
    return out


def encoding_value(base=None, runs=None, with_type=False):
    """None -> no /Encoding; base only -> name; runs given -> dictionary (optional /BaseEncoding)."""
    if runs is None:
        return None if base is None else N(base)
    d = {}
    if with_type:
        d[b"Type"] = N("Encoding")
    if base is not None:
        d[b"BaseEncoding"] = N(base)
    d[b"Differences"] = differences_array(runs)
    return d


def font_descriptor(fontname, missing_width=None, flags=32, fontfile=None, bbox=(-50, -250, 1000, 900), extra=None):
    d = D(Type=N("FontDescriptor"), FontName=N(fontname), Flags=flags, FontBBox=list(bbox), ItalicAngle=0,
          Ascent=800, Descent=-200, CapHeight=700, StemV=80)
    if missing_width is not None:
        d[b"MissingWidth"] = missing_width
    if fontfile is not None:
        d[b"FontFile"] = fontfile
    if extra:
        d.update(extra)
    return d


def simple_font_dict(subtype="Type1", basefont="VerifFont", encoding=None, first=None, widths=None, descriptor=None,
                     tounicode=None, with_lastchar=True, nwidths=None):
    """Type1 / MMType1 / TrueType font dictionary.  encoding / descriptor / tounicode are pdfwrite values
    (typically references); `widths` may be a list or a reference to one (then pass nwidths)."""
    d = D(Type=N("Font"), Subtype=N(subtype), BaseFont=N(basefont))
    if widths is not None:
        d[b"FirstChar"] = first
        if with_lastchar:
            d[b"LastChar"] = first + (len(widths) if nwidths is None else nwidths) - 1
        d[b"Widths"] = widths  # list or reference
    if descriptor is not None:
        d[b"FontDescriptor"] = descriptor
    if encoding is not None:
        d[b"Encoding"] = encoding
    if tounicode is not None:
        d[b"ToUnicode"] = tounicode
    return d


def type3_font_dict(encoding, charprocs, fontmatrix, first, widths, bbox=(0, 0, 1000, 1000), descriptor=None,
                    tounicode=None, resources=True, nwidths=None):
    """`widths` may be a list or a reference to one (then pass nwidths)."""
    d = D(Type=N("Font"), Subtype=N("Type3"), FontBBox=list(bbox), FontMatrix=list(fontmatrix),
          CharProcs=charprocs, Encoding=encoding, FirstChar=first,
          LastChar=first + (len(widths) if nwidths is None else nwidths) - 1,
          Widths=widths)
    if resources:
        d[b"Resources"] = D(ProcSet=[N("PDF")])
    if descriptor is not None:
        d[b"FontDescriptor"] = descriptor
    if tounicode is not None:
        d[b"ToUnicode"] = tounicode
    return d


def show_all_codes(resname="F1", size=10, per_line=16, codes=None, rnd=None):
    """Content stream that shows every code of `codes` (default 0..255) once, in order, with font `resname`."""
    codes = list(range(256)) if codes is None else list(codes)
    out = [b"BT", b"/%s %d Tf" % (resname.encode(), size), b"14 TL", b"20 760 Td"]
    i = 0
    while i < len(codes):
        k = per_line if rnd is None else rnd.randint(1, per_line)
        chunk = bytes(codes[i:i + k])
        style = 0 if rnd is None else rnd.randrange(3)
        if style == 0:
            out.append(b"<" + chunk.hex().encode() + b"> Tj")
        elif style == 1:
            out.append(b"[" + b" ".join(b"<%02X>" % c for c in chunk) + b"] TJ")
        else:
            out.append(b" ".join(b"<%02x> Tj" % c for c in chunk))
        if rnd is None or rnd.random() < 0.5:
            out.append(b"T*")
        i += k
    out.append(b"ET")
    return b"\n".join(out) + b"\n"


# =====================================================================================================
def selfcheck():
    gl = glyphlist()
    # -- glyph list data: shape, and entries whose own name states their value
    assert len(gl) > 4000
    for name, val in gl.items():
        assert isinstance(name, str) and isinstance(val, str) and 1 <= len(val) <= 8, (name, val)
        assert all(_scalar_ok(ord(ch)) for ch in val), name
        if len(name) == 7 and name.startswith("uni") and all(c in HEXU for c in name[3:]):
            assert val == chr(int(name[3:], 16)), (name, val)
        if len(name) == 1:
            assert val == name
    for name, cp in [("space", 0x20), ("A", 0x41), ("fi", 0xFB01), ("Euro", 0x20AC), ("Lcommaaccent", 0x13B),
                     ("hyphen", 0x2D), ("bullet", 0x2022), ("nbspace", 0xA0), ("alpha", 0x3B1),
                     ("afii10017", 0x410), ("Ogoneksmall", 0xF6FB)]:
        assert gl[name] == chr(cp), name
    assert gl["dalethatafpatah"] == "\u05d3\u05b2"
    # -- transcribed tables against the glyph list (cross-validates both)
    for c, name, u in _STD_HIGH + _PDFDOC_SPECIAL:
        assert gl[name] == chr(u), (c, name)
    bt = base_tables()
    assert len(bt["StandardEncoding"]) == 149
    assert len(bt["PDFDocEncoding"]) == 95 + 8 + 31 + 1 + 94
    assert len([v for v in bt["WinAnsiEncoding"].values() if v != UNASSERTED]) == 224 - 5 - 1
    assert len(bt["MacRomanEncoding"]) == 223 - 15
    # PDFDocEncoding 0xA1..0xFF and WinAnsi 0xA1..0xFF are Latin-1 except the soft-hyphen cell
    for c in range(0xA1, 0x100):
        if c != 0xAD:
            assert bt["PDFDocEncoding"][c] == bt["WinAnsiEncoding"][c] == bytes([c]).decode("latin-1")
    # all four agree on ASCII except the quote cells
    for c in range(32, 127):
        vals = {bt[e][c] for e in ENCODING_NAMES}
        assert vals == {chr(c)} or c in (39, 96), c
    # every character of the Latin character set that has a name in the glyph list: the same character has the
    # same name in all encodings (consistency of code->char tables through the *names* of latin_enc)
    from pdfminer.latin_enc import ENCODING

    for row in ENCODING:
        assert row[0] in gl, row
    # -- AGL reference algorithm on the examples of the specification
    assert agl_text("Lcommaaccent", gl) == "\u013b" == agl_text("uni013B", gl) == agl_text("u013B", gl)
    assert agl_text("uni20AC0308", gl) == "\u20ac\u0308"
    assert agl_text("u1040C", gl) == "\U0001040c"
    assert agl_text("uniD801DC0C", gl) == ""
    assert agl_text("uni20ac", gl) == ""
    assert agl_text("Lcommaaccent_uni20AC0308_u1040C.alternate", gl) == "\u013b\u20ac\u0308\U0001040c"
    assert agl_text("uni013B.alt_x", gl) == "\u013b"
    assert agl_text("foo", gl) == "" and agl_text(".notdef", gl) == "" and agl_text("", gl) == ""
    assert agl_strict("A_foo", gl) is None and agl_text("A_foo", gl) == "A" and agl_kind("A_foo", gl) == "mixed"
    for bad in ["uni0041zzzz", "u0041zz", "u110000", "uD800", "uDFFF", "uniD800", "uni004", "uni00410", "u041",
                "u0000041", "uniuni0041", "uu0041", "uni0041u", "u0041u", "Auni0041", "uni", "uni 0041"]:
        assert agl_strict(bad, gl) is None, bad
    for good, s in [("uD7FF", "\ud7ff"), ("uE000", "\ue000"), ("u10FFFF", "\U0010ffff"), ("u000041", "A"),
                    ("uniFFFF", "\uffff"), ("uni0000", "\x00"), ("f_f_i", "ffi"), ("A.sc", "A"),
                    ("union", "\u222a"), ("uni004100420043", "ABC")]:
        assert agl_strict(good, gl) == s, good
    # -- AFM data: spot checks against values of the Adobe Core-14 AFM files known by heart
    for fn in STD14_LATIN[:4]:
        assert set(afm_widths(fn).values()) == {600}, fn
    for fn, ch, w in [("Helvetica", " ", 278), ("Helvetica", "A", 667), ("Helvetica", "a", 556),
                      ("Helvetica", "W", 944), ("Helvetica-Bold", "A", 722), ("Times-Roman", " ", 250),
                      ("Times-Roman", "A", 722), ("Times-Roman", "a", 444), ("Times-Roman", "M", 889),
                      ("Times-Bold", "a", 500), ("Times-Italic", "A", 611), ("Helvetica", "\ufb01", 500),
                      ("Times-Roman", "\u2014", 1000)]:
        assert afm_widths(fn)[ch] == w, (fn, ch)
    # -- ToUnicode emitter against the independent mini reader
    import random

    for seed in range(40):
        rnd = random.Random(seed)
        m = {}
        for _ in range(rnd.randint(0, 12)):
            lo = rnd.randrange(256)
            n = rnd.randint(1, 20)
            t = rnd.choice([0x41, 0xF0, 0x1F0, 0xFFF0, 0x20AC])
            for k in range(n):
                if lo + k < 256:
                    m[lo + k] = rnd.choice(["", "x"]) + chr(t + k) if t + k < 0xFFFF else "\U0001F600"
        for _ in range(rnd.randint(0, 20)):
            m[rnd.randrange(256)] = rnd.choice(["ffi", "\U0001D11E", "a", "\xe9\u0301", "\x00", "\ufffd"])
        data, entries = tounicode_cmap(m, rnd)
        assert read_tounicode_reference(data) == m, seed
        data, entries = tounicode_cmap(m, None)
        assert read_tounicode_reference(data) == m, seed
    # -- Type 1 program: the clear text ends where Length1 says, decoys are beyond it
    data, l1 = type1_program([(65, "A"), (66, "uni0042")], tail_pairs=[(67, "C")])
    assert data[:l1].endswith(b"currentfile eexec\n") and b"/C put" in data[l1:] and b"/C put" not in data[:l1]
    assert data[:l1].count(b" put") == 2 + 3  # two entries, the .notdef loop, the comment and the Notice string
