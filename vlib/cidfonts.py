"""Composite (Type0 / CID-keyed) font builders for C07.

Everything here is harness-side and independent of pdfminer:
  * Type0 font, descendant CIDFont, FontDescriptor, embedded encoding-CMap stream dictionaries
    (values of vlib.pdfwrite),
  * a ToUnicode CMap *emitter* working from an abstract entry list, and the *model* of what those
    entries mean (ISO 32000-1 9.10.3; ranges = integer increment of the last <= 4 bytes of the target),
  * /W and /W2 emitters (both syntaxes, interleaved) from abstract width models,
  * a synthetic TrueType font file with a `cmap` table (formats 0 and 4) plus an independent,
    specification-following reader used only to validate the builder (selfcheck).

Free encoder choices come from a `random.Random` passed in by the caller (seeded from a Hypothesis draw).
"""
from __future__ import annotations

import struct

from vlib.pdfwrite import D, N, R, Real, Stream

# --------------------------------------------------------------------------
# dictionaries
# --------------------------------------------------------------------------
COLLECTIONS = {
    "Adobe-Identity": (b"Adobe", b"Identity", 0),
    "Adobe-UCS": (b"Adobe", b"UCS", 0),
    "Adobe-Japan1": (b"Adobe", b"Japan1", 6),
    "Adobe-GB1": (b"Adobe", b"GB1", 5),
    "Adobe-CNS1": (b"Adobe", b"CNS1", 6),
    "Adobe-Korea1": (b"Adobe", b"Korea1", 2),
}


def cid_system_info(collection):
    reg, order, sup = COLLECTIONS[collection]
    return D(Registry=reg, Ordering=order, Supplement=sup)


def font_descriptor(fontname="CIDFoo", fontfile2=None, bbox=(0, -200, 1000, 900), missing_width=None):
    d = D(Type=N("FontDescriptor"), FontName=N(fontname), Flags=4, FontBBox=list(bbox), ItalicAngle=0,
          Ascent=880, Descent=-120, CapHeight=700, StemV=80)
    if fontfile2 is not None:
        d[b"FontFile2"] = fontfile2
    if missing_width is not None:
        # /MissingWidth is for the simple fonts; the default advance of a CIDFont is /DW (ISO 32000-1 9.7.4.3)
        d[b"MissingWidth"] = missing_width
    return d


def descendant(subtype, collection, descriptor_ref, basefont="CIDFoo", W=None, DW=None, W2=None, DW2=None,
               cidtogid=None):
    d = D(Type=N("Font"), Subtype=N(subtype), BaseFont=N(basefont), CIDSystemInfo=cid_system_info(collection),
          FontDescriptor=descriptor_ref)
    if DW is not None:
        d[b"DW"] = DW
    if W is not None:
        d[b"W"] = W
    if DW2 is not None:
        d[b"DW2"] = DW2
    if W2 is not None:
        d[b"W2"] = W2
    if cidtogid is not None:
        d[b"CIDToGIDMap"] = cidtogid
    return d


def type0(encoding, descendant_ref, tounicode_ref=None, basefont="CIDFoo"):
    """encoding: N("Identity-H") or R(n) of an encoding-CMap stream."""
    d = D(Type=N("Font"), Subtype=N("Type0"), BaseFont=N(basefont), Encoding=encoding,
          DescendantFonts=[descendant_ref])
    if tounicode_ref is not None:
        d[b"ToUnicode"] = tounicode_ref
    return d


def _hex(n, nbytes, rnd=None):
    s = "%0*x" % (2 * nbytes, n)
    if rnd is not None and rnd.random() < 0.5:
        s = s.upper()
    return ("<" + s + ">").encode()


def encoding_cmap_stream(name, collection, wmode, nbytes, body=True):
    """An embedded CMap stream whose /CMapName is `name`.  The program is a conforming identity CMap
    (n-byte codes -> CID = code) when body is true (used for the identity names), else only the header
    (used when `name` is a predefined CMap that a reader takes from its own resources)."""
    reg, order, sup = COLLECTIONS[collection]
    prog = bytearray()
    prog += b"%!PS-Adobe-3.0 Resource-CMap\n/CIDInit /ProcSet findresource begin\n12 dict begin\nbegincmap\n"
    prog += b"/CIDSystemInfo 3 dict dup begin\n /Registry (%s) def\n /Ordering (%s) def\n /Supplement %d def\nend def\n" % (
        reg, order, sup)
    prog += b"/CMapName /%s def\n/CMapVersion 1.0 def\n/CMapType 1 def\n/WMode %d def\n" % (name.encode(), wmode)
    if body:
        lo, hi = _hex(0, nbytes), _hex(256 ** nbytes - 1, nbytes)
        prog += b"1 begincodespacerange\n %s %s\nendcodespacerange\n" % (lo, hi)
        if nbytes == 1:
            prog += b"1 begincidrange\n<00> <ff> 0\nendcidrange\n"
        else:
            prog += b"1 begincidrange\n<0000> <ffff> 0\nendcidrange\n"
    prog += b"endcmap\nCMapName currentdict /CMap defineresource pop\nend\nend\n"
    d = D(Type=N("CMap"), CMapName=N(name), CIDSystemInfo=cid_system_info(collection))
    if wmode:
        d[b"WMode"] = 1
    return Stream(d, bytes(prog))


# --------------------------------------------------------------------------
# ToUnicode: abstract entries, model, emitter
# --------------------------------------------------------------------------
# entry forms (JSON-able):
#   ["char", src, text]
#   ["range", lo, hi, text]            increment form: lo -> text, lo+i -> text with its last <=4 bytes (UTF-16BE) + i
#   ["array", lo, hi, [text, ...]]     one target per code
def u16(s):
    return s.encode("utf-16-be")


def increment_target(text, i):
    """Target of the i-th code of an increment-form bfrange whose first target is `text`."""
    b = u16(text)
    var = b[-4:]
    v = int.from_bytes(var, "big") + i
    if v >= 256 ** len(var):
        raise ValueError("bfrange increment overflows the target")
    out = b[:-4] + v.to_bytes(len(var), "big")
    return out.decode("utf-16-be")  # strict: the generator must only build well-formed targets


def tounicode_model(entries):
    """code -> text.  Source ranges of distinct entries must be disjoint (asserted)."""
    m = {}

    def put(c, t):
        if c in m:
            raise ValueError("overlapping ToUnicode entries at code %#x" % c)
        m[c] = t

    for e in entries:
        if e[0] == "char":
            put(e[1], e[2])
        elif e[0] == "range":
            for i in range(e[2] - e[1] + 1):
                try:
                    put(e[1] + i, increment_target(e[3], i))
                except UnicodeDecodeError:
                    if e[2] - e[1] < 0x1000:
                        raise
                    # the identity range over the whole two-byte space passes through the surrogates: no text is
                    # defined for those codes, and the generator never shows them
        elif e[0] == "array":
            if len(e[3]) != e[2] - e[1] + 1:
                raise ValueError("array length")
            for i, t in enumerate(e[3]):
                put(e[1] + i, t)
        else:
            raise ValueError(e[0])
    return m


def emit_tounicode(entries, nbytes, rnd, codespaces=None, header=True):
    """Serialise entries as a ToUnicode CMap program.  Consecutive entries of the same section kind are
    grouped (<= 100 per section, as the CMap spec requires); order of entries is preserved.
    `codespaces`: list of (lo, hi, nbytes) or None = the full n-byte space."""
    ws = lambda: rnd.choice([b" ", b" ", b"\n", b"  ", b"\t"])  # noqa: E731
    nl = lambda: rnd.choice([b"\n", b"\n", b"\r\n", b" \n"])  # noqa: E731
    out = bytearray()
    if header:
        out += b"/CIDInit /ProcSet findresource begin" + nl() + b"12 dict begin" + nl() + b"begincmap" + nl()
        out += b"/CIDSystemInfo << /Registry (Adobe) /Ordering (UCS) /Supplement 0 >> def" + nl()
        out += b"/CMapName /Adobe-Identity-UCS def" + nl() + b"/CMapType 2 def" + nl()
    cs = codespaces or [(0, 256 ** nbytes - 1, nbytes)]
    out += b"%d begincodespacerange" % len(cs) + nl()
    for lo, hi, nb in cs:
        out += _hex(lo, nb, rnd) + ws() + _hex(hi, nb, rnd) + nl()
    out += b"endcodespacerange" + nl()
    i = 0
    n = len(entries)
    while i < n:
        kind = "bfchar" if entries[i][0] == "char" else "bfrange"
        j = i
        limit = rnd.choice([100, 100, 1, 2, 5])
        while j < n and j - i < limit and (("bfchar" if entries[j][0] == "char" else "bfrange") == kind):
            j += 1
        out += b"%d begin%s" % (j - i, kind.encode()) + nl()
        for e in entries[i:j]:
            if e[0] == "char":
                out += _hex(e[1], nbytes, rnd) + ws() + _hexstr(u16(e[2]), rnd) + nl()
            elif e[0] == "range":
                out += _hex(e[1], nbytes, rnd) + ws() + _hex(e[2], nbytes, rnd) + ws() + _hexstr(u16(e[3]), rnd) + nl()
            else:
                out += _hex(e[1], nbytes, rnd) + ws() + _hex(e[2], nbytes, rnd) + ws() + b"["
                out += ws().join(_hexstr(u16(t), rnd) for t in e[3]) + b"]" + nl()
        out += b"end%s" % kind.encode() + nl()
        i = j
    if header:
        out += b"endcmap" + nl() + b"CMapName currentdict /CMap defineresource pop" + nl() + b"end" + nl() + b"end" + nl()
    return bytes(out)


def _hexstr(b, rnd):
    s = b.hex()
    if rnd.random() < 0.5:
        s = s.upper()
    return ("<" + s + ">").encode()


# well-formed target alphabets
def _rand_bmp(rnd):
    k = rnd.random()
    if k < 0.35:
        return rnd.randrange(0x20, 0x7F)
    if k < 0.55:
        return rnd.randrange(0xA0, 0x800)
    if k < 0.75:
        return rnd.randrange(0x3000, 0xA000)
    c = rnd.randrange(0x20, 0xFFFE)
    if 0xD800 <= c <= 0xDFFF:
        c = 0xE000 + (c - 0xD800)
    return c


def _rand_text(rnd, allow_astral=True):
    k = rnd.random()
    if allow_astral and k < 0.15:
        return chr(rnd.randrange(0x10000, 0x110000))
    if k < 0.35:
        n = rnd.choice([2, 2, 3, 4])
        s = "".join(chr(_rand_bmp(rnd)) for _ in range(n))
        if allow_astral and rnd.random() < 0.2:
            s += chr(rnd.randrange(0x10000, 0x30000))
        return s
    return chr(_rand_bmp(rnd))


def _range_start_text(rnd, count, want_carry):
    """First target of an increment-form range of `count` codes such that every incremented target is
    well-formed UTF-16 (no lone or overflowing surrogates).  Returns (text, kind)."""
    for _ in range(200):
        k = rnd.random()
        if k < 0.2:
            # surrogate pair target: low surrogate is incremented; must stay <= DFFF
            hi = rnd.randrange(0xD800, 0xDC00)
            lo_max = 0xDFFF - (count - 1)
            if lo_max < 0xDC00:
                continue
            lo = rnd.randrange(0xDC00, lo_max + 1)
            if want_carry and count > 1:
                # low byte of the low surrogate carries: choose lo so that (lo & 0xFF) + count - 1 > 0xFF
                base = rnd.randrange(0xDC, 0xDF) << 8
                lo = base + max(0, 0x100 - rnd.randrange(1, count))
                if lo + count - 1 > 0xDFFF:
                    continue
            return (struct.pack(">HH", hi, lo).decode("utf-16-be"), "surrogate")
        prefix = ""
        kind = "bmp"
        if k < 0.4:
            prefix = "".join(chr(_rand_bmp(rnd)) for _ in range(rnd.choice([1, 1, 2])))
            kind = "multi"
        if want_carry and count > 1:
            hb = rnd.randrange(0x00, 0xFF)
            c = (hb << 8) + 0x100 - rnd.randrange(1, count)
        else:
            c = _rand_bmp(rnd)
        last = c + count - 1
        if last > 0xFFFD or c < 0x20:
            continue
        if not (last < 0xD800 or c > 0xDFFF):
            continue
        return (prefix + chr(c), kind)
    return ("A", "bmp")


def random_tounicode(rnd, nbytes, shown_codes, max_entries=12, p_cover=0.8):
    """Draw a disjoint entry list that covers most of `shown_codes` (so that the interesting entries are
    actually exercised) plus unrelated codes.  Returns (entries, feature set)."""
    top = 256 ** nbytes
    feats = set()
    used = set()
    entries = []
    if nbytes == 2 and rnd.random() < 0.1 and not any(0xD800 <= c <= 0xDFFF for c in shown_codes):
        # what many producers write: one range over the whole code space, code -> the same UTF-16 code unit (65536
        # members, the last one being <FFFF>)
        return [["range", 0, 0xFFFF, "\x00"]], {"bfrange-incr", "bfrange-whole-space"}
    anchors = [c for c in dict.fromkeys(shown_codes) if rnd.random() < p_cover]
    rnd.shuffle(anchors)
    anchors = anchors[:max_entries]
    extra = rnd.randrange(0, 4)
    anchors += [rnd.randrange(top) for _ in range(extra)]
    for a in anchors:
        if a in used:
            continue
        kind = rnd.choice(["char", "range", "range", "array"])
        if kind == "char":
            t = _rand_text(rnd)
            entries.append(["char", a, t])
            used.add(a)
            feats.add("bfchar")
            if len(t) > 1:
                feats.add("bfchar-multi")
            elif ord(t) > 0xFFFF:
                feats.add("bfchar-astral")
            continue
        # a range containing a; ISO: same high byte(s) for lo and hi
        blk = a & ~0xFF
        span = rnd.choice([1, 2, 3, 5, 8, 17, 40, 120, 256])
        lo = max(blk, a - rnd.randrange(0, span))
        hi = min(blk + 0xFF, lo + span - 1)
        if hi < a:
            hi = a
        # shrink to avoid overlap with used codes
        while lo < a and any(c in used for c in range(lo, a)):
            lo += 1
        while hi > a and any(c in used for c in range(a + 1, hi + 1)):
            hi -= 1
        count = hi - lo + 1
        if kind == "range":
            want_carry = rnd.random() < 0.6
            t, k2 = _range_start_text(rnd, count, want_carry)
            entries.append(["range", lo, hi, t])
            feats.add("bfrange-incr")
            feats.add("incr-" + k2)
            b = u16(t)
            if (b[-1] + count - 1) > 0xFF:
                feats.add("incr-carry")
                if (b[-1] + (a - lo)) > 0xFF:
                    feats.add("incr-carry-shown")
        else:
            if count > 24:
                hi = min(hi, a + 12)
                lo = max(lo, a - 11)
                count = hi - lo + 1
            ts = [_rand_text(rnd) for _ in range(count)]
            entries.append(["array", lo, hi, ts])
            feats.add("bfrange-array")
            if any(len(u16(t)) > 2 for t in ts):
                feats.add("array-multi")
        used.update(range(lo, hi + 1))
    if rnd.random() < 0.5:
        rnd.shuffle(entries)
    return entries, feats


# --------------------------------------------------------------------------
# /W and /W2
# --------------------------------------------------------------------------
def _num(x):
    """x: int or str (decimal text) -> PDF value"""
    return Real(x) if isinstance(x, str) else x


def numval(x):
    return float(x) if isinstance(x, str) else x


def random_width(rnd, lo=0, hi=2000):
    k = rnd.random()
    if k < 0.75:
        return rnd.randrange(lo, hi + 1)
    if k < 0.9:
        return rnd.choice([0, 250, 500, 1000])
    return "%d.%s" % (rnd.randrange(max(lo, 0), hi), rnd.choice(["5", "25", "125", "0"]))


def random_w_runs(rnd, cids_hint, maxcid=65535, max_runs=8, p_cover=0.7, gen=random_width):
    """Disjoint runs [(start, [values...]), ...] covering some of cids_hint."""
    used = set()
    runs = []
    anchors = [c for c in dict.fromkeys(cids_hint) if rnd.random() < p_cover]
    rnd.shuffle(anchors)
    anchors = anchors[:max_runs] + [rnd.randrange(maxcid + 1) for _ in range(rnd.randrange(0, 3))]
    for a in anchors:
        if a in used:
            continue
        span = rnd.choice([1, 1, 2, 3, 4, 7, 20])
        lo = max(0, a - rnd.randrange(0, span))
        hi = min(maxcid, lo + span - 1)
        hi = max(hi, a)
        while lo < a and any(c in used for c in range(lo, a)):
            lo += 1
        while hi > a and any(c in used for c in range(a + 1, hi + 1)):
            hi -= 1
        if rnd.random() < 0.45:
            v = gen(rnd)
            vals = [v] * (hi - lo + 1)
        else:
            vals = [gen(rnd) for _ in range(hi - lo + 1)]
        runs.append((lo, vals))
        used.update(range(lo, hi + 1))
    if rnd.random() < 0.7:
        runs.sort()
    return runs


def w_model(runs):
    m = {}
    for start, vals in runs:
        for i, v in enumerate(vals):
            if start + i in m:
                raise ValueError("overlapping W runs")
            m[start + i] = v
    return m


def emit_w(runs, rnd):
    """/W array from runs of plain widths.  Returns (array value, syntaxes used)."""
    arr = []
    syn = set()
    for start, vals in runs:
        i = 0
        while i < len(vals):
            # take a piece of the run
            j = len(vals) if rnd.random() < 0.6 else rnd.randrange(i + 1, len(vals) + 1)
            piece = vals[i:j]
            if all(p == piece[0] for p in piece) and rnd.random() < 0.7:
                arr += [start + i, start + j - 1, _num(piece[0])]
                syn.add("range")
            else:
                arr += [start + i, [_num(p) for p in piece]]
                syn.add("list")
            i = j
    return arr, syn


def random_w2(rnd):
    """(w1y, vx, vy)"""
    return (random_width(rnd, -1500, 300), random_width(rnd, 0, 1000), random_width(rnd, 0, 1200))


def emit_w2(runs, rnd):
    arr = []
    syn = set()
    for start, vals in runs:
        i = 0
        while i < len(vals):
            j = len(vals) if rnd.random() < 0.6 else rnd.randrange(i + 1, len(vals) + 1)
            piece = vals[i:j]
            if all(p == piece[0] for p in piece) and rnd.random() < 0.7:
                arr += [start + i, start + j - 1] + [_num(x) for x in piece[0]]
                syn.add("range")
            else:
                flat = []
                for p in piece:
                    flat += [_num(x) for x in p]
                arr += [start + i, flat]
                syn.add("list")
            i = j
    return arr, syn


# --------------------------------------------------------------------------
# Synthetic TrueType file with a cmap table
# --------------------------------------------------------------------------
def _cmap_format0(mapping):
    ga = bytearray(256)
    for c, g in mapping.items():
        if not (0 <= c < 256 and 0 <= g < 256):
            raise ValueError("format 0 needs 8-bit chars and glyphs")
        ga[c] = g
    return struct.pack(">HHH", 0, 262, 0) + bytes(ga)


def _cmap_format4(mapping, rnd):
    """OpenType cmap format 4 with free choices: run splitting, idDelta vs glyphIdArray form."""
    chars = sorted(mapping)
    if chars and (chars[0] < 0 or chars[-1] >= 0xFFFF):
        raise ValueError("format 4 chars must be < 0xFFFF")
    runs = []
    i = 0
    while i < len(chars):
        j = i
        while j + 1 < len(chars) and chars[j + 1] == chars[j] + 1 and not (rnd is not None and rnd.random() < 0.15):
            j += 1
        runs.append((chars[i], chars[j]))
        i = j + 1
    segs = []  # (start, end, delta, gids or None)
    for s, e in runs:
        gids = [mapping[c] for c in range(s, e + 1)]
        const = all(g - c == gids[0] - s for g, c in zip(gids, range(s, e + 1)))
        if const and (rnd is None or rnd.random() < 0.5):
            segs.append((s, e, (gids[0] - s) & 0xFFFF, None))
        else:
            dd = 0
            if rnd is not None and rnd.random() < 0.4:
                dd = rnd.randrange(1, 0x10000)
                if any(((g - dd) & 0xFFFF) == 0 for g in gids):
                    dd = 0
            segs.append((s, e, dd, [(g - dd) & 0xFFFF for g in gids]))
    segs.append((0xFFFF, 0xFFFF, 1, None))
    n = len(segs)
    gia = []
    offs = []
    for k, (s, e, d, g) in enumerate(segs):
        if g is None:
            offs.append(0)
        else:
            offs.append(2 * (n - k) + 2 * len(gia))
            gia += g
    sr = 1
    es = 0
    while sr * 2 <= n:
        sr *= 2
        es += 1
    body = struct.pack(">HHHH", 2 * n, 2 * sr, es, 2 * n - 2 * sr)
    body += struct.pack(">%dH" % n, *[e for _, e, _, _ in segs]) + b"\0\0"
    body += struct.pack(">%dH" % n, *[s for s, _, _, _ in segs])
    body += struct.pack(">%dH" % n, *[d for _, _, d, _ in segs])
    body += struct.pack(">%dH" % n, *offs)
    body += struct.pack(">%dH" % len(gia), *gia)
    length = 6 + len(body)
    if length > 0xFFFF:
        raise ValueError("format 4 subtable too long")
    return struct.pack(">HHH", 4, length, 0) + body


def _cmap_format2(mapping, rnd):
    """OpenType cmap format 2 (high-byte mapping through table) for two-byte codes: subheader 0 is the (empty)
    single-byte subheader, every high byte that has characters gets a subheader of its own.  Free choices: idDelta
    (applied modulo 65536 to non-zero entries), slack in firstCode/entryCount, order of the glyph sub-arrays."""
    by_hi = {}
    for c, g in mapping.items():
        if not (0 <= c < 0x10000 and 0 < g < 0x10000):
            raise ValueError("format 2 needs 16-bit chars and non-zero 16-bit glyphs")
        by_hi.setdefault(c >> 8, {})[c & 255] = g
    his = sorted(by_hi)
    keys = [0] * 256
    subs = [(0, 0, 0, [])]  # (firstCode, entryCount, idDelta, stored glyph entries)
    for k, hi in enumerate(his, 1):
        keys[hi] = 8 * k
        lows = by_hi[hi]
        first, last = min(lows), max(lows)
        if rnd is not None and rnd.random() < 0.3:
            first = max(0, first - rnd.randrange(3))
            last = min(255, last + rnd.randrange(3))
        delta = 0
        if rnd is not None and rnd.random() < 0.6:
            delta = rnd.choice([1, -1, 7, -300, 300, 32767, -32768, rnd.randrange(-32768, 32768)])
            if any(((g - delta) & 0xFFFF) == 0 for g in lows.values()):
                delta = 0
        ent = [((lows[x] - delta) & 0xFFFF) if x in lows else 0 for x in range(first, last + 1)]
        subs.append((first, last - first + 1, delta, ent))
    order = list(range(len(subs)))
    if rnd is not None:
        rnd.shuffle(order)
    arr_off = {}
    pos = 0
    for k in order:
        arr_off[k] = pos
        pos += 2 * len(subs[k][3])
    nsub = len(subs)
    body = struct.pack(">256H", *keys)
    for k, (first, cnt, delta, ent) in enumerate(subs):
        # idRangeOffset: from the location of this field to the sub-array
        field_pos = 8 * k + 6
        rng = (8 * nsub + arr_off[k]) - field_pos
        body += struct.pack(">HHhH", first, cnt, delta, rng)
    arrays = bytearray(pos)
    for k in order:
        ent = subs[k][3]
        arrays[arr_off[k]:arr_off[k] + 2 * len(ent)] = struct.pack(">%dH" % len(ent), *ent)
    body += bytes(arrays)
    length = 6 + len(body)
    if length > 0xFFFF:
        raise ValueError("format 2 subtable too long")
    return struct.pack(">HHH", 2, length, 0) + body


def build_cmap_table(subtables, rnd=None):
    """subtables: [(platformID, encodingID, format, {char: gid})]"""
    blobs = []
    for pid, eid, fmt, mapping in subtables:
        mapping = {int(k): v for k, v in mapping.items()}
        blobs.append(_cmap_format0(mapping) if fmt == 0 else _cmap_format2(mapping, rnd) if fmt == 2 else
                     _cmap_format4(mapping, rnd))
    hdr = struct.pack(">HH", 0, len(subtables))
    off = 4 + 8 * len(subtables)
    recs = b""
    for (pid, eid, fmt, _), b in zip(subtables, blobs):
        recs += struct.pack(">HHL", pid, eid, off)
        off += len(b)
    return hdr + recs + b"".join(blobs)


def _checksum(b):
    b = b + b"\0" * (-len(b) % 4)
    return sum(struct.unpack(">%dL" % (len(b) // 4), b)) & 0xFFFFFFFF


def build_ttf(subtables, rnd=None, nglyphs=256):
    """A minimal sfnt container: head, maxp (dummies with the right sizes), cmap, and a filler table whose
    size moves the cmap table's offset."""
    head = struct.pack(">LLLLHHqqhhhhHHhhh", 0x00010000, 0x00010000, 0, 0x5F0F3CF5, 0, 1000, 0, 0, 0, -200, 1000,
                       900, 0, 8, 2, 0, 0)
    maxp = struct.pack(">LH", 0x00010000, nglyphs) + b"\0" * 26
    tables = {b"head": head, b"maxp": maxp, b"cmap": build_cmap_table(subtables, rnd)}
    if rnd is not None and rnd.random() < 0.7:
        tables[rnd.choice([b"OS/2", b"aaaa", b"name", b"zzzz"])] = bytes(rnd.randrange(256) for _ in range(rnd.randrange(1, 40)))
    tags = sorted(tables)
    n = len(tags)
    sr = 1
    es = 0
    while sr * 2 <= n:
        sr *= 2
        es += 1
    out = bytearray(struct.pack(">LHHHH", 0x00010000, n, sr * 16, es, n * 16 - sr * 16))
    off = 12 + 16 * n
    body = bytearray()
    for t in tags:
        b = tables[t]
        out += struct.pack(">4sLLL", t, _checksum(b), off, len(b))
        pad = b + b"\0" * (-len(b) % 4)
        body += pad
        off += len(pad)
    return bytes(out + body)


def read_ttf_cmaps(data):
    """Independent reader (OpenType spec, cmap formats 0 and 4) used to validate build_ttf.
    Returns [(platformID, encodingID, format, {char: gid (non-zero only)})]."""
    n = struct.unpack(">H", data[4:6])[0]
    tab = {}
    for i in range(n):
        tag, cs, off, ln = struct.unpack(">4sLLL", data[12 + 16 * i:28 + 16 * i])
        tab[tag] = (off, ln)
        if _checksum(data[off:off + ln]) != cs:
            raise ValueError("bad checksum for %r" % tag)
    base, ln = tab[b"cmap"]
    cm = data[base:base + ln]
    ver, nsub = struct.unpack(">HH", cm[:4])
    res = []
    for i in range(nsub):
        pid, eid, off = struct.unpack(">HHL", cm[4 + 8 * i:12 + 8 * i])
        fmt, length = struct.unpack(">HH", cm[off:off + 4])
        st = cm[off:off + length]
        m = {}
        if fmt == 0:
            for c in range(256):
                if st[6 + c]:
                    m[c] = st[6 + c]
        elif fmt == 4:
            segx2 = struct.unpack(">H", st[6:8])[0]
            sc = segx2 // 2
            p_end = 14
            p_start = p_end + segx2 + 2
            p_delta = p_start + segx2
            p_ro = p_delta + segx2
            for k in range(sc):
                end = struct.unpack(">H", st[p_end + 2 * k:p_end + 2 * k + 2])[0]
                start = struct.unpack(">H", st[p_start + 2 * k:p_start + 2 * k + 2])[0]
                delta = struct.unpack(">H", st[p_delta + 2 * k:p_delta + 2 * k + 2])[0]
                ro = struct.unpack(">H", st[p_ro + 2 * k:p_ro + 2 * k + 2])[0]
                for c in range(start, end + 1):
                    if ro == 0:
                        g = (c + delta) & 0xFFFF
                    else:
                        # "address of idRangeOffset[k] + idRangeOffset[k] + 2*(c - start)"
                        a = p_ro + 2 * k + ro + 2 * (c - start)
                        g = struct.unpack(">H", st[a:a + 2])[0]
                        if g:
                            g = (g + delta) & 0xFFFF
                    if g:
                        m[c] = g
        else:
            raise ValueError("format %d" % fmt)
        res.append((pid, eid, fmt, m))
    return res


def random_injective_map(rnd, fmt, anchors_gid, n_extra=20):
    """An injective {char: gid} whose glyph ids include `anchors_gid` (the CIDs that will be shown),
    never using gid 0 or surrogate / 0xFFFF characters."""
    m = {}
    used_c = set()
    lim_c, lim_g = (256, 256) if fmt == 0 else (0xFFFF, 0x10000)

    def fresh_char(near=None):
        for _ in range(100):
            if near is not None and rnd.random() < 0.7:
                c = near
            elif fmt == 0:
                c = rnd.randrange(1, 256)
            else:
                c = _rand_bmp(rnd)
            if c not in used_c and 0 < c < lim_c and not (0xD800 <= c <= 0xDFFF):
                return c
        return None

    gids = [g for g in dict.fromkeys(anchors_gid) if 0 < g < lim_g]
    # consecutive gids get consecutive chars (so that real delta segments and real glyphIdArray runs appear)
    prev = None
    for g in sorted(gids):
        near = None
        if prev is not None and g == prev[0] + 1:
            near = prev[1] + 1
        c = fresh_char(near)
        if c is None:
            continue
        m[c] = g
        used_c.add(c)
        prev = (g, c)
    used_g = set(m.values())
    for _ in range(n_extra):
        g = rnd.randrange(1, lim_g)
        if g in used_g:
            continue
        c = fresh_char()
        if c is None:
            continue
        # sometimes extend into a short run
        run = rnd.choice([1, 1, 2, 4])
        for k in range(run):
            if c + k < lim_c and (c + k) not in used_c and (g + k) < lim_g and (g + k) not in used_g \
                    and not (0xD800 <= c + k <= 0xDFFF):
                gk = g + k if rnd.random() < 0.7 else None
                if gk is None:
                    gk = rnd.randrange(1, lim_g)
                    if gk in used_g:
                        continue
                m[c + k] = gk
                used_c.add(c + k)
                used_g.add(gk)
    return m


def selfcheck(rnd):
    """Validates the TrueType builder against the independent reader, and the ToUnicode model's arithmetic
    on hand-computed examples from ISO 32000-1 9.10.3 / Adobe TN 5411."""
    for _ in range(60):
        fmt = rnd.choice([0, 4])
        anchors = [rnd.randrange(1, 256 if fmt == 0 else 5000) for _ in range(rnd.randrange(1, 12))]
        m = random_injective_map(rnd, fmt, anchors)
        if len(set(m.values())) != len(m):
            raise AssertionError("map not injective")
        pid, eid = rnd.choice([(0, 3), (3, 1)])
        data = build_ttf([(pid, eid, fmt, m)], rnd)
        back = read_ttf_cmaps(data)
        if back != [(pid, eid, fmt, m)]:
            raise AssertionError("TrueType cmap builder does not round-trip: %r vs %r" % (back, m))
    # ISO 32000-1 9.10.3 example 2: <0000> <005E> <0020> maps 0 -> U+0020 ... 0x5E -> U+007E
    m = tounicode_model([["range", 0, 0x5E, " "], ["array", 0x5F, 0x61, ["ff", "fi", "ffl"]], ["char", 0x3A51, "\U0002003E"]])
    assert m[0] == " " and m[0x5E] == "~" and m[0x60] == "fi" and m[0x3A51].encode("utf-16-be") == b"\xd8\x40\xdc\x3e"
    assert increment_target("þ", 3) == "ā"  # low byte carries into the next byte
    assert increment_target("\U00020000", 5) == "\U00020005"
    assert increment_target("ab", 2) == "ad"
    runs = [(3, [500, 600]), (10, [700] * 11), (30, ["400.5"])]
    assert w_model(runs)[4] == 600 and w_model(runs)[20] == 700
