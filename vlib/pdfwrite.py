"""Independent PDF *writer* used as the inverse of pdfminer's reader.

Abstract values (JSON-able through vlib.runner.jdump):
    None, bool, int, bytes (string), list (array), dict {bytes name: value},
    ("N", bytes)  name            ("R", "text")  real written exactly as `text`
    ("F", n, g)   indirect reference
    ("S", dict, payload bytes)    stream (only as a top-level indirect object)
Two serialisers share one code path: `Canon()` always takes choice 0 (plain spelling),
`Drawn(draw)` lets Hypothesis pick every spelling dimension.
"""
from __future__ import annotations

import zlib

WS_ALL = [b" ", b"\n", b"\t", b"\r", b"\x0c", b"\x00"]
DELIMS = b"()<>[]{}/%"
WSBYTES = b"\x00\t\n\x0c\r "


def N(s):
    return ("N", s.encode("latin-1") if isinstance(s, str) else bytes(s))


def R(n, g=0):
    return ("F", n, g)


def Real(text):
    return ("R", text)


def Stream(d, data):
    return ("S", d, data)


def D(**kw):
    """dict literal with str keys -> bytes keys"""
    return {k.encode("latin-1"): v for k, v in kw.items()}


def dk(d):
    """normalise a dict with str/bytes keys to bytes keys"""
    return {(k.encode("latin-1") if isinstance(k, str) else k): v for k, v in d.items()}


def is_name(v):
    return isinstance(v, tuple) and v[0] == "N"


def is_real(v):
    return isinstance(v, tuple) and v[0] == "R"


def is_ref(v):
    return isinstance(v, tuple) and v[0] == "F"


def is_stream(v):
    return isinstance(v, tuple) and v[0] == "S"


# --------------------------------------------------------------------------
class Canon:
    """Chooser that always takes the first (plain) alternative."""

    plain = True

    def __init__(self):
        self.features = set()

    def choice(self, n, label=None):
        return 0

    def chance(self, label=None):
        return False

    def small(self, hi):
        return 0


class Drawn:
    """Chooser backed by Hypothesis draws; records which non-canonical features were used."""

    plain = False

    def __init__(self, draw, ws=None, nul_ok=True):
        from hypothesis import strategies as st

        self.draw = draw
        self.st = st
        self.features = set()
        self._bool = st.booleans()
        self._ints = {}

    def choice(self, n, label=None):
        s = self._ints.get(n)
        if s is None:
            s = self._ints[n] = self.st.integers(0, n - 1)
        k = self.draw(s)
        if k and label:
            self.features.add(label)
        return k

    def chance(self, label=None):
        k = self.draw(self._bool)
        if k and label:
            self.features.add(label)
        return k

    def small(self, hi):
        return self.choice(hi + 1)


class Rand:
    """Chooser backed by a seeded random.Random (for cases built outside Hypothesis)."""

    plain = False

    def __init__(self, rnd):
        self.rnd = rnd
        self.features = set()

    def choice(self, n, label=None):
        k = self.rnd.randrange(n)
        if k and label:
            self.features.add(label)
        return k

    def chance(self, label=None):
        k = self.rnd.random() < 0.5
        if k and label:
            self.features.add(label)
        return k

    def small(self, hi):
        return self.choice(hi + 1)


# --------------------------------------------------------------------------
# token = (bytes, starts_regular, ends_regular)
def _tok(b):
    return (b, b[:1] not in (b"(", b"<", b"[", b"{", b"/", b"%", b">", b"]", b"}", b")"),
            b[-1:] not in (b")", b">", b"]", b"}", b"(", b"<", b"[", b"{"))


def _sep(ch, need, ws):
    """White space / comments between two tokens.  `need`: at least one separator byte."""
    if ch.plain:
        return b" " if need else b""
    out = b""
    k = ch.choice(6)
    # 0: minimal, 1: one ws, 2: several ws, 3: comment, 4: ws + comment + ws, 5: newline
    if k == 0:
        if need:
            out = ws[ch.choice(len(ws), "ws-kind")] if len(ws) > 1 else ws[0]
        else:
            ch.features.add("zero-width-sep")
    elif k == 1:
        out = ws[ch.choice(len(ws), "ws-kind")]
    elif k == 2:
        for _ in range(2 + ch.small(3)):
            out += ws[ch.choice(len(ws), "ws-kind")]
    elif k == 3:
        out = _comment(ch)
    elif k == 4:
        out = ws[ch.choice(len(ws))] + _comment(ch) + ws[ch.choice(len(ws))]
    else:
        out = [b"\n", b"\r\n", b"\r"][ch.choice(3)]
    if b"\x00" in out:
        ch.features.add("nul-ws")
    if b"\x0c" in out:
        ch.features.add("ff-ws")
    return out


COMMENT_BODIES = [b"", b" c", b"(", b")", b"<<", b"/N", b"\\", b"endobj", b"1 0 R", b"%", b"[", b">", b"\x00\x80"]


def _comment(ch):
    ch.features.add("comment")
    return b"%" + COMMENT_BODIES[ch.choice(len(COMMENT_BODIES))] + [b"\n", b"\r", b"\r\n"][ch.choice(3)]


def _int(ch, v):
    s = str(abs(v)).encode()
    if not ch.plain:
        k = ch.choice(4)
        if k == 1:
            s = b"0" * (1 + ch.small(3)) + s
            ch.features.add("leading-zeros")
        sign = b"-" if v < 0 else b""
        if v >= 0 and k == 2:
            sign = b"+"
            ch.features.add("plus-sign")
        return sign + s
    return (b"-" if v < 0 else b"") + s


ESC = {8: b"\\b", 9: b"\\t", 10: b"\\n", 12: b"\\f", 13: b"\\r", 40: b"\\(", 41: b"\\)", 92: b"\\\\"}


def _litstring(ch, s):
    if ch.plain:
        out = bytearray(b"(")
        for c in s:
            if c in (40, 41, 92):
                out += ESC[c]
            elif c == 13:
                out += b"\\r"
            else:
                out.append(c)
        return bytes(out) + b")"
    out = bytearray(b"(")
    # balanced raw parentheses: matching pairs found with a stack are properly nested or disjoint,
    # so any subset of the pairs may stay unescaped.
    raw_idx = set()
    stack = []
    for i, c in enumerate(s):
        if c == 40:
            stack.append(i)
        elif c == 41 and stack:
            j = stack.pop()
            if ch.chance("raw-balanced-parens"):
                raw_idx.add(j)
                raw_idx.add(i)
    n = len(s)
    after_cr = False  # previous output was a backslash-CR continuation: a raw LF would be swallowed
    for i, c in enumerate(s):
        nxt_digit = i + 1 < n and 48 <= s[i + 1] <= 57
        if ch.choice(8) == 1:
            k = ch.choice(3)
            out += [b"\\\n", b"\\\r\n", b"\\\r"][k]
            after_cr = k == 2
            ch.features.add("line-continuation")
        if c in (40, 41) and i in raw_idx:
            out.append(c)
        elif c in (40, 41, 92, 13):
            out += ESC[c] if ch.choice(2) == 0 else _octal(ch, c, nxt_digit)
        else:
            k = ch.choice(4)
            if after_cr and c == 10 and k not in (1, 2):
                k = 1
            if k == 1 and c in ESC:
                out += ESC[c]
                ch.features.add("named-escape")
            elif k == 2:
                out += _octal(ch, c, nxt_digit)
            elif after_cr and c == 10:
                out += b"\\n"
            else:
                out.append(c)
        after_cr = False
    if ch.choice(8) == 1:
        out += [b"\\\n", b"\\\r\n", b"\\\r"][ch.choice(3)]
        ch.features.add("line-continuation")
    return bytes(out) + b")"


def _octal(ch, c, nxt_digit):
    ch.features.add("octal-escape")
    # three digits may overflow a byte: "high-order overflow shall be ignored" (ISO 32000-1 Table 3), so \\501 is A
    forms = [b"\\%03o" % c, b"\\%03o" % (c + 256)]
    if not nxt_digit:
        if c < 64:
            forms.append(b"\\%02o" % c)
        if c < 8:
            forms.append(b"\\%o" % c)
    return forms[ch.choice(len(forms))] if len(forms) > 1 else forms[0]


def _hexstring(ch, s):
    h = s.hex().encode()
    if ch.plain:
        return b"<" + h + b">"
    out = bytearray(b"<")
    digits = list(h)
    if digits and digits[-1] == 48 and ch.chance("odd-length-hex"):
        digits.pop()
    ws = [b" ", b"\n", b"\r", b"\t", b"\x0c", b"\x00"]
    for d in digits:
        if ch.choice(6) == 1:
            w = ws[ch.choice(len(ws))]
            out += w
            ch.features.add("hex-ws")
            if w == b"\x00":
                ch.features.add("nul-ws")
        c = bytes([d])
        if c.isalpha() and ch.choice(2):
            c = c.upper()
            ch.features.add("hex-upper")
        out += c
    if ch.choice(6) == 1:
        out += ws[ch.choice(len(ws))]
    return bytes(out) + b">"


def name_needs_escape(c):
    return c <= 32 or c >= 127 or c in DELIMS or c == 35


def _name(ch, nm):
    out = bytearray(b"/")
    for c in nm:
        if c == 0:
            raise ValueError("NUL in name")
        # Control characters below 0x21 (incl. VT, which ISO does not list as white space) are always
        # written as #xx: ISO recommends it, writers do it, and the statement's spelling dimensions do not
        # include raw control bytes in names (DESIGN.md C01 narrowing).
        must = c < 33 or c in DELIMS or c == 35
        if must:
            out += b"#%02x" % c
        elif ch.plain:
            if c < 33 or c > 126:
                out += b"#%02x" % c
            else:
                out.append(c)
        else:
            k = ch.choice(4)
            if k == 1:
                out += (b"#%02X" if ch.choice(2) else b"#%02x") % c
                ch.features.add("name-hash-escape")
            else:
                out.append(c)
                if c >= 127:
                    ch.features.add("name-raw-highbyte")
    return bytes(out)


def tokens(ch, v, out, allow_stream=False):
    """Appends the token list of value v to out."""
    if v is None:
        out.append(_tok(b"null"))
    elif v is True:
        out.append(_tok(b"true"))
    elif v is False:
        out.append(_tok(b"false"))
    elif isinstance(v, int):
        out.append(_tok(_int(ch, v)))
    elif isinstance(v, float):
        t = ("%.6f" % v).rstrip("0")
        out.append(_tok((t + "0" if t.endswith(".") else t).encode()))
    elif isinstance(v, (bytes, bytearray)):
        if ch.plain or ch.choice(3) != 1:
            out.append(_tok(_litstring(ch, v)))
        else:
            ch.features.add("hex-string")
            out.append(_tok(_hexstring(ch, v)))
    elif isinstance(v, list):
        out.append(_tok(b"["))
        for x in v:
            tokens(ch, x, out)
        out.append(_tok(b"]"))
    elif isinstance(v, dict):
        out.append(_tok(b"<<"))
        for k, x in v.items():
            out.append(_tok(_name(ch, k)))
            tokens(ch, x, out)
        out.append(_tok(b">>"))
    elif isinstance(v, tuple):
        t = v[0]
        if t == "N":
            out.append(_tok(_name(ch, v[1])))
        elif t == "R":
            out.append(_tok(v[1].encode()))
        elif t == "F":
            out.append(_tok(_int(ch, v[1])))
            out.append(_tok(_int(ch, v[2])))
            out.append(_tok(b"R"))
        else:
            raise TypeError("cannot serialise %r here" % (t,))
    else:
        raise TypeError("cannot serialise %r" % (v,))


def join(ch, toks, ws=None, lead=False, trail=False):
    ws = ws or WS_ALL
    out = bytearray()
    if lead:
        out += _sep(ch, False, ws)
    prev = None
    for t in toks:
        if prev is not None:
            out += _sep(ch, prev[2] and t[1], ws)
        out += t[0]
        prev = t
    if trail:
        out += _sep(ch, False, ws)
    return bytes(out)


def ser(v, ch=None, ws=None):
    ch = ch or Canon()
    toks = []
    tokens(ch, v, toks)
    return join(ch, toks, ws)


# --------------------------------------------------------------------------
# Expected public representation and comparison
# --------------------------------------------------------------------------
def name_public(nm: bytes):
    try:
        return nm.decode("utf-8")
    except UnicodeDecodeError:
        return nm


def key_public(nm: bytes) -> str:
    try:
        return nm.decode("utf-8")
    except UnicodeDecodeError:
        return str(nm)


def expected(v):
    """Canonical comparable form of what pdfminer is expected to return for v."""
    if v is None:
        return ("null",)
    if isinstance(v, bool):
        return ("bool", v)
    if isinstance(v, int):
        return ("int", v)
    if isinstance(v, float):
        return ("real", float("%.6f" % v))
    if isinstance(v, (bytes, bytearray)):
        return ("str", bytes(v))
    if isinstance(v, list):
        return ("arr", [expected(x) for x in v])
    if isinstance(v, dict):
        return ("dict", {key_public(k): expected(x) for k, x in v.items() if x is not None})
    t = v[0]
    if t == "N":
        return ("name", name_public(v[1]))
    if t == "R":
        return ("real", float(v[1]))
    if t == "F":
        return ("ref", v[1])
    if t == "S":
        return ("stream", expected(v[1]), v[2])
    raise TypeError(v)


def observe(o, stream_data=True):
    """Canonical comparable form of an object pdfminer returned."""
    from pdfminer.pdftypes import PDFObjRef, PDFStream
    from pdfminer.psparser import PSKeyword, PSLiteral

    if o is None:
        return ("null",)
    if isinstance(o, bool):
        return ("bool", o)
    if isinstance(o, int):
        return ("int", o)
    if isinstance(o, float):
        return ("real", o)
    if isinstance(o, bytes):
        return ("str", o)
    if isinstance(o, list):
        return ("arr", [observe(x, stream_data) for x in o])
    if isinstance(o, dict):
        return ("dict", {k: observe(x, stream_data) for k, x in o.items()})
    if isinstance(o, PSLiteral):
        return ("name", o.name)
    if isinstance(o, PSKeyword):
        return ("keyword", o.name)
    if isinstance(o, PDFObjRef):
        return ("ref", o.objid)
    if isinstance(o, PDFStream):
        if stream_data:
            try:
                data = o.get_data()
            except Exception as e:  # reported by the caller as a mismatch
                data = "get_data raised %s: %s" % (type(e).__name__, e)
            return ("stream", observe(o.attrs, stream_data), data)
        return ("stream", observe(o.attrs, stream_data), None)
    return ("other", repr(o))


def same(a, b):
    """Type-strict deep equality of canonical forms (float vs int distinguished by tag)."""
    if type(a) is not type(b):
        return False
    # explicit loops: builtins such as all() put C frames between the Python frames, and CPython 3.12 limits the depth
    # of those separately from sys.setrecursionlimit (values nested 300 levels deep are compared here)
    if isinstance(a, tuple) or isinstance(a, list):
        if len(a) != len(b):
            return False
        for i in range(len(a)):
            if not same(a[i], b[i]):
                return False
        return True
    if isinstance(a, dict):
        if a.keys() != b.keys():
            return False
        for k in a:
            if not same(a[k], b[k]):
                return False
        return True
    if isinstance(a, float):
        return a == b or (a != a and b != b)
    return a == b


def first_diff(a, b, path="$"):
    if type(a) is not type(b):
        return "%s: %r vs %r" % (path, a, b)
    if isinstance(a, (tuple, list)):
        if len(a) != len(b):
            return "%s: length %d vs %d (%r vs %r)" % (path, len(a), len(b), _short(a), _short(b))
        for i, (x, y) in enumerate(zip(a, b)):
            d = first_diff(x, y, "%s[%d]" % (path, i))
            if d:
                return d
        return None
    if isinstance(a, dict):
        if a.keys() != b.keys():
            return "%s: keys %r vs %r" % (path, sorted(a.keys() - b.keys()), sorted(b.keys() - a.keys()))
        for k in a:
            d = first_diff(a[k], b[k], "%s.%s" % (path, k))
            if d:
                return d
        return None
    if a != b:
        return "%s: %r vs %r" % (path, _short(a), _short(b))
    return None


def _short(x, n=200):
    r = repr(x)
    return r if len(r) <= n else r[:n] + "..."


# --------------------------------------------------------------------------
# Documents
# --------------------------------------------------------------------------
def obj_bytes(n, g, v, ch=None, eol=b"\n", ws=None, stream_eol=b"\n", end_eol=b"\n", length_override=None,
              raw=None, head_sep=None):
    """`n g obj ... endobj` for value v (or pre-spelled bytes `raw`).
    head_sep: what stands between `obj` and the value (default: eol; b" " and, before a delimiter, b"" are valid too)."""
    ch = ch or Canon()
    if raw is not None:
        return b"%d %d obj" % (n, g) + eol + raw + eol + b"endobj" + eol

    def head(body):
        hs = eol if head_sep is None else head_sep
        if hs == b"" and body[:1] not in b"<[(/":
            hs = b" "
        return b"%d %d obj" % (n, g) + hs + body

    if is_stream(v):
        d = dict(v[1])
        if b"Length" not in d:
            d[b"Length"] = len(v[2]) if length_override is None else length_override
        return (head(ser(d, ch, ws)) + eol + b"stream" + stream_eol + v[2] + end_eol
                + b"endstream" + eol + b"endobj" + eol)
    return head(ser(v, ch, ws)) + eol + b"endobj" + eol


def xref_table(entries, eol2=b" \n"):
    """entries: {n: (offset, gen, 'n'|'f')} -> classic table text with minimal subsections"""
    out = bytearray(b"xref\n")
    nums = sorted(entries)
    i = 0
    while i < len(nums):
        j = i
        while j + 1 < len(nums) and nums[j + 1] == nums[j] + 1:
            j += 1
        out += b"%d %d\n" % (nums[i], j - i + 1)
        for n in nums[i:j + 1]:
            off, gen, kind = entries[n]
            out += b"%010d %05d %s" % (off, gen, kind.encode()) + eol2
        i = j + 1
    return bytes(out)


def build_pdf(objs, root=1, trailer_extra=None, header=b"%PDF-1.7\n%\xe2\xe3\xcf\xd3\n", pad=0, eol=b"\n",
              raw=None, gens=None, tail=b"\n", info=None):
    """Single-revision classic-table file.  objs: {n: value}; raw: {n: pre-spelled body bytes}."""
    raw = raw or {}
    gens = gens or {}
    out = bytearray(header)
    if pad:
        line = b"%" + b"p" * 60 + b"\n"
        while pad > 0:
            chunk = line if pad >= len(line) else (b"%" + b"p" * (pad - 2) + b"\n" if pad >= 2 else b"\n")
            out += chunk
            pad -= len(chunk)
    offs = {}
    for n in sorted(set(objs) | set(raw)):
        offs[n] = len(out)
        out += obj_bytes(n, gens.get(n, 0), objs.get(n), eol=eol, raw=raw.get(n))
    x = len(out)
    mx = max(offs) + 1
    ent = {0: (0, 65535, "f")}
    for n in range(1, mx):
        ent[n] = (offs[n], gens.get(n, 0), "n") if n in offs else (0, 65535, "f")
    out += xref_table(ent)
    tr = {b"Size": mx}
    if root is not None:
        tr[b"Root"] = R(root)
    if info is not None:
        tr[b"Info"] = R(info)
    if trailer_extra:
        tr.update(dk(trailer_extra))
    out += b"trailer\n" + ser(tr) + b"\nstartxref\n%d\n%%%%EOF" % x + tail
    return bytes(out)


def simple_font(basefont="Foo", widths=None, first=32, encoding="WinAnsiEncoding"):
    widths = widths if widths is not None else [500] * 95
    d = D(Type=N("Font"), Subtype=N("Type1"), BaseFont=N(basefont), FirstChar=first,
          LastChar=first + len(widths) - 1, Widths=list(widths))
    if encoding:
        d[b"Encoding"] = N(encoding)
    return d


def page_doc(content, fonts=None, mediabox=(0, 0, 612, 792), extra=None, rotate=None, contents_list=None,
             resources=None, page_extra=None, filt=False, before=None, direct_fonts=()):
    """Minimal one-page document.  fonts: {resource name: font dict}.
    before: content streams of pages that come before the page (same resources and box)."""
    fonts = fonts if fonts is not None else {"F1": simple_font()}
    objs = {1: D(Type=N("Catalog"), Pages=R(2)), 2: D(Type=N("Pages"), Kids=[R(3)], Count=1)}
    fd = {}
    n = 10
    for k, f in fonts.items():
        if k in direct_fonts:
            # the font dictionary written directly into the /Font resource dictionary
            fd[k.encode("latin-1")] = f
            continue
        objs[n] = f
        fd[k.encode("latin-1")] = R(n)
        n += 1
    res = dk(resources) if resources is not None else {}
    if fd:
        res.setdefault(b"Font", fd)
    page = D(Type=N("Page"), Parent=R(2), MediaBox=list(mediabox), Resources=res)
    if contents_list is not None:
        ids = []
        for i, c in enumerate(contents_list):
            objs[40 + i] = Stream({}, c)
            ids.append(R(40 + i))
        page[b"Contents"] = ids
    else:
        if filt:
            objs[4] = Stream(D(Filter=N("FlateDecode")), zlib.compress(content))
        else:
            objs[4] = Stream({}, content)
        page[b"Contents"] = R(4)
    if rotate is not None:
        page[b"Rotate"] = rotate
    if page_extra:
        page.update(dk(page_extra))
    objs[3] = page
    if before:
        kids = []
        for i, c in enumerate(before):
            objs[80 + i] = Stream({}, c)
            objs[60 + i] = D(Type=N("Page"), Parent=R(2), MediaBox=list(mediabox), Resources=res, Contents=R(80 + i))
            kids.append(R(60 + i))
        objs[2] = D(Type=N("Pages"), Kids=kids + [R(3)], Count=len(kids) + 1)
    if extra:
        objs.update(extra)
    return build_pdf(objs)
