"""Independent *encoders* for the PDF stream filters and forward predictors.

Every encoder takes a `rnd` (random.Random-like, Hypothesis-managed) for its free choices;
rnd=None gives a plain deterministic encoding.
"""
import zlib

WS4 = [b" ", b"\t", b"\n", b"\r"]


def _chance(rnd, p):
    return rnd is not None and rnd.random() < p


# ---------------------------------------------------------------- ASCIIHex
def ahx_encode(data, rnd=None):
    out = bytearray()
    digits = data.hex()
    drop_last = bool(digits) and digits[-1] == "0" and _chance(rnd, 0.3)
    if drop_last:
        digits = digits[:-1]
    for ch in digits:
        if _chance(rnd, 0.1):
            out += rnd.choice(WS4)
        if _chance(rnd, 0.5):
            ch = ch.upper()
        out += ch.encode()
    if _chance(rnd, 0.3):
        out += rnd.choice(WS4)
    out += b">"
    return bytes(out)


# ---------------------------------------------------------------- ASCII85
def a85_encode(data, rnd=None):
    out = bytearray()
    n = len(data)
    i = 0
    while i < n:
        chunk = data[i:i + 4]
        i += 4
        k = len(chunk)
        v = int.from_bytes(chunk + b"\x00" * (4 - k), "big")
        if k == 4 and v == 0 and not _chance(rnd, 0.2):
            grp = b"z"
        else:
            ds = []
            for _ in range(5):
                v, r = divmod(v, 85)
                ds.append(r + 33)
            grp = bytes(reversed(ds))[:k + 1]
        if rnd is not None:
            # white space may be inserted between any two characters
            g2 = bytearray()
            for c in grp:
                if rnd.random() < 0.05:
                    g2 += rnd.choice(WS4)
                g2.append(c)
            grp = bytes(g2)
        out += grp
        if _chance(rnd, 0.05):
            out += rnd.choice(WS4)
    out += b"~>"
    return bytes(out)


# ---------------------------------------------------------------- LZW (MSB first, 9..12 bits, EarlyChange 1)
def lzw_encode(data, rnd=None, clear_p=0.002):
    """Returns encoded bytes.  Emits a clear-table code at the start, at drawn points, and before the table fills."""
    codes = [256]
    tbl = {bytes([i]): i for i in range(256)}
    nxt = 258
    w = b""
    for byte in data:
        c = bytes([byte])
        if w + c in tbl:
            w += c
            continue
        codes.append(tbl[w])
        tbl[w + c] = nxt
        nxt += 1
        w = c
        if nxt >= 4094 or _chance(rnd, clear_p):
            codes.append(tbl[w])
            w = b""
            codes.append(256)
            tbl = {bytes([i]): i for i in range(256)}
            nxt = 258
    if w:
        codes.append(tbl[w])
    codes.append(257)
    return lzw_pack(codes)


def lzw_codes_full(data, hold):
    """Code sequence of an encoder that fills the table up to its last entry, 4095 (ISO 32000-1 7.4.4.2), goes on using
    the full table for `hold` more codes and only then writes a clear-table code."""
    codes = [256]
    tbl = {bytes([i]): i for i in range(256)}
    nxt = 258
    w = b""
    since_full = 0
    for byte in data:
        c = bytes([byte])
        if w + c in tbl:
            w += c
            continue
        codes.append(tbl[w])
        if nxt <= 4095:
            tbl[w + c] = nxt
            nxt += 1
        else:
            since_full += 1
        w = c
        if since_full > hold:
            codes.append(tbl[w])
            w = b""
            codes.append(256)
            tbl = {bytes([i]): i for i in range(256)}
            nxt = 258
            since_full = 0
    if w:
        codes.append(tbl[w])
    codes.append(257)
    return codes


def lzw_codes(data):
    """Plain LZW code sequence (clear, codes..., EOD) for data (no extra clears)."""
    codes = [256]
    tbl = {bytes([i]): i for i in range(256)}
    nxt = 258
    w = b""
    for byte in data:
        c = bytes([byte])
        if w + c in tbl:
            w += c
            continue
        codes.append(tbl[w])
        if nxt < 4094:
            tbl[w + c] = nxt
            nxt += 1
        w = c
    if w:
        codes.append(tbl[w])
    codes.append(257)
    return codes


def lzw_pack(codes):
    """Pack codes MSB first with decoder-synchronous widths (the decoder's table lags one entry behind)."""
    acc = 0
    nacc = 0
    out = bytearray()
    nb = 9
    tl = 258
    first = True
    for code in codes:
        acc = (acc << nb) | code
        nacc += nb
        while nacc >= 8:
            nacc -= 8
            out.append((acc >> nacc) & 0xFF)
        acc &= (1 << nacc) - 1
        if code == 256:
            nb, tl, first = 9, 258, True
        elif code != 257:
            if first:
                first = False
            else:
                tl += 1
                if tl == 511:
                    nb = 10
                elif tl == 1023:
                    nb = 11
                elif tl == 2047:
                    nb = 12
    if nacc:
        out.append((acc << (8 - nacc)) & 0xFF)
    return bytes(out)


# ---------------------------------------------------------------- Flate
def flate_encode(data, rnd=None):
    level = rnd.choice([0, 1, 6, 9]) if rnd is not None else 6
    return zlib.compress(data, level)


# ---------------------------------------------------------------- RunLength
def rl_encode(data, rnd=None):
    out = bytearray()
    i = 0
    n = len(data)
    while i < n:
        # length of the run of equal bytes starting at i
        j = i
        while j < n and data[j] == data[i] and j - i < 128:
            j += 1
        run = j - i
        use_run = run >= 2 and (rnd is None or rnd.random() < 0.7)
        if use_run:
            k = run if rnd is None else rnd.randint(2, run)
            out.append(257 - k)
            out.append(data[i])
            i += k
        else:
            k = 1 if rnd is None else rnd.randint(1, min(128, n - i))
            if rnd is None:
                # plain: literal up to the next run of >= 3
                k = 1
                while i + k < n and k < 128 and not (i + k + 2 < n and data[i + k] == data[i + k + 1] == data[i + k + 2]):
                    k += 1
            out.append(k - 1)
            out += data[i:i + k]
            i += k
    if rnd is None or rnd.random() < 0.9:
        out.append(128)
    return bytes(out)


# ---------------------------------------------------------------- predictors (forward)
def row_bytes(colors, columns, bits):
    return (colors * columns * bits + 7) // 8


def tiff2_forward(data, colors, columns):
    """TIFF predictor 2, 8 bits per component: horizontal differencing per component."""
    nb = colors * columns
    out = bytearray()
    for r in range(0, len(data), nb):
        row = data[r:r + nb]
        for i, v in enumerate(row):
            out.append((v - row[i - colors]) & 255 if i >= colors else v)
    return bytes(out)


def _paeth(a, b, c):
    p = a + b - c
    pa, pb, pc = abs(p - a), abs(p - b), abs(p - c)
    if pa <= pb and pa <= pc:
        return a
    if pb <= pc:
        return b
    return c


def png_forward(data, colors, columns, bits, row_filters):
    """PNG prediction: each row gets its own filter type byte (0..4).  bpp = max(1, colors*bits/8)."""
    nb = row_bytes(colors, columns, bits)
    bpp = max(1, colors * bits // 8)
    out = bytearray()
    prior = bytes(nb)
    for ri, r in enumerate(range(0, len(data), nb)):
        row = data[r:r + nb]
        ft = row_filters[ri % len(row_filters)]
        out.append(ft)
        for x in range(len(row)):
            a = row[x - bpp] if x >= bpp else 0
            b = prior[x]
            c = prior[x - bpp] if x >= bpp else 0
            if ft == 0:
                p = 0
            elif ft == 1:
                p = a
            elif ft == 2:
                p = b
            elif ft == 3:
                p = (a + b) // 2
            else:
                p = _paeth(a, b, c)
            out.append((row[x] - p) & 255)
        prior = row
    return bytes(out)


FILTERS = {
    "ASCIIHexDecode": (ahx_encode, "AHx"),
    "ASCII85Decode": (a85_encode, "A85"),
    "LZWDecode": (lzw_encode, "LZW"),
    "FlateDecode": (flate_encode, "Fl"),
    "RunLengthDecode": (rl_encode, "RL"),
}


def selfcheck():
    """Validate the encoders against independent decoders where the platform has one."""
    import base64
    import binascii
    import random

    r = random.Random(7)
    for n in (0, 1, 3, 4, 5, 17, 300):
        d = bytes(r.randrange(256) for _ in range(n)) + b"\x00" * (n % 5)
        e = a85_encode(d, r)
        clean = bytes(c for c in e if c not in b" \t\n\r")
        assert base64.a85decode(clean[:-2]) == d, "a85 encoder"
        h = ahx_encode(d, None)
        assert binascii.unhexlify(h[:-1]) == d, "ahx encoder"
        assert zlib.decompress(flate_encode(d, r)) == d
        # run-length: independent mini-decoder
        e = rl_encode(d, r)
        out = bytearray()
        i = 0
        while i < len(e):
            L = e[i]
            if L == 128:
                break
            if L < 128:
                out += e[i + 1:i + 2 + L]
                i += 2 + L
            else:
                out += bytes([e[i + 1]]) * (257 - L)
                i += 2
        assert bytes(out) == d, "rl encoder"


def _ref_lzw_decode(data):
    """Textbook LZW decoder (MSB first, early change) used only to validate lzw_encode."""
    bits = "".join(format(b, "08b") for b in data)
    pos = 0
    nb = 9
    table = None
    prev = None
    out = bytearray()
    while pos + nb <= len(bits):
        code = int(bits[pos:pos + nb], 2)
        pos += nb
        if code == 256:
            table = [bytes([i]) for i in range(256)] + [None, None]
            nb = 9
            prev = None
            continue
        if code == 257:
            break
        if prev is None:
            entry = table[code]
        else:
            entry = table[code] if code < len(table) else prev + prev[:1]
            table.append(prev + entry[:1])
        out += entry
        prev = entry
        n = len(table) + 1  # early change: width grows one code early
        nb = 9 if n < 512 else 10 if n < 1024 else 11 if n < 2048 else 12
    return bytes(out)


def selfcheck_lzw():
    import random

    r = random.Random(11)
    for n, alpha in ((0, 2), (1, 2), (50, 2), (700, 4), (3000, 256), (9000, 256), (12000, 3)):
        d = bytes(r.randrange(alpha) for _ in range(n))
        assert _ref_lzw_decode(lzw_encode(d, r)) == d, "lzw encoder n=%d" % n
        assert _ref_lzw_decode(lzw_encode(d, None)) == d, "lzw encoder n=%d" % n
