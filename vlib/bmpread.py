"""Strict reader for uncompressed Windows bitmaps (BMP), written from the file format description
(BITMAPFILEHEADER + BITMAPINFOHEADER), independent of pdfminer's writer.

Layout (all integers little-endian):
    BITMAPFILEHEADER (14 bytes)   bfType 'BM' | bfSize u32 | bfReserved1 u16 | bfReserved2 u16 | bfOffBits u32
    BITMAPINFOHEADER (40 bytes)   biSize u32 (=40) | biWidth i32 | biHeight i32 | biPlanes u16 (=1) | biBitCount u16 |
                                  biCompression u32 | biSizeImage u32 | biXPelsPerMeter i32 | biYPelsPerMeter i32 |
                                  biClrUsed u32 | biClrImportant u32
    colour table                  biClrUsed (or 2**biBitCount when 0) RGBQUAD entries  blue, green, red, reserved
                                  for biBitCount <= 8; none for 24
    pixel array at bfOffBits      |biHeight| rows of ((biWidth*biBitCount + 31) // 32) * 4 bytes each; the FIRST stored
                                  row is the BOTTOM row of the picture when biHeight > 0 (top row when biHeight < 0);
                                  1-bit: most significant bit = leftmost pixel, value = colour-table index;
                                  8-bit: one index per byte; 24-bit: blue, green, red per pixel.

`read_bmp(data)` returns a `Bitmap` whose `pixels` is a list of rows (top row first) of (r, g, b) tuples and whose
`indices` is the same for colour-table indices (None for 24-bit).  Everything a conforming reader may rely on is
checked; any deviation raises `BMPError` (with `.code`).  Only what this reader needs is supported: BI_RGB
(uncompressed), 1/8/24 bits per pixel.  Padding bytes/bits are not interpreted.
"""
import struct


class BMPError(Exception):
    def __init__(self, code, msg):
        Exception.__init__(self, "%s: %s" % (code, msg))
        self.code = code


class Bitmap:
    __slots__ = ("width", "height", "bitcount", "palette", "pixels", "indices", "top_down", "stride")

    def __init__(self, width, height, bitcount, palette, pixels, indices, top_down, stride):
        self.width, self.height, self.bitcount = width, height, bitcount
        self.palette, self.pixels, self.indices = palette, pixels, indices
        self.top_down, self.stride = top_down, stride


def row_stride(width, bitcount):
    return ((width * bitcount + 31) // 32) * 4


def read_bmp(data):
    data = bytes(data)
    n = len(data)
    if n < 14:
        raise BMPError("short-file-header", "file has %d bytes, BITMAPFILEHEADER needs 14" % n)
    magic, bf_size, res1, res2, off_bits = struct.unpack_from("<2sIHHI", data, 0)
    if magic != b"BM":
        raise BMPError("magic", "file starts with %r, not 'BM'" % magic)
    if n < 14 + 40:
        raise BMPError("short-info-header", "file has %d bytes, headers need 54" % n)
    (bi_size, width, height, planes, bitcount, compression, size_image, _xppm, _yppm, clr_used,
     clr_important) = struct.unpack_from("<IiiHHIIiiII", data, 14)
    if bi_size != 40:
        raise BMPError("info-size", "biSize=%d, only BITMAPINFOHEADER (40) is supported" % bi_size)
    if res1 != 0 or res2 != 0:
        raise BMPError("reserved", "bfReserved1/2 = %d/%d, must be 0" % (res1, res2))
    if planes != 1:
        raise BMPError("planes", "biPlanes=%d, must be 1" % planes)
    if compression != 0:
        raise BMPError("compression", "biCompression=%d, only BI_RGB (0) is supported" % compression)
    if bitcount not in (1, 8, 24):
        raise BMPError("bitcount", "biBitCount=%d not supported by this reader (1, 8, 24)" % bitcount)
    if width <= 0:
        raise BMPError("width", "biWidth=%d must be positive" % width)
    if height == 0:
        raise BMPError("height", "biHeight=0")
    top_down = height < 0
    rows = -height if top_down else height
    # ---- colour table
    if bitcount <= 8:
        ncol = clr_used if clr_used != 0 else (1 << bitcount)
        if ncol > (1 << bitcount):
            raise BMPError("clr-used", "biClrUsed=%d exceeds 2**%d" % (clr_used, bitcount))
    else:
        ncol = clr_used  # optional optimisation table for 24-bit; pdf writers do not use it
    if clr_important > max(ncol, 0) and clr_important != 0:
        raise BMPError("clr-important", "biClrImportant=%d exceeds the colour table (%d)" % (clr_important, ncol))
    table_end = 14 + 40 + 4 * ncol
    if n < table_end:
        raise BMPError("short-colour-table", "file has %d bytes, headers + colour table need %d" % (n, table_end))
    palette = []
    for i in range(ncol):
        b, g, r, _reserved = struct.unpack_from("<BBBB", data, 54 + 4 * i)
        palette.append((r, g, b))
    # ---- pixel array
    if off_bits < table_end:
        raise BMPError("off-bits", "bfOffBits=%d points into the headers/colour table (end %d)" % (off_bits, table_end))
    stride = row_stride(width, bitcount)
    need = stride * rows
    if size_image not in (0, need):
        raise BMPError("size-image", "biSizeImage=%d, expected 0 or %d (= %d rows of %d bytes)" % (
            size_image, need, rows, stride))
    if bf_size != n:
        raise BMPError("file-size", "bfSize=%d but the file has %d bytes (pixel array needs %d..%d)" % (
            bf_size, n, off_bits, off_bits + need))
    if off_bits + need > n:
        raise BMPError("short-pixel-array", "pixel array needs bytes %d..%d, file has %d" % (off_bits, off_bits + need, n))
    if off_bits + need != n:
        raise BMPError("trailing-bytes", "%d bytes after the pixel array" % (n - off_bits - need))
    pix_rows = []
    idx_rows = [] if bitcount <= 8 else None
    for k in range(rows):
        row = data[off_bits + k * stride: off_bits + (k + 1) * stride]
        if bitcount == 24:
            pix_rows.append([(row[3 * x + 2], row[3 * x + 1], row[3 * x]) for x in range(width)])
        else:
            if bitcount == 8:
                idx = list(row[:width])
            else:
                idx = [(row[x >> 3] >> (7 - (x & 7))) & 1 for x in range(width)]
            for x, v in enumerate(idx):
                if v >= ncol:
                    raise BMPError("index-range", "pixel (%d, stored row %d) has index %d, colour table has %d" % (
                        x, k, v, ncol))
            idx_rows.append(idx)
            pix_rows.append([palette[v] for v in idx])
    if not top_down:
        pix_rows.reverse()
        if idx_rows is not None:
            idx_rows.reverse()
    return Bitmap(width, rows, bitcount, palette, pix_rows, idx_rows, top_down, stride)


# --------------------------------------------------------------------------
def write_bmp_reference(width, height, bitcount, rows_rgb_or_idx, palette=None, top_down=False, pad=0xAA):
    """Reference *writer* used only by selfcheck(): builds a file straight from the layout above
    (independent code path from read_bmp; nonzero padding so that the reader cannot depend on it)."""
    stride = row_stride(width, bitcount)
    body = bytearray()
    order = rows_rgb_or_idx if top_down else rows_rgb_or_idx[::-1]
    for row in order:
        if bitcount == 24:
            b = bytearray()
            for (r, g, bl) in row:
                b += bytes((bl, g, r))
        elif bitcount == 8:
            b = bytearray(row)
        else:
            b = bytearray((width + 7) // 8)
            for x, v in enumerate(row):
                if v:
                    b[x >> 3] |= 0x80 >> (x & 7)
            if width & 7:
                b[-1] |= (0xFF >> (width & 7)) & pad  # junk in the unused low bits
        b += bytes([pad]) * (stride - len(b))
        body += b
    pal = b""
    ncol = 0
    if bitcount <= 8:
        ncol = len(palette)
        for (r, g, bl) in palette:
            pal += bytes((bl, g, r, 0))
    off = 14 + 40 + len(pal)
    info = struct.pack("<IiiHHIIiiII", 40, width, -height if top_down else height, 1, bitcount, 0, len(body), 2835,
                       2835, ncol if bitcount <= 8 and ncol != (1 << bitcount) else 0, 0)
    head = b"BM" + struct.pack("<IHHI", off + len(body), 0, 0, off)
    return head + info + pal + bytes(body)


# A 2x2 24-bit file taken byte for byte from the widely reproduced worked example of the format
# (red, white / blue, green stored bottom row first, BGR, rows padded to 8 bytes):
_EXAMPLE_2x2 = bytes.fromhex(
    "424d" "46000000" "0000" "0000" "36000000"
    "28000000" "02000000" "02000000" "0100" "1800" "00000000" "10000000" "130b0000" "130b0000" "00000000" "00000000"
    "0000ff" "ffffff" "0000"
    "ff0000" "00ff00" "0000")


def selfcheck():
    import random

    bm = read_bmp(_EXAMPLE_2x2)
    assert (bm.width, bm.height, bm.bitcount, bm.stride) == (2, 2, 24, 8)
    # stored first = bottom row: red, white; stored second = top row: blue, green
    assert bm.pixels == [[(0, 0, 255), (0, 255, 0)], [(255, 0, 0), (255, 255, 255)]], bm.pixels
    r = random.Random(5)
    for bitcount in (1, 8, 24):
        for (w, h) in ((1, 1), (3, 2), (8, 3), (9, 1), (31, 2), (32, 2), (33, 3), (40, 5), (5, 7)):
            for top_down in (False, True):
                if bitcount == 24:
                    rows = [[(r.randrange(256), r.randrange(256), r.randrange(256)) for _ in range(w)] for _ in range(h)]
                    pal = None
                else:
                    ncol = 1 << bitcount
                    pal = [(r.randrange(256), r.randrange(256), r.randrange(256)) for _ in range(ncol)]
                    rows = [[r.randrange(ncol) for _ in range(w)] for _ in range(h)]
                f = write_bmp_reference(w, h, bitcount, rows, pal, top_down)
                bm = read_bmp(f)
                assert (bm.width, bm.height, bm.bitcount, bm.top_down) == (w, h, bitcount, top_down)
                if bitcount == 24:
                    assert bm.pixels == rows
                else:
                    assert bm.indices == rows
                    assert bm.pixels == [[pal[v] for v in row] for row in rows]
                # strictness: every single-field corruption / truncation / extension must be rejected
                for bad, code in ((f[:-1], "file-size"), (f + b"\0", "file-size"), (b"BN" + f[2:], "magic")):
                    try:
                        read_bmp(bad)
                    except BMPError as e:
                        assert e.code == code, (e.code, code)
                    else:
                        raise AssertionError("reader accepted a corrupt file (%s)" % code)
                g = bytearray(f[:-1])
                g[2:6] = struct.pack("<I", len(g))
                try:
                    read_bmp(bytes(g))
                except BMPError as e:
                    assert e.code == "short-pixel-array", e.code
                else:
                    raise AssertionError("reader accepted a truncated pixel array")
