"""Layout of sorted (key, value) entries as ISO 32000-1 7.9.6 name trees / 7.9.7 number trees.

The abstract data (the mapping) is produced first; this module only decides the *shape*: a root that holds the
entries itself (`Names`/`Nums`), or `Kids` down to a given depth with `Limits` on every non-root node, balanced,
degenerate (single-kid chains, caterpillars) or random, every node either written in place (direct) or as an
indirect object.  `flatten`/`check_tree` are an independent reader of the abstract structure used by selfcheck.
"""
from __future__ import annotations

from vlib.pdfwrite import R, is_ref


class Alloc:
    """Hands out object numbers; optionally from a pre-shuffled pool so that numbering != document order."""

    def __init__(self, objs, first, pool=None):
        self.objs = objs
        self.next = first
        self.pool = list(pool) if pool else None

    def new(self, value=None):
        if self.pool:
            n = self.pool.pop()
        else:
            n = self.next
            self.next += 1
        assert n not in self.objs
        self.objs[n] = value
        return n


STYLES = ("flat", "balanced", "chain", "caterpillar", "random")


def _cuts(rng, n, k):
    """k non-empty contiguous group sizes summing to n, random."""
    if k <= 1:
        return [n]
    pts = sorted(rng.sample(range(1, n), k - 1))
    return [b - a for a, b in zip([0] + pts, pts + [n])]


def layout(entries, arr_key, style, depth, fanout, p_direct, shuffle, rng, alloc):
    """entries: list of (key, value) sorted by key, keys distinct.  Returns (root dict, info).
    info = {"depth": levels of Kids below the root, "leaves": [[keys of one leaf], ...] in key order,
            "direct": n, "indirect": n (non-root nodes), "shuffled": bool}"""
    assert style in STYLES
    info = {"depth": 0, "leaves": [], "direct": 0, "indirect": 0, "shuffled": False}
    if not entries or style == "flat" or depth <= 0:
        flat = []
        for k, v in entries:
            flat += [k, v]
        info["leaves"].append([k for k, _ in entries])
        return {arr_key: flat}, info

    def wrap(d):
        if rng.random() < p_direct:
            info["direct"] += 1
            return d
        info["indirect"] += 1
        return R(alloc.new(d))

    def node(ents, dep, level, is_root):
        d = {}
        if not is_root:
            d[b"Limits"] = [ents[0][0], ents[-1][0]]
        if dep == 0:
            flat = []
            for k, v in ents:
                flat += [k, v]
            d[arr_key] = flat
            info["leaves"].append([k for k, _ in ents])
            info["depth"] = max(info["depth"], level)
            return d
        n = len(ents)
        if style == "balanced":
            k = min(n, fanout)
            sizes = [n // k + (1 if i < n % k else 0) for i in range(k)]
            deps = [dep - 1] * k
        elif style == "chain":
            sizes, deps = [n], [dep - 1]
        elif style == "caterpillar":
            if n == 1:
                sizes, deps = [1], [dep - 1]
            elif rng.random() < 0.5:
                sizes, deps = [1, n - 1], [0, dep - 1]
            else:
                sizes, deps = [n - 1, 1], [dep - 1, 0]
        else:
            k = rng.randint(1, min(n, fanout))
            sizes = _cuts(rng, n, k)
            deps = [rng.randint(0, dep - 1) for _ in range(k)]
            deps[rng.randrange(k)] = dep - 1
        kids = []
        pos = 0
        for sz, dp in zip(sizes, deps):
            kids.append((ents[pos:pos + sz], dp))
            pos += sz
        built = [wrap(node(g, dp, level + 1, False)) for g, dp in kids]
        if shuffle and len(built) > 1:
            order = list(range(len(built)))
            rng.shuffle(order)
            if order != sorted(order):
                info["shuffled"] = True
            built = [built[i] for i in order]
        d[b"Kids"] = built
        return d

    return node(list(entries), depth, 0, True), info


# --------------------------------------------------------------------------
# independent reader of the abstract structure (selfcheck only)
def flatten(root, arr_key, objs):
    """All (key, value) pairs of the tree in node order, checking the structural rules of 7.9.6/7.9.7."""
    out = []

    def deref(x):
        return objs[x[1]] if is_ref(x) else x

    def walk(d, is_root):
        d = deref(d)
        assert isinstance(d, dict)
        has_kids, has_arr = b"Kids" in d, arr_key in d
        assert has_kids != has_arr, "exactly one of Kids / %r" % arr_key
        assert (b"Limits" in d) == (not is_root), "Limits on non-root nodes only"
        mine = []
        if has_arr:
            a = d[arr_key]
            assert len(a) % 2 == 0
            mine = [(a[i], a[i + 1]) for i in range(0, len(a), 2)]
            ks = [k for k, _ in mine]
            assert ks == sorted(ks) and len(set(ks)) == len(ks), "leaf keys sorted and distinct"
        else:
            assert d[b"Kids"], "Kids not empty"
            for c in d[b"Kids"]:
                mine += walk(c, False)
        if not is_root:
            ks = [k for k, _ in mine]
            assert ks and d[b"Limits"] == [min(ks), max(ks)], "Limits = least and greatest key below"
        return mine

    out = walk(root, True)
    return out


def check_tree(root, arr_key, objs, entries):
    got = flatten(root, arr_key, objs)
    assert sorted(got, key=lambda kv: kv[0]) == list(entries), "tree holds exactly the entries"
    # sibling subtrees must cover disjoint key intervals
    def spans(d):
        d = objs[d[1]] if is_ref(d) else d
        if b"Kids" in d:
            iv = []
            for c in d[b"Kids"]:
                cc = objs[c[1]] if is_ref(c) else c
                iv.append(tuple(cc[b"Limits"]))
                spans(c)
            iv.sort()
            for a, b in zip(iv, iv[1:]):
                assert a[1] < b[0], "sibling Limits overlap"
    spans(root)
    return True
