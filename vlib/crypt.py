"""PDF standard security handler -- the *encrypting* side, written from the specifications.

Sources: ISO 32000-1:2008 7.6 (Algorithms 1-7; in ISO 32000-2 numbering 1, 2, 3, 4, 5), ISO 32000-2:2020 7.6.4
(Algorithms 1.A, 2.A, 2.B, 8, 9, 10), Adobe Supplement to ISO 32000 ExtensionLevel 3 (revision 5), RFC 4013
(SASLprep) over RFC 3454 tables (stdlib `stringprep`, Unicode 3.2 NFKC from `unicodedata.ucd_3_2_0`).

Own RC4; AES through the `cryptography` package's *encryptor* only (the decryptor is used in `selfcheck`
to validate this module's output and to re-derive keys of third-party sample files).  Nothing here imports pdfminer.

Abstract PDF values are those of vlib.pdfwrite.
"""
from __future__ import annotations

import hashlib
import stringprep
import struct
import unicodedata
import zlib

from cryptography.hazmat.primitives.ciphers import Cipher, algorithms, modes

from vlib import pdfwrite as W

# ISO 32000-1 7.6.3.3, Algorithm 2 step (a): the 32-byte padding string
PAD = bytes.fromhex("28BF4E5E4E758A4164004E56FFFA0108" "2E2E00B6D0683E802F0CA9FE6453697A")


# --------------------------------------------------------------------------
# primitives
# --------------------------------------------------------------------------
def rc4(key: bytes, data: bytes) -> bytes:
    """RC4 (symmetric): key schedule + PRGA, written from the public description."""
    if not key:
        raise ValueError("empty RC4 key")
    s = list(range(256))
    j = 0
    kl = len(key)
    for i in range(256):
        j = (j + s[i] + key[i % kl]) & 255
        s[i], s[j] = s[j], s[i]
    out = bytearray(len(data))
    i = j = 0
    for k, b in enumerate(data):
        i = (i + 1) & 255
        si = s[i]
        j = (j + si) & 255
        sj = s[j]
        s[i] = sj
        s[j] = si
        out[k] = b ^ s[(si + sj) & 255]
    return bytes(out)


def aes_cbc_nopad(key: bytes, iv: bytes, data: bytes) -> bytes:
    if len(data) % 16:
        raise ValueError("AES-CBC without padding needs whole blocks")
    e = Cipher(algorithms.AES(key), modes.CBC(iv)).encryptor()
    return e.update(data) + e.finalize()


def pkcs7(data: bytes) -> bytes:
    """ISO 32000-1 7.6.2: pad to a multiple of 16 with n bytes of value n, 1 <= n <= 16 (always added)."""
    n = 16 - len(data) % 16
    return data + bytes([n]) * n


def aes_cbc_pkcs7(key: bytes, iv: bytes, data: bytes) -> bytes:
    """Algorithm 1 / 1.A for AES: 16-byte IV stored in front of the CBC ciphertext of the padded data."""
    if len(iv) != 16:
        raise ValueError("IV must be 16 bytes")
    return iv + aes_cbc_nopad(key, iv, pkcs7(data))


def aes_ecb_block(key: bytes, block: bytes) -> bytes:
    if len(block) != 16:
        raise ValueError("one block expected")
    e = Cipher(algorithms.AES(key), modes.ECB()).encryptor()
    return e.update(block) + e.finalize()


def _aes_cbc_decrypt(key, iv, data):  # selfcheck only
    d = Cipher(algorithms.AES(key), modes.CBC(iv)).decryptor()
    return d.update(data) + d.finalize()


def _aes_ecb_decrypt(key, data):  # selfcheck only
    d = Cipher(algorithms.AES(key), modes.ECB()).decryptor()
    return d.update(data) + d.finalize()


# --------------------------------------------------------------------------
# password preparation
# --------------------------------------------------------------------------
class PasswordNotRepresentable(ValueError):
    pass


def saslprep(s: str, allow_unassigned: bool = False) -> str:
    """RFC 4013 (stored strings unless allow_unassigned)."""
    # 2.1 mapping: non-ASCII spaces (C.1.2) -> SPACE, "commonly mapped to nothing" (B.1) -> nothing
    mapped = []
    for ch in s:
        if stringprep.in_table_b1(ch):
            continue
        mapped.append(" " if stringprep.in_table_c12(ch) else ch)
    # 2.2 normalisation: KC, Unicode 3.2
    s = unicodedata.ucd_3_2_0.normalize("NFKC", "".join(mapped))
    # 2.3 prohibited output
    for ch in s:
        if (stringprep.in_table_c12(ch) or stringprep.in_table_c21(ch) or stringprep.in_table_c22(ch)
                or stringprep.in_table_c3(ch) or stringprep.in_table_c4(ch) or stringprep.in_table_c5(ch)
                or stringprep.in_table_c6(ch) or stringprep.in_table_c7(ch) or stringprep.in_table_c8(ch)
                or stringprep.in_table_c9(ch)):
            raise PasswordNotRepresentable("prohibited character U+%04X" % ord(ch))
        if not allow_unassigned and stringprep.in_table_a1(ch):
            raise PasswordNotRepresentable("unassigned code point U+%04X" % ord(ch))
    # 2.4 bidi (RFC 3454 section 6)
    randal = [stringprep.in_table_d1(ch) for ch in s]
    if any(randal):
        if any(stringprep.in_table_d2(ch) for ch in s):
            raise PasswordNotRepresentable("RandALCat and LCat mixed")
        if not (randal[0] and randal[-1]):
            raise PasswordNotRepresentable("RandALCat string must start and end with RandALCat")
    return s


def prep_password(pw: str, R: int) -> bytes:
    """The byte string that enters the algorithms for revision R (what makes two typed passwords `the same`).

    R <= 4: PDFDocEncoding bytes, padded/truncated to 32 (Algorithm 2 step a).  Only characters whose
            PDFDocEncoding code equals the Latin-1 code are representable here (U+0020-7E, U+00A1-FF except AD).
    R 5/6 : SASLprep, UTF-8, first 127 bytes (ISO 32000-2 7.6.4.3.2 / Adobe Supplement 3.5.2)."""
    if R <= 4:
        for ch in pw:
            o = ord(ch)
            if not (0x20 <= o <= 0x7E or (0xA1 <= o <= 0xFF and o != 0xAD)):
                raise PasswordNotRepresentable("U+%04X outside the PDFDocEncoding/Latin-1 common range" % o)
        return (pw.encode("latin-1") + PAD)[:32]
    return saslprep(pw).encode("utf-8")[:127]


# --------------------------------------------------------------------------
# revisions 2-4
# --------------------------------------------------------------------------
def _xor(key, i):
    return bytes(b ^ i for b in key)


def alg2_key(padded_user: bytes, O: bytes, P: int, id0: bytes, R: int, n: int, encrypt_metadata: bool) -> bytes:
    """Algorithm 2: file encryption key (n bytes) from the padded user password."""
    m = hashlib.md5()
    m.update(padded_user)  # a, b
    m.update(O)  # c
    m.update(struct.pack("<I", P & 0xFFFFFFFF))  # d: low-order byte first
    m.update(id0)  # e
    if R >= 4 and not encrypt_metadata:
        m.update(b"\xff\xff\xff\xff")  # f
    h = m.digest()  # g
    if R >= 3:
        for _ in range(50):  # h
            h = hashlib.md5(h[:n]).digest()
    return h[:n]  # i


def alg3_O(padded_owner: bytes, padded_user: bytes, R: int, n: int) -> bytes:
    """Algorithm 3: the O entry."""
    h = hashlib.md5(padded_owner).digest()  # a, b
    if R >= 3:
        for _ in range(50):  # c
            h = hashlib.md5(h).digest()
    key = h[:n]  # d
    x = rc4(key, padded_user)  # e, f
    if R >= 3:
        for i in range(1, 20):  # g
            x = rc4(_xor(key, i), x)
    return x


def alg4_U(key: bytes) -> bytes:
    """Algorithm 4 (revision 2)."""
    return rc4(key, PAD)


def alg5_U(key: bytes, id0: bytes, tail: bytes) -> bytes:
    """Algorithm 5 (revision 3, 4): 16 significant bytes + 16 bytes of arbitrary padding."""
    if len(tail) != 16:
        raise ValueError("16 arbitrary bytes expected")
    x = rc4(key, hashlib.md5(PAD + id0).digest())  # b, c, d
    for i in range(1, 20):  # e
        x = rc4(_xor(key, i), x)
    return x + tail  # f


def alg1_object_key(file_key: bytes, n: int, g: int, aes: bool) -> bytes:
    """Algorithm 1 steps a-d."""
    m = hashlib.md5(file_key + struct.pack("<I", n)[:3] + struct.pack("<I", g)[:2] + (b"sAlT" if aes else b""))
    return m.digest()[:min(len(file_key) + 5, 16)]


# --------------------------------------------------------------------------
# revisions 5, 6
# --------------------------------------------------------------------------
def hash_r5(pw: bytes, salt: bytes, udata: bytes = b"") -> bytes:
    return hashlib.sha256(pw + salt + udata).digest()


def hash_2b(pw: bytes, salt: bytes, udata: bytes = b"") -> bytes:
    """Algorithm 2.B (revision 6)."""
    k = hashlib.sha256(pw + salt + udata).digest()
    rounds = 0
    while True:
        k1 = (pw + k + udata) * 64  # a
        e = aes_cbc_nopad(k[:16], k[16:32], k1)  # b
        r = int.from_bytes(e[:16], "big") % 3  # c
        k = (hashlib.sha256, hashlib.sha384, hashlib.sha512)[r](e).digest()  # d
        rounds += 1
        if rounds >= 64 and e[-1] <= rounds - 32:  # e, f
            break
    return k[:32]


def alg8_U_UE(pw: bytes, file_key: bytes, vsalt: bytes, ksalt: bytes, R: int):
    h = hash_2b if R == 6 else hash_r5
    U = h(pw, vsalt) + vsalt + ksalt
    UE = aes_cbc_nopad(h(pw, ksalt), b"\0" * 16, file_key)
    return U, UE


def alg9_O_OE(pw: bytes, file_key: bytes, vsalt: bytes, ksalt: bytes, U: bytes, R: int):
    h = hash_2b if R == 6 else hash_r5
    O = h(pw, vsalt, U) + vsalt + ksalt
    OE = aes_cbc_nopad(h(pw, ksalt, U), b"\0" * 16, file_key)
    return O, OE


def alg10_perms(P: int, encrypt_metadata: bool, file_key: bytes, tail: bytes) -> bytes:
    if len(tail) != 4:
        raise ValueError("4 arbitrary bytes expected")
    block = struct.pack("<I", P & 0xFFFFFFFF) + b"\xff\xff\xff\xff" + (b"T" if encrypt_metadata else b"F") + b"adb" + tail
    return aes_ecb_block(file_key, block)


# --------------------------------------------------------------------------
def make_P(print_ok: bool, modify_ok: bool, extract_ok: bool, other_bits: int = 0) -> int:
    """P as a signed 32-bit integer.  Bits (1-based) 1-2 zero, 7-8 and 13-32 one (ISO 32000-1 Table 22);
    bits 3,4,5 from the arguments; other_bits may set bits 6, 9, 10, 11, 12 (mask 0xF20)."""
    v = 0xFFFFF0C0 | (other_bits & 0xF20)
    if print_ok:
        v |= 4
    if modify_ok:
        v |= 8
    if extract_ok:
        v |= 16
    return v - (1 << 32)


class Handler:
    """One configured standard security handler able to encrypt strings and streams.

    params: V, R, bits (file key length), cfm in {None (V1/V2), "V2", "AESV2", "AESV3", "Identity"},
            encrypt_metadata, P (signed), id0 (bytes, b"" when the file has no /ID),
            user, owner (typed passwords, str), rnd (random.Random: salts, IVs, file key, arbitrary bytes),
            write_length / write_em (spelling of optional entries).
    """

    def __init__(self, V, R, bits, cfm, encrypt_metadata, P, id0, user, owner, rnd, write_length=True, write_em=True,
                 identity_cf=True, identity_explicit=True):
        self.V, self.R, self.bits, self.cfm = V, R, bits, cfm
        self.encrypt_metadata = encrypt_metadata
        self.P = P
        self.rnd = rnd
        self.write_length, self.write_em, self.identity_cf = write_length, write_em, identity_cf
        self.identity_explicit = identity_explicit  # False: StmF/StrF omitted, their default is /Identity (Table 20)
        combos = {(1, 2): (None,), (2, 3): (None,), (4, 4): ("V2", "AESV2", "Identity"), (5, 5): ("AESV3",),
                  (5, 6): ("AESV3",)}
        if (V, R) not in combos or cfm not in combos[(V, R)]:
            raise ValueError("unsupported combination V=%r R=%r cfm=%r" % (V, R, cfm))
        if R == 2 and bits != 40 or R == 3 and not (40 <= bits <= 128 and bits % 8 == 0) or R == 4 and bits != 128 \
                or R >= 5 and bits != 256:
            raise ValueError("key length %r not valid for R=%r" % (bits, R))
        n = bits // 8
        rb = lambda k: bytes(rnd.getrandbits(8) for _ in range(k))  # noqa: E731
        self.extra = {}
        if R <= 4:
            em = encrypt_metadata if R >= 4 else True
            pu = prep_password(user, R)
            # Algorithm 3 step a: "If there is no owner password, use the user password instead."
            po = prep_password(owner, R) if owner != "" else pu
            self.O = alg3_O(po, pu, R, n)
            self.key = alg2_key(pu, self.O, P, id0, R, n, em)
            self.U = alg4_U(self.key) if R == 2 else alg5_U(self.key, id0, rb(16))
        else:
            pu = prep_password(user, R)
            po = prep_password(owner, R)
            self.key = rb(32)
            self.U, UE = alg8_U_UE(pu, self.key, rb(8), rb(8), R)
            self.O, OE = alg9_O_OE(po, self.key, rb(8), rb(8), self.U, R)
            self.extra = {b"OE": OE, b"UE": UE, b"Perms": alg10_perms(P, encrypt_metadata, self.key, rb(4))}

    # -- /Encrypt dictionary -------------------------------------------------
    def encrypt_dict(self):
        d = {b"Filter": W.N("Standard"), b"V": self.V, b"R": self.R}
        if self.write_length or (self.R == 3 and self.bits != 40):
            # optional for V1 (always 40), defaults to 40 for V2/V3; for V4 and V5 the key length is given by the crypt
            # filter (128 for V2/AESV2, 256 for AESV3) and the top-level entry may be left out
            d[b"Length"] = self.bits
        if self.V >= 4:
            if self.cfm == "Identity":
                if self.identity_cf:
                    d[b"CF"] = {}
                if self.identity_explicit:
                    d[b"StmF"] = W.N("Identity")
                    d[b"StrF"] = W.N("Identity")
            else:
                d[b"CF"] = {b"StdCF": {b"Type": W.N("CryptFilter"), b"CFM": W.N(self.cfm), b"AuthEvent": W.N("DocOpen"),
                                       b"Length": self.bits // 8}}
                d[b"StmF"] = W.N("StdCF")
                d[b"StrF"] = W.N("StdCF")
            if not self.encrypt_metadata or self.write_em:
                d[b"EncryptMetadata"] = self.encrypt_metadata
        d[b"O"] = self.O
        d[b"U"] = self.U
        d.update(self.extra)
        d[b"P"] = self.P
        return d

    # -- data ----------------------------------------------------------------
    def _crypt(self, n, g, data):
        if self.cfm == "Identity":
            return data
        if self.cfm == "AESV3":
            iv = bytes(self.rnd.getrandbits(8) for _ in range(16))
            return aes_cbc_pkcs7(self.key, iv, data)  # Algorithm 1.A
        if self.cfm == "AESV2":
            iv = bytes(self.rnd.getrandbits(8) for _ in range(16))
            return aes_cbc_pkcs7(alg1_object_key(self.key, n, g, True), iv, data)
        return rc4(alg1_object_key(self.key, n, g, False), data)

    def enc_string(self, n, g, s):
        return self._crypt(n, g, s)

    def enc_stream(self, n, g, d, data):
        """d: the stream dictionary in plaintext.  The document-level metadata stream stays in clear when
        EncryptMetadata is false (V >= 4 only)."""
        if self.V >= 4 and not self.encrypt_metadata and d.get(b"Type") == W.N("Metadata"):
            return data
        return self._crypt(n, g, data)

    def enc_value(self, n, g, v):
        """Every string of an indirect object's value (incl. those of a stream dictionary) and the stream payload."""
        if isinstance(v, (bytes, bytearray)):
            return self.enc_string(n, g, bytes(v))
        if isinstance(v, list):
            return [self.enc_value(n, g, x) for x in v]
        if isinstance(v, dict):
            return {k: self.enc_value(n, g, x) for k, x in v.items()}
        if W.is_stream(v):
            d = {k: self.enc_value(n, g, x) for k, x in v[1].items()}
            return ("S", d, self.enc_stream(n, g, v[1], v[2]))
        return v


# --------------------------------------------------------------------------
# file assembly
# --------------------------------------------------------------------------
def objstm_value(members, compress, extra=None):
    """members: list of (n, value) -> ("S", dict, payload) of an object stream (ISO 32000-1 7.5.7)."""
    bodies = []
    head = []
    off = 0
    for n, v in members:
        if W.is_stream(v):
            raise ValueError("streams cannot be object-stream members")
        b = W.ser(v) + b"\n"
        head.append(b"%d %d" % (n, off))
        bodies.append(b)
        off += len(b)
    h = b" ".join(head) + b"\n"
    payload = h + b"".join(bodies)
    d = {b"Type": W.N("ObjStm"), b"N": len(members), b"First": len(h)}
    if extra:
        d.update(extra)
    if compress:
        d[b"Filter"] = W.N("FlateDecode")
        return ("S", d, zlib.compress(payload)), payload
    return ("S", d, payload), payload


def build_file(objs, gens, trailer, handler=None, objstms=None, xref="table", xref_objnum=None, xref_compress=False,
               encrypt_objnum=None, length_refs=None, order=None, header=b"%PDF-1.7\n%\xe2\xe3\xcf\xd3\n", info=None,
               xref_narrow=False):
    """Serialise one single-revision file.

    objs: {n: value} all indirect objects in plaintext (object streams included as ("S", ...) values whose
          payload was produced by objstm_value);  gens: {n: generation} (default 0).
    trailer: dict of trailer entries except Size/Encrypt (Root, Info, ID ...).
    objstms: {objstm number: [member numbers in payload order]} -- members are NOT written or encrypted separately.
    handler: None for the plaintext original, else every string/stream of every uncompressed object is encrypted
             with (n, gen); the /Encrypt dictionary is direct in the trailer or, with encrypt_objnum, an indirect
             object that is itself exempt from encryption.  Trailer and cross-reference stream are never encrypted.
    length_refs: {stream number: number of the integer object holding its /Length}.
    info: optional dict receiving "xref_data" (the decoded payload of the cross-reference stream).
    """
    objstms = objstms or {}
    length_refs = length_refs or {}
    member_of = {}
    for sn, mem in objstms.items():
        for i, m in enumerate(mem):
            member_of[m] = (sn, i)
            if gens.get(m, 0) != 0:
                raise ValueError("compressed object with non-zero generation")
        if gens.get(sn, 0) != 0:
            raise ValueError("object stream with non-zero generation")
    final = {}
    for n, v in objs.items():
        if n in member_of or n in length_refs.values():
            continue
        g = gens.get(n, 0)
        ev = handler.enc_value(n, g, v) if handler is not None else v
        if n in length_refs:
            d = dict(ev[1])
            d[b"Length"] = W.R(length_refs[n], gens.get(length_refs[n], 0))
            final[length_refs[n]] = len(ev[2])
            ev = ("S", d, ev[2])
        final[n] = ev
    tr = dict(trailer)
    if handler is not None:
        if encrypt_objnum is not None:
            if encrypt_objnum in final:
                raise ValueError("object number of /Encrypt in use")
            final[encrypt_objnum] = handler.encrypt_dict()
            tr[b"Encrypt"] = W.R(encrypt_objnum, gens.get(encrypt_objnum, 0))
        else:
            tr[b"Encrypt"] = handler.encrypt_dict()
    out = bytearray(header)
    offs = {}
    seq = [n for n in (order or sorted(final)) if n in final]
    if sorted(seq) != sorted(final):
        raise ValueError("order does not cover the objects")
    for n in seq:
        offs[n] = len(out)
        out += W.obj_bytes(n, gens.get(n, 0), final[n])
    nums = set(offs) | set(member_of)
    if xref == "table":
        if member_of:
            raise ValueError("object streams need a cross-reference stream")
        ent = {0: (0, 65535, "f")}
        for n in offs:
            ent[n] = (offs[n], gens.get(n, 0), "n")
        x = len(out)
        out += W.xref_table(ent)
        tr[b"Size"] = max(nums) + 1
        out += b"trailer\n" + W.ser(tr) + b"\nstartxref\n%d\n%%%%EOF\n" % x
        return bytes(out)
    # cross-reference stream (ISO 32000-1 7.5.8): never encrypted, strings of its dictionary neither
    if xref_objnum is None or xref_objnum in nums:
        raise ValueError("cross-reference stream needs a free object number")
    x = len(out)
    offs[xref_objnum] = x
    nums.add(xref_objnum)
    allnums = sorted(nums | {0})
    index = []
    data = bytearray()
    i = 0
    while i < len(allnums):
        j = i
        while j + 1 < len(allnums) and allnums[j + 1] == allnums[j] + 1:
            j += 1
        index += [allnums[i], j - i + 1]
        i = j + 1
    for n in allnums:
        if n == 0:
            data += b"\x00" + struct.pack(">IH", 0, 65535)
        elif n in member_of:
            sn, idx = member_of[n]
            data += b"\x02" + struct.pack(">IH", sn, idx)
        else:
            data += b"\x01" + struct.pack(">IH", offs[n], gens.get(n, 0))
    widths = [1, 4, 2]
    if xref_narrow and not member_of and not any(gens.get(n, 0) for n in allnums):
        # fields as narrow as the values allow: the third field (generation, default 0) is left out altogether
        w2 = 2 if max(offs[n] for n in allnums if n) < 65536 else 3 if len(out) < 2 ** 24 else 4
        widths = [1, w2, 0]
        data = bytearray(b"".join(bytes([data[k]]) + data[k + 5 - w2:k + 5] for k in range(0, len(data), 7)))
    d = {b"Type": W.N("XRef"), b"Size": max(nums) + 1, b"W": widths, b"Index": index}
    d.update(tr)
    payload = bytes(data)
    if info is not None:
        info["xref_data"] = payload
    if xref_compress:
        d[b"Filter"] = W.N("FlateDecode")
        payload = zlib.compress(payload)
    out += W.obj_bytes(xref_objnum, 0, ("S", d, payload))
    out += b"startxref\n%d\n%%%%EOF\n" % x
    return bytes(out)


# --------------------------------------------------------------------------
# validation of this module (called from props/c10.selfcheck)
# --------------------------------------------------------------------------
def _trailer_encrypt(path):
    """Tiny extraction of /Encrypt values + first /ID string from a sample file written by a third party.
    Only used to obtain test vectors; understands literal and hex strings."""
    import re

    raw = open(path, "rb").read()

    def pdf_string(at):
        if raw[at:at + 1] == b"<":
            e = raw.index(b">", at)
            return bytes.fromhex(re.sub(rb"\s", b"", raw[at + 1:e]).decode()), e + 1
        assert raw[at:at + 1] == b"(", raw[at:at + 20]
        out = bytearray()
        depth = 0
        i = at + 1
        esc = {ord("n"): 10, ord("r"): 13, ord("t"): 9, ord("b"): 8, ord("f"): 12}
        while True:
            c = raw[i]
            if c == 0x5C:
                c2 = raw[i + 1]
                if c2 in esc:
                    out.append(esc[c2])
                    i += 2
                elif 48 <= c2 <= 55:
                    j = i + 1
                    v = 0
                    while j < i + 4 and 48 <= raw[j] <= 55:
                        v = v * 8 + raw[j] - 48
                        j += 1
                    out.append(v & 255)
                    i = j
                elif c2 in (10, 13):
                    i += 2
                    if c2 == 13 and raw[i] == 10:
                        i += 1
                else:
                    out.append(c2)
                    i += 2
                continue
            if c == 40:
                depth += 1
            elif c == 41:
                if depth == 0:
                    return bytes(out), i + 1
                depth -= 1
            out.append(c)
            i += 1

    res = {}
    for key in (b"O", b"U", b"OE", b"UE", b"Perms"):
        m = re.search(rb"/" + key + rb"\s*(?=[(<])(?!<<)", raw)
        if m:
            res[key.decode()] = pdf_string(m.end())[0]
    m = re.search(rb"/ID\s*\[\s*", raw)
    res["id0"] = pdf_string(m.end())[0] if m else b""
    m = re.search(rb"/P (-?\d+)", raw)
    res["P"] = int(m.group(1))
    res["em"] = not re.search(rb"/EncryptMetadata\s+false", raw)
    return res


def selfcheck(samples_dir="/repo/samples/encryption"):
    import os

    # RC4 published test vectors (original 1994 posting / Wikipedia)
    assert rc4(b"Key", b"Plaintext").hex().upper() == "BBF316E8D940AF0AD3"
    assert rc4(b"Wiki", b"pedia").hex().upper() == "1021BF0420"
    assert rc4(b"Secret", b"Attack at dawn").hex().upper() == "45A01F645FC35B383552544B9BF5"
    assert rc4(b"Secret", rc4(b"Secret", bytes(range(256)) * 3)) == bytes(range(256)) * 3
    # AES-CBC with PKCS#7: decryptor of the library inverts this module's output; padding is 1..16 bytes
    for ln in (0, 1, 15, 16, 17, 31, 32, 33):
        key, iv, msg = bytes(range(32)), bytes(range(16, 32)), bytes((7 * i) & 255 for i in range(ln))
        c = aes_cbc_pkcs7(key, iv, msg)
        assert c[:16] == iv and len(c) == 16 + (ln // 16 + 1) * 16
        p = _aes_cbc_decrypt(key, iv, c[16:])
        assert p[:ln] == msg and p[ln:] == bytes([len(p) - ln]) * (len(p) - ln) and 1 <= len(p) - ln <= 16
    # FIPS-197 C.3 AES-256 example vector (ECB)
    assert aes_ecb_block(bytes(range(32)), bytes.fromhex("00112233445566778899aabbccddeeff")).hex() == \
        "8ea2b7ca516745bfeafc49904b496089"
    # SASLprep examples of RFC 4013 section 3
    assert saslprep("I\u00adX") == "IX" and saslprep("user") == "user" and saslprep("USER") == "USER"
    assert saslprep("\u00aa") == "a" and saslprep("\u2168") == "IX"
    for bad in ("\u0007", "\u0627\u0031"):
        try:
            saslprep(bad)
        except PasswordNotRepresentable:
            pass
        else:
            raise AssertionError("SASLprep must reject %r" % bad)
    # make_P
    assert make_P(True, True, True, 0xF20) == -4 and make_P(False, False, False) == -3904
    # Third-party vectors: files written by cpdf (`cpdf -encrypt <method> <owner=foo> <user=baz>`, samples/README) and pyHanko (usersecret/ownersecret)
    if os.path.isdir(samples_dir):
        t = _trailer_encrypt(os.path.join(samples_dir, "rc4-40.pdf"))
        pu, po = prep_password("baz", 2), prep_password("foo", 2)
        assert alg3_O(po, pu, 2, 5) == t["O"]
        assert alg4_U(alg2_key(pu, t["O"], t["P"], t["id0"], 2, 5, True)) == t["U"]
        for fn, R in (("rc4-128.pdf", 3), ("aes-128.pdf", 4), ("aes-128-m.pdf", 4)):
            t = _trailer_encrypt(os.path.join(samples_dir, fn))
            assert alg3_O(po, pu, R, 16) == t["O"], fn
            k = alg2_key(pu, t["O"], t["P"], t["id0"], R, 16, t["em"])
            assert alg5_U(k, t["id0"], b"\0" * 16)[:16] == t["U"][:16], fn
        for fn, R, u, o in (("aes-256.pdf", 5, "baz", "foo"), ("aes-256-m.pdf", 5, "baz", "foo"),
                            ("aes-256-r6.pdf", 6, "usersecret", "ownersecret")):
            t = _trailer_encrypt(os.path.join(samples_dir, fn))
            h = hash_2b if R == 6 else hash_r5
            pu, po = prep_password(u, R), prep_password(o, R)
            U, O = t["U"], t["O"]
            assert len(U) == 48 and len(O) == 48, fn
            assert h(pu, U[32:40]) == U[:32], fn
            assert h(po, O[32:40], U) == O[:32], fn
            fk = _aes_cbc_decrypt(h(pu, U[40:48]), b"\0" * 16, t["UE"])
            assert fk == _aes_cbc_decrypt(h(po, O[40:48], U), b"\0" * 16, t["OE"]), fn
            # and this module's forward direction reproduces the stored entries from the same salts
            assert alg8_U_UE(pu, fk, U[32:40], U[40:48], R) == (U, t["UE"]), fn
            assert alg9_O_OE(po, fk, O[32:40], O[40:48], U, R) == (O, t["OE"]), fn
            perms = _aes_ecb_decrypt(fk, t["Perms"])
            assert perms[9:12] == b"adb" and perms[:4] == struct.pack("<I", t["P"] & 0xFFFFFFFF), fn
            if perms[4:8] == b"\xff" * 4:
                assert alg10_perms(t["P"], perms[8:9] == b"T", fk, perms[12:16]) == t["Perms"], fn
