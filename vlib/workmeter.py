"""Deterministic work meter built on sys.monitoring (Python 3.12): counts PY_START and JUMP events and aborts the
measured call with a BaseException when a budget is exceeded.  No wall clock is involved."""
import sys

mon = sys.monitoring
TID = 3


class WorkBudgetExceeded(BaseException):
    """Derives from BaseException so that no `except Exception` in the code under test can swallow it."""


class Meter:
    def __init__(self):
        self.n = 0
        self.limit = None
        self.active = False

    def _cb(self, *a):
        self.n += 1
        if self.limit is not None and self.n > self.limit:
            self.limit = None
            raise WorkBudgetExceeded()

    def start(self, limit=None):
        self.n = 0
        self.limit = limit
        if not self.active:
            mon.use_tool_id(TID, "verif-work")
            mon.register_callback(TID, mon.events.PY_START, self._cb)
            mon.register_callback(TID, mon.events.JUMP, self._cb)
            self.active = True
        mon.set_events(TID, mon.events.PY_START | mon.events.JUMP)

    def stop(self):
        mon.set_events(TID, 0)
        self.limit = None
        return self.n

    def arm(self, limit):
        """Cheap variant for very many short calls: monitoring stays switched on, only the counter is reset."""
        if not self.active or mon.get_events(TID) == 0:
            self.start(limit)
        self.n = 0
        self.limit = limit

    def disarm(self):
        self.limit = None
        return self.n

    def run(self, fn, limit=None):
        """-> (result, exception, events)"""
        self.start(limit)
        try:
            r = fn()
            return r, None, self.stop()
        except BaseException as e:  # noqa: B902 - the budget abort is a BaseException by design
            n = self.stop()
            if isinstance(e, (KeyboardInterrupt, SystemExit)):
                raise
            return None, e, n


METER = Meter()


def selfcheck():
    def spin():
        i = 0
        while True:
            i += 1

    r, e, n = METER.run(spin, 50000)
    assert isinstance(e, WorkBudgetExceeded) and 50000 <= n <= 50010, (e, n)

    def rec(k):
        return rec(k + 1) if k < 10 ** 9 else 0

    r, e, n = METER.run(lambda: rec(0), 10 ** 7)
    assert isinstance(e, RecursionError), e
