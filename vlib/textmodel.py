"""Reference interpreter for content streams (ISO 32000-1 8.4, 8.5, 9.3, 9.4) over exact rationals,
plus the serialiser that turns an operator program into content-stream bytes.

Program = list of ops (tuples); numbers are Fractions/ints.
  graphics level: ("q",) ("Q",) ("cm", m6) ("w", x) ("d", [ints], phase) ("g", x) ("G", x) ("rg", r,g,b) ("RG", ..)
                  ("k", c,m,y,k) ("K", ..) ("cs", name, vals) ("CS", name, vals)   [cs + matching sc/scn emitted together;
                  4th element "scn"/"sc" selects the operator spelling]
                  ("m",x,y) ("l",x,y) ("c",x1,y1,x2,y2,x3,y3) ("v",x2,y2,x3,y3) ("y",x1,y1,x3,y3) ("h",) ("re",x,y,w,h)
                  ("S",) ("s",) ("f",) ("f*",) ("B",) ("B*",) ("b",) ("b*",) ("n",)
                  ("BT", [text ops]) ("Do", name) ("bad", raw bytes)  -- broken operator, reference: no effect
  text level:     ("Tf", fontkey, size) ("Tc",x) ("Tw",x) ("Tz",x) ("TL",x) ("Ts",x) ("Td",x,y) ("TD",x,y) ("Tm", m6)
                  ("T*",) ("Tj", bytes) ("TJ", [bytes|number]) ("'", bytes) ('"', aw, ac, bytes) colour ops, ("bad", raw)
Output: list of items in painting order; a form XObject contributes ("figure", name, [items]).
"""
from fractions import Fraction as Fr

I6 = (Fr(1), Fr(0), Fr(0), Fr(1), Fr(0), Fr(0))


def mm(m1, m0):
    """m1 applied first, then m0 (row-vector convention)."""
    a1, b1, c1, d1, e1, f1 = m1
    a0, b0, c0, d0, e0, f0 = m0
    return (a1 * a0 + b1 * c0, a1 * b0 + b1 * d0, c1 * a0 + d1 * c0, c1 * b0 + d1 * d0,
            e1 * a0 + f1 * c0 + e0, e1 * b0 + f1 * d0 + f0)


def ap(m, p):
    a, b, c, d, e, f = m
    x, y = p
    return (x * a + y * c + e, x * b + y * d + f)


def T(x, y):
    return (Fr(1), Fr(0), Fr(0), Fr(1), Fr(x), Fr(y))


# ------------------------------------------------------------------ serialiser
def fnum(x):
    """Exact decimal text for a dyadic/decimal Fraction (<= 10 fraction digits), ints plain."""
    if isinstance(x, int):
        return str(x)
    x = Fr(x)
    if x.denominator == 1:
        return str(x.numerator)
    s = "%.10f" % float(x)
    s = s.rstrip("0").rstrip(".")
    if Fr(s) != x:
        raise ValueError("operand %r not exactly representable in 10 decimals" % (x,))
    return s


def pstr(b):
    out = bytearray(b"(")
    for c in b:
        if c in (40, 41, 92):
            out += b"\\" + bytes([c])
        elif c == 13:
            out += b"\\r"
        else:
            out.append(c)
    return bytes(out) + b")"


def atoms(o):
    """Lexical atoms (operands and operator, each one token or one string/array delimiter) of one op."""
    k = o[0]
    K = k.encode()
    n = lambda v: fnum(v).encode()  # noqa: E731
    if k in ("q", "Q", "h", "S", "s", "f", "f*", "B", "B*", "b", "b*", "n", "T*"):
        return [K]
    if k in ("cm", "Tm"):
        return [n(v) for v in o[1]] + [K]
    if k in ("w", "g", "G", "Tc", "Tw", "Tz", "TL", "Ts"):
        return [n(o[1]), K]
    if k == "d":
        return [b"["] + [n(v) for v in o[1]] + [b"]", n(o[2]), b"d"]
    if k in ("rg", "RG", "k", "K", "m", "l", "c", "v", "y", "re", "Td", "TD"):
        return [n(v) for v in o[1:]] + [K]
    if k in ("cs", "CS"):
        setop = o[3] if len(o) > 3 else ("scn" if k == "cs" else "SCN")
        return [b"/" + o[1].encode(), K] + [n(v) for v in o[2]] + [setop.encode()]
    if k in ("sc", "SC"):
        # standalone colour-setting in the current colour space: o = (k, values, operator spelling)
        return [n(v) for v in o[1]] + [(o[2] if len(o) > 2 else k).encode()]
    if k == "Tf":
        return [b"/" + o[1].encode(), n(o[2]), b"Tf"]
    if k in ("Tj", "'"):
        return [pstr(o[1]), K]
    if k == '"':
        return [n(o[1]), n(o[2]), pstr(o[3]), b'"']
    if k == "TJ":
        return [b"["] + [pstr(i) if isinstance(i, bytes) else n(i) for i in o[1]] + [b"]", b"TJ"]
    if k == "Do":
        return [b"/" + o[1].encode(), b"Do"]
    if k == "bad":
        return list(o[1])
    if k == "BT":
        out = [b"BT"]
        for x in o[1]:
            out.extend(atoms(x))
        return out + [b"ET"]
    raise ValueError("unknown op %r" % (o,))


def prog_atoms(prog):
    out = []
    for o in prog:
        out.extend(atoms(o))
    return out


def ser_prog(prog):
    return b" ".join(prog_atoms(prog))


# ------------------------------------------------------------------ reference interpreter
class GS:
    __slots__ = ("ctm", "font", "fs", "Tc", "Tw", "Th", "TL", "Ts", "ncolor", "scolor", "lw", "dash")

    def __init__(self):
        self.ctm = I6
        self.font = None
        self.fs = Fr(0)
        self.Tc = Fr(0)
        self.Tw = Fr(0)
        self.Th = Fr(1)
        self.TL = Fr(0)
        self.Ts = Fr(0)
        self.ncolor = None
        self.scolor = None
        self.lw = Fr(0)
        self.dash = None

    def copy(self):
        g = GS()
        for k in GS.__slots__:
            setattr(g, k, getattr(self, k))
        return g

    def nonctm(self):
        return tuple(getattr(self, k) for k in GS.__slots__ if k != "ctm")


def _col(vals):
    vals = tuple(vals)
    return vals[0] if len(vals) == 1 else vals


class Model:
    """fonts: {resource key: {"name": fontname, "widths": {code: w (1000-unit)}, "missing": MissingWidth (default 0)}}
    forms: {name: {"matrix": m6, "ops": [...], "fonts": optional own font map}}
    inherit=True: ISO semantics (a form inherits the caller's graphics state);
    inherit=False: the form starts from a fresh graphics/text state (pdfminer's behaviour, used to classify
    cases that exercise the known finding `form-inherits-state`)."""

    def __init__(self, fonts, forms=None, inherit=True):
        self.fonts = fonts
        self.forms = forms or {}
        self.inherit = inherit
        self.flags = set()

    def run(self, prog, ctm=I6, gs=None, fonts=None, depth=0):
        gs = gs.copy() if gs is not None else GS()
        gs.ctm = ctm
        fonts = fonts if fonts is not None else self.fonts
        out = []
        stack = []
        path = []  # list of subpaths; subpath = [start, [segments], closed]
        for o in prog:
            k = o[0]
            if k == "q":
                stack.append(gs.copy())
                if gs.ctm != ctm or True:
                    pass
            elif k == "Q":
                if stack:
                    gs = stack.pop()
            elif k == "cm":
                gs.ctm = mm(tuple(Fr(v) for v in o[1]), gs.ctm)
                self.flags.add("cm")
            elif k == "w":
                gs.lw = Fr(o[1])
            elif k == "d":
                gs.dash = (list(o[1]), o[2])
            elif k in ("g", "rg", "k"):
                gs.ncolor = _col(Fr(v) for v in o[1:])
            elif k in ("G", "RG", "K"):
                gs.scolor = _col(Fr(v) for v in o[1:])
            elif k == "cs":
                gs.ncolor = _col(Fr(v) for v in o[2])
            elif k == "CS":
                gs.scolor = _col(Fr(v) for v in o[2])
            elif k == "sc":
                gs.ncolor = _col(Fr(v) for v in o[1])
                self.flags.add("standalone-sc")
            elif k == "SC":
                gs.scolor = _col(Fr(v) for v in o[1])
                self.flags.add("standalone-sc")
            elif k == "m":
                path.append([(Fr(o[1]), Fr(o[2])), [], False])
            elif k in ("l", "c", "v", "y"):
                path[-1][1].append((k,) + tuple(Fr(v) for v in o[1:]))
            elif k == "h":
                path[-1][2] = True
            elif k == "re":
                x, y, w, h = (Fr(v) for v in o[1:])
                path.append([(x, y), [("l", x + w, y), ("l", x + w, y + h), ("l", x, y + h)], True])
            elif k in ("S", "s", "f", "f*", "B", "B*", "b", "b*", "n"):
                if k != "n":
                    if k in ("s", "b", "b*") and path:
                        path[-1][2] = True
                    stroke = k in ("S", "s", "B", "B*", "b", "b*")
                    fill = k in ("f", "f*", "B", "B*", "b", "b*")
                    eo = k in ("f*", "B*", "b*")
                    for sp in path:
                        if sp[1]:
                            out.append(self._shape(sp, gs, stroke, fill, eo))
                    if len([sp for sp in path if sp[1]]) >= 2:
                        self.flags.add("multi-subpath")
                elif path:
                    self.flags.add("path-abandoned")
                path = []
            elif k == "BT":
                out.extend(self._text(o[1], gs, fonts))
            elif k == "Do":
                form = self.forms[o[1]]
                inner = gs.copy() if self.inherit else GS()
                f_fonts = form.get("fonts") or fonts
                items = self.run(form["ops"], ctm=mm(tuple(Fr(v) for v in form["matrix"]), gs.ctm), gs=inner,
                                 fonts=f_fonts, depth=depth + 1)
                # (4th member: the matrix the form's content is drawn with = form matrix x CTM at the Do)
                out.append(("figure", o[1], items, mm(tuple(Fr(v) for v in form["matrix"]), gs.ctm)))
                self.flags.add("form")
            elif k == "bad":
                self.flags.add("bad-op")
            else:
                raise ValueError("unknown op %r" % (o,))
        return out

    # -- paths
    def _shape(self, sp, gs, stroke, fill, eo):
        start, segs, closed = sp
        ctm = gs.ctm
        pts = [ap(ctm, start)]
        ops = "m"
        opath = [("m", ap(ctm, start))]
        for s in segs:
            pts.append(ap(ctm, s[-2:]))
            ops += s[0]
            opath.append((s[0],) + tuple(ap(ctm, (s[i], s[i + 1])) for i in range(1, len(s), 2)))
        if closed:
            pts.append(ap(ctm, start))
            ops += "h"
            opath.append(("h",))
        # collapse of an explicit closing line followed by h
        if len(ops) > 3 and ops[-2:] == "lh" and pts[-2] == pts[0]:
            ops = ops[:-2] + "h"
            pts.pop()
        cls = "curve"
        if ops in ("ml", "mlh"):
            cls = "line"
            pts = pts[:2]
        elif ops in ("mlllh", "mllll"):
            (x0, y0), (x1, y1), (x2, y2), (x3, y3), _ = pts
            if pts[0] == pts[4] and ((x0 == x1 and y1 == y2 and x2 == x3 and y3 == y0) or
                                     (y0 == y1 and x1 == x2 and y2 == y3 and x3 == x0)):
                cls = "rect"
        if gs.ctm != I6:
            self.flags.add("shape-under-ctm")
        return ("shape", {"cls": cls, "pts": pts, "stroke": stroke, "fill": fill, "evenodd": eo, "lw": gs.lw,
                          "dash": gs.dash, "scolor": gs.scolor, "ncolor": gs.ncolor, "opath": opath})

    # -- text
    def _text(self, ops, gs, fonts):
        out = []
        Tm = Tlm = I6
        shown_on_line = 0

        def show(items):
            nonlocal Tm
            for it in items:
                if isinstance(it, bytes):
                    if gs.font is None:
                        continue
                    f = gs.font
                    for c in it:
                        w0 = Fr(f["widths"].get(c, f.get("missing", 0)), 1000)
                        adv = w0 * gs.fs * gs.Th
                        out.append(("char", {"matrix": mm(Tm, gs.ctm), "adv": adv, "font": f["name"], "ncolor": gs.ncolor,
                                             "code": c, "fs": gs.fs, "rise": gs.Ts}))
                        tx = (w0 * gs.fs + gs.Tc + (gs.Tw if c == 32 else 0)) * gs.Th
                        Tm = mm(T(tx, 0), Tm)
                else:
                    tx = -Fr(it) / 1000 * gs.fs * gs.Th
                    Tm = mm(T(tx, 0), Tm)

        for x in ops:
            k = x[0]
            if k == "Tf":
                # the text state holds the font *object* selected in the resources current at Tf time
                gs.font, gs.fs = fonts[x[1]], Fr(x[2])
            elif k == "Tc":
                gs.Tc = Fr(x[1])
            elif k == "Tw":
                gs.Tw = Fr(x[1])
            elif k == "Tz":
                gs.Th = Fr(x[1]) / 100
            elif k == "TL":
                gs.TL = Fr(x[1])
            elif k == "Ts":
                gs.Ts = Fr(x[1])
            elif k == "Td":
                Tlm = mm(T(x[1], x[2]), Tlm)
                Tm = Tlm
            elif k == "TD":
                gs.TL = -Fr(x[2])
                Tlm = mm(T(x[1], x[2]), Tlm)
                Tm = Tlm
                self.flags.add("TD")
            elif k == "Tm":
                Tm = Tlm = tuple(Fr(v) for v in x[1])
            elif k == "T*":
                Tlm = mm(T(0, -gs.TL), Tlm)
                Tm = Tlm
                self.flags.add("T*")
            elif k in ("Tj", "TJ"):
                if shown_on_line and (gs.Tc != 0 or gs.Th != 1):
                    self.flags.add("second-show-with-Tc-or-Tz")
                show([x[1]] if k == "Tj" else x[1])
            elif k == "'":
                Tlm = mm(T(0, -gs.TL), Tlm)
                Tm = Tlm
                show([x[1]])
                self.flags.add("quote")
            elif k == '"':
                gs.Tw, gs.Tc = Fr(x[1]), Fr(x[2])
                Tlm = mm(T(0, -gs.TL), Tlm)
                Tm = Tlm
                show([x[3]])
                self.flags.add("dquote")
            elif k in ("g", "rg", "k"):
                gs.ncolor = _col(Fr(v) for v in x[1:])
            elif k in ("G", "RG", "K"):
                gs.scolor = _col(Fr(v) for v in x[1:])
            elif k == "bad":
                self.flags.add("bad-op")
            else:
                raise ValueError("unknown text op %r" % (x,))
            if k in ("Tj", "TJ", "'", '"'):
                shown_on_line += 1
            elif k in ("Td", "TD", "Tm", "T*"):
                shown_on_line = 0
        return out


def figures(items):
    """The figure items in painting order, depth first."""
    out = []
    for it in items:
        if it[0] == "figure":
            out.append(it)
            out.extend(figures(it[2]))
    return out


def flatten(items, kind=None):
    """Depth-first leaf list through figures."""
    out = []
    for it in items:
        if it[0] == "figure":
            out.extend(flatten(it[2], kind))
        elif kind is None or it[0] == kind:
            out.append(it)
    return out
