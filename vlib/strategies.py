"""Shared Hypothesis strategies: PDF values, reals, names, strings."""
from hypothesis import strategies as st

from vlib import pdfwrite as W

SPECIAL_STR_BYTES = b"()\\\r\n\t\x08\x0c 0123456789\x00\xff\x80%/<>[]#"


def ints():
    return st.one_of(
        st.integers(-1000, 1000),
        st.integers(-2 ** 31, 2 ** 31),
        st.integers(-2 ** 63, 2 ** 63),
        st.integers(-10 ** 40, 10 ** 40),
    )


@st.composite
def reals(draw):
    sign = draw(st.sampled_from(["", "", "-", "+"]))
    ip = draw(st.text("0123456789", min_size=0, max_size=8))
    fp = draw(st.text("0123456789", min_size=0, max_size=10))
    if not ip and not fp:
        ip = "0"
    return W.Real(sign + ip + "." + fp)


def name_bytes(max_size=40):
    return st.one_of(
        st.text("ABCDEFGHIJKLMNOPQRSTUVWXYZabcdefghijklmnopqrstuvwxyz0123456789._-*", min_size=0, max_size=12).map(
            lambda s: s.encode()),
        st.binary(min_size=0, max_size=max_size).map(lambda b: b.replace(b"\x00", b"\x01")),
        st.lists(st.sampled_from([b"A", b" ", b"#", b"/", b"(", b")", b"<", b">", b"[", b"]", b"%", b"\xe9", b"\xc3\xa9",
                                  b"\xff", b"\t", b"\n", b"\r", b"1", b"{", b"}", b"\x7f", b"b'"]), max_size=10).map(b"".join),
    )


def pdf_strings(max_size=60):
    special = st.lists(st.sampled_from([bytes([c]) for c in SPECIAL_STR_BYTES] + [b"(", b")", b"()", b"\\", b"\r\n",
                                                                                 b"abc", b"\\n", b"7", b"\xfe\xff"]),
                       max_size=max(4, max_size // 3)).map(b"".join)
    return st.one_of(st.binary(max_size=max_size), special, special)


def refs():
    return st.builds(lambda n, g: W.R(n, g), st.one_of(st.integers(1, 50), st.integers(1, 2 ** 31 - 1)),
                     st.one_of(st.just(0), st.integers(0, 65535)))


def leaves(str_max=60):
    return st.one_of(
        st.none(), st.booleans(), ints(), reals(), name_bytes().map(lambda b: ("N", b)), pdf_strings(str_max),
        pdf_strings(str_max), pdf_strings(str_max), refs())


def _dict_of(children):
    def fix(pairs):
        d = {}
        seen = set()
        for k, v in pairs:
            pk = W.key_public(k)
            if pk in seen:
                continue
            seen.add(pk)
            d[k] = v
        return d

    return st.lists(st.tuples(name_bytes(20), children), max_size=5).map(fix)


def values(max_leaves=15, str_max=60):
    return st.recursive(
        leaves(str_max),
        lambda ch: st.one_of(st.lists(ch, max_size=5), _dict_of(ch)),
        max_leaves=max_leaves,
    )


def deep_value(depth, leaf):
    """A value nested `depth` levels (alternating arrays and dicts) around leaf."""
    v = leaf
    for i in range(depth):
        v = [v] if i % 2 == 0 else {b"K": v}
    return v
