"""C12 — extraction is a pure function: deterministic, cache- and history-independent."""
import hashlib
import io
import json
import os
import random
import subprocess
import sys

from hypothesis import strategies as st

from vlib import fonts as F
from vlib import pdfwrite as W
from vlib.runner import HERE, Outcome, hyp_search

ID = "C12"
LEVEL = "exploration"
RULE = ("Each shard fixes a pool of 26 documents (generated ones that deliberately share object numbers, the resource "
        "name /F1, BaseFont names, base encodings differing only in /Differences, predefined CMap names with different "
        "ToUnicode maps, multi-page members, a grid of equidistant labels, two Type0 fonts sharing one descendant, Type1 fonts with different built-in encodings, a /Font dictionary mixing indirect and direct fonts, two documents encrypted through the same crypt filter name with different keys, a document whose xref table carries a wrong offset and marks an object free whose body is still in the file, a document whose pages leave the graphics-state stack unbalanced (unclosed q with a non-default colour space, stray Q on the next page), a document whose pages share one zero-length content stream and paint an empty form twice, a document with a page whose /Resources are empty or missing while its content names what the previous page defines, a document with strings printed over each other (tied lines in one box), a document with a form that paints itself and two forms that paint each other, a document whose two pages paint one form without /Resources under different fonts, two documents of which one defines colour space resource names that the other uses without defining them; plus repository samples incl. an AES-encrypted one and CJK ones). "
        "Hypothesis draws call histories (model-based op lists) run in one long-lived process: extract_text, "
        "extract_pages to completion, open a page iterator, advance any open iterator (interleaving documents), extract "
        "a single page by page_numbers, extract_text_to_fp(xml), rendering through one PDFResourceManager(caching=False) shared by the whole history; each with caching on/off and LAParams default or "
        "boxes_flow=None.  Oracle: every value produced must equal the baseline for (document, options, page) computed "
        "in a fresh interpreter (spawned subprocess that has run nothing else): texts exactly, page trees via a "
        "canonical serialisation (class, bbox, text, font, adv, matrix, colours, pts), pageid excluded.  Non-trivial = "
        "a history touching >= 2 documents with an interleaved iterator step or a caching flip between two uses of "
        "the same document; distinct by op list.")
ASSUMPTIONS = ["baselines come from a subprocess started with the same PYTHONHASHSEED and PYTHONPATH",
               "pdfminer starts no threads: schedules are interleavings of page generators in one thread"]

REPO = os.environ.get("VERIF_REPO", "/repo")
SAMPLES = [("samples/simple1.pdf", ""), ("samples/simple3.pdf", ""), ("samples/jo.pdf", ""),
           ("samples/encryption/aes-128.pdf", "foo"), ("samples/encryption/rc4-40.pdf", "foo"),
           ("samples/contrib/issue-625-identity-cmap.pdf", ""), ("samples/contrib/issue_566_test_1.pdf", ""),
           ("samples/simple5.pdf", ""), ("samples/contrib/issue-791-non-unicode-cmap.pdf", "")]
LAS = ["default", "flownone"]


# ------------------------------------------------------------------ documents
def gen_doc(kind, variant):
    """Generated pool members.  Same object numbers / resource names across variants by construction."""
    objs = {}
    if kind == "simple":
        # same BaseFont + base encoding, different /Differences (shared EncodingDB tables must not be mutated)
        names = [["alpha", "beta", "gamma"], ["Agrave", "ccedilla", "eth"], ["uni0416", "u1F600", "bullet"],
                 ["fi", "fl", "A.swash"]][variant % 4]
        # variants 2/3 use StandardEncoding (implicitly) and a base encoding pdfminer has no table for: their
        # /Differences must not leak into the table other documents share
        base = [W.N("WinAnsiEncoding"), W.N("WinAnsiEncoding"), None, W.N("MacExpertEncoding")][variant % 4]
        first = 70 if variant % 4 == 2 else 65  # variant 2 leaves codes 65-67 to the (shared) base table
        enc = W.D(Type=W.N("Encoding"), Differences=[first] + [W.N(n) for n in names])
        if base is not None:
            enc[b"BaseEncoding"] = base
        objs[10] = W.D(Type=W.N("Font"), Subtype=W.N("Type1"), BaseFont=W.N("SharedBase"), FirstChar=32, LastChar=126,
                       # (some elements are references to an integer object whose number all variants share: what one
                       # document resolves must not be remembered for the next)
                       Widths=[500 + 10 * variant] * 33 + [W.R(30)] * 8 + [500 + 10 * variant] * 54, Encoding=enc,
                       FontDescriptor=W.D(Type=W.N("FontDescriptor"), FontName=W.N("SharedBase"), Flags=32,
                                          FontBBox=W.R(31), Ascent=800, Descent=-200))
        objs[30] = 400 + 100 * variant
        # the font box as an indirect array with indirect elements (resolved as a whole by the font constructor)
        objs[31] = [0, W.R(32), 1000, W.R(33)]
        objs[32] = -100 * (variant % 3)
        objs[33] = 800 + 50 * variant
        pages = [b"BT /F1 12 Tf 50 700 Td (ABC abc FGH) Tj 0 -14 Td (DEF %d) Tj ET" % variant,
                 b"BT /F1 10 Tf 50 600 Td (CBA second page) Tj ET"]
    elif kind == "tounicode":
        # same font object number and name, different ToUnicode maps
        # the variants cover different code sets: a map leaking from one document shows in another's uncovered codes
        mapping = {65 + (variant % 4) + i: s for i, s in enumerate([["x", "y", "z"], ["1", "22", "333"], ["é", "Ω", "中"],
                                                                    ["q", "r", "s"]][variant % 4])}
        cmap, _ = F.tounicode_cmap(mapping)
        objs[11] = W.Stream({}, cmap)
        objs[10] = W.D(Type=W.N("Font"), Subtype=W.N("Type1"), BaseFont=W.N("SharedBase"), FirstChar=32, LastChar=126,
                       Widths=[500] * 95, Encoding=W.N("WinAnsiEncoding"), ToUnicode=W.R(11),
                       FontDescriptor=W.D(Type=W.N("FontDescriptor"), FontName=W.N("SharedBase"), Flags=32,
                                          FontBBox=[0, 0, 1000, 1000], Ascent=800, Descent=-200))
        pages = [b"BT /F1 12 Tf 50 700 Td (ABCDEFGH) Tj ET", b"BT /F1 12 Tf 50 500 Td (HGFEDCBA) Tj ET",
                 b"BT /F1 12 Tf 80 300 Td (AABGG) Tj ET"]
    elif kind == "cid":
        # Type0 fonts naming the same predefined CMap; ToUnicode differs / absent
        cm = ["90ms-RKSJ-H", "UniJIS-UCS2-H", "90ms-RKSJ-V"][variant % 3]
        ordering = "Japan1"
        objs[34] = 500 + 37 * variant  # an element of /W under an object number all variants share
        desc = W.D(Type=W.N("Font"), Subtype=W.N("CIDFontType0"), BaseFont=W.N("SharedCID"),
                   CIDSystemInfo=W.D(Registry=b"Adobe", Ordering=ordering.encode(), Supplement=2), DW=1000,
                   W=[1, [W.R(34), 600 + variant]],
                   FontDescriptor=W.D(Type=W.N("FontDescriptor"), FontName=W.N("SharedCID"), Flags=4,
                                      FontBBox=[0, -200, 1000, 900], Ascent=800, Descent=-200))
        objs[12] = desc
        objs[10] = W.D(Type=W.N("Font"), Subtype=W.N("Type0"), BaseFont=W.N("SharedCID"), Encoding=W.N(cm),
                       DescendantFonts=[W.R(12)])
        text = "あいう漢字" if variant % 2 == 0 else "カタカナ字"
        raw = text.encode("utf-16-be") if "Uni" in cm else text.encode("cp932")
        pages = [b"BT /F1 12 Tf 50 700 Td <%s> Tj ET" % raw.hex().encode(), b"BT /F1 12 Tf 50 650 Td <%s> Tj ET" % raw[:4].hex().encode()]
    elif kind == "cmapstream":
        # two documents use the predefined CMap 90ms-RKSJ-H: one through an embedded CMap stream that carries that
        # /CMapName and a /WMode of its own, the other by name.  Whatever the first makes of its stream dictionary must
        # stay with that font (the predefined CMap objects are shared by everything in the process)
        desc = W.D(Type=W.N("Font"), Subtype=W.N("CIDFontType0"), BaseFont=W.N("SharedCID"),
                   CIDSystemInfo=W.D(Registry=b"Adobe", Ordering=b"Japan1", Supplement=2), DW=1000, DW2=[880, -900],
                   FontDescriptor=W.D(Type=W.N("FontDescriptor"), FontName=W.N("SharedCID"), Flags=4,
                                      FontBBox=[0, -200, 1000, 900], Ascent=800, Descent=-200))
        objs[12] = desc
        enc = W.N("90ms-RKSJ-H")
        if variant % 2 == 0:
            objs[13] = W.Stream(W.D(Type=W.N("CMap"), CMapName=W.N("90ms-RKSJ-H"), WMode=1,
                                    CIDSystemInfo=W.D(Registry=b"Adobe", Ordering=b"Japan1", Supplement=2)),
                                b"/CIDInit /ProcSet findresource begin 12 dict begin begincmap\n/CMapName /90ms-RKSJ-H def\n"
                                b"/WMode 1 def\nendcmap CMapName currentdict /CMap defineresource pop end end\n")
            enc = W.R(13)
        objs[10] = W.D(Type=W.N("Font"), Subtype=W.N("Type0"), BaseFont=W.N("SharedCID"), Encoding=enc,
                       DescendantFonts=[W.R(12)])
        raw = "あいう漢字".encode("cp932")
        # (the last string of the second document ends in the middle of a two-byte code: where one string stops must not
        # matter to the next string decoded with the same, shared, CMap)
        pages = [b"BT /F1 12 Tf 50 700 Td <%s> Tj ET" % raw.hex().encode(),
                 b"BT /F1 12 Tf 50 650 Td <%s> Tj ET" % (raw[:4] + (b"\x82" if variant % 2 else b"")).hex().encode()]
    elif kind == "sharedcontents":
        # both pages name the same indirect /Contents array: what rendering one page does with the list of streams must
        # not be visible to the other page, to a second rendering of the same page, or depend on caching
        objs[10] = W.simple_font("ShCont")
        pages = [b"BT /F1 12 Tf 50 700 Td (Shared %d first stream) Tj ET" % variant, b"BT /F1 12 Tf 50 650 Td (second stream) Tj ET"]
    elif kind == "manynames":
        # a valid page whose content uses 70 000 distinct marked-content tags: every name met is interned for the life
        # of the process, and what was read before (and the library's own constants) must stay what it was
        objs[10] = W.simple_font("ManyNames")
        tags = b"\n".join(b"/T%05d MP" % i for i in range(70000))
        pages = [tags + b"\nBT /F1 12 Tf 50 700 Td (World %d) Tj ET" % variant]
    elif kind == "fontfile":
        # Type1 fonts that take their encoding from the embedded font program (no /Encoding): different programs
        # assign different glyphs to the same codes
        pairs = [[(65, "x"), (66, "y"), (67, "z")], [(65, "p"), (66, "q")], [(65, "one"), (67, "two")]][variant % 3]
        ff, _ = F.type1_fontfile(pairs, fontname="Emb%d" % variant)
        objs[11] = ff
        objs[10] = W.D(Type=W.N("Font"), Subtype=W.N("Type1"), BaseFont=W.N("Embedded"), FirstChar=65, LastChar=70,
                       Widths=[500] * 6,
                       FontDescriptor=W.D(Type=W.N("FontDescriptor"), FontName=W.N("Embedded"), Flags=4,
                                          FontBBox=[0, 0, 1000, 1000], Ascent=800, Descent=-200, FontFile=W.R(11)))
        pages = [b"BT /F1 12 Tf 50 700 Td (ABC) Tj ET", b"BT /F1 12 Tf 50 700 Td (CBA AB) Tj ET"]
    elif kind == "mixedfonts":
        # /Font dictionary with an indirect font first and a direct (inline) font dictionary after it
        objs[10] = W.simple_font("Indirect", encoding="WinAnsiEncoding")
        direct = W.simple_font("Direct", encoding=None)
        direct[b"Encoding"] = W.D(Type=W.N("Encoding"), BaseEncoding=W.N("WinAnsiEncoding"),
                                  Differences=[65, W.N("x"), W.N("y"), W.N("z")])
        objs[15] = direct
        mixed = {b"F1": W.R(10), b"F2": direct} if variant % 2 == 0 else {b"F0": W.R(10), b"F1": W.R(10), b"F2": direct}
        pages = [b"BT /F1 12 Tf 50 700 Td (ABC) Tj /F2 12 Tf ( ABC) Tj ET", b"BT /F2 12 Tf 50 700 Td (CBA) Tj ET"]
    elif kind == "shared":
        # two Type0 fonts share ONE descendant CIDFont object; only the first has a /ToUnicode.  Whatever the first
        # font adds to the (cached) descendant must not show in the second, whichever page is extracted first.
        from vlib import cidfonts as C

        tu, _ = F.tounicode_cmap({1: "A", 2: "B", 3: "C"}, codelen=2)
        objs[13] = W.Stream({}, tu)
        objs[34] = 500 + 37 * variant  # an element of /W under an object number both variants share
        objs[12] = C.descendant("CIDFontType2", "Adobe-Identity", W.R(14), basefont="Shared", DW=1000,
                                W=[1, [W.R(34), 600 + variant]])
        objs[14] = C.font_descriptor("Shared")
        objs[10] = C.type0(W.N("Identity-H"), W.R(12), W.R(13), basefont="Shared")
        objs[15] = C.type0(W.N("Identity-H" if variant % 2 == 0 else "Identity-V"), W.R(12), basefont="Shared")
        pages = [b"BT /F1 12 Tf 50 700 Td <000100020003> Tj ET", b"BT /F2 12 Tf 50 700 Td <000100020003> Tj ET",
                 b"BT /F2 12 Tf 50 600 Td <0003> Tj /F1 12 Tf <0003> Tj ET"]
    elif kind == "grid":
        # labels on a regular grid: many pairs of text boxes are exactly equally far apart, so the grouping order
        # is decided by tie-breaking
        objs[10] = W.simple_font("GridFont")
        n = 3 + variant % 2
        parts = []
        for r in range(n):
            for c in range(n):
                parts.append(b"BT /F1 10 Tf %d %d Td (L%d%d) Tj ET" % (60 + 120 * c, 700 - 100 * r, r, c))
        pages = [b"\n".join(parts), b"\n".join(reversed(parts))]
    elif kind == "damaged":
        # a classic table that lies in two ways: the font's entry carries a wrong offset (the object is found by the
        # body scan the first time it is needed, i.e. while page one is rendered), and object 40 - a content stream
        # that the last page lists first in /Contents - is marked free although its body is still in the file: a free
        # object is null whichever pages were rendered before
        objs[10] = W.simple_font("DamagedFont")
        objs[15] = W.simple_font("SoundFont")
        objs[40] = W.Stream({}, b"BT /F2 12 Tf 50 720 Td (GHOST) Tj ET")
        pages = [b"BT /F1 12 Tf 50 700 Td (Hello %d) Tj ET" % variant, b"BT /F2 12 Tf 50 650 Td (World) Tj ET"]
    elif kind == "unbalanced":
        # graphics-state stack left unbalanced: page one ends inside q .. (with a non-default colour space), page two
        # starts with a stray Q and sets a colour in the initial colour space: each page starts from the initial state
        objs[10] = W.simple_font("UnbalFont")
        ops = [b"0 0 0 1 k 0 1 0 RG", b"/DeviceRGB cs 1 0 0 sc", b"0.2 0.4 0.6 0.8 K"][variant % 3]
        pages = [ops + b" q q BT /F1 12 Tf 50 700 Td (Open %d) Tj ET" % variant,
                 b"Q 0.5 sc 0.25 SC BT /F1 12 Tf 50 650 Td (Stray) Tj ET 10 10 100 50 re B",
                 b"Q Q q 0.75 sc BT /F1 12 Tf 50 600 Td (Third) Tj ET"]
    elif kind == "overprint":
        # several strings printed over each other on one baseline: lines with identical top edges inside one text box
        # (their order is decided by tie-breaking, which must not depend on memory addresses or hashing)
        objs[10] = W.simple_font("OverFont")
        strs = [b"AAAAAAAAAA", b"BBBBBBBBBB", b"CCCCCCCCCC", b"DDDDDDDDDD", b"EEEEEEEEEE", b"FFFFFFFFFF"][:4 + variant % 3]
        line = b" ".join(b"BT /F1 10 Tf 50 700 Td (%s) Tj ET" % t for t in strs)
        line2 = b" ".join(b"BT /F1 10 Tf %d 600 Td (%s) Tj ET" % (50 + 3 * i, t) for i, t in enumerate(reversed(strs)))
        pages = [line + b" " + line2, line2]
    elif kind == "csnames":
        # variant 0 binds colour space resource names (one of them spelled like a device space) to ICCBased spaces of
        # four components; variant 1 defines no colour space resources but uses /DeviceRGB and the name /CS0 that only
        # the other document defines: what one document's resources define is not visible to another document
        objs[10] = W.simple_font("CsFont")
        objs[47] = W.Stream(W.D(N=4), b"\x00" * 8)
        if variant % 2 == 0:
            pages = [b"/CS0 cs 0.1 0.2 0.3 0.4 sc BT /F1 12 Tf 50 700 Td (four) Tj ET "
                     b"/DeviceRGB cs 0.4 0.3 0.2 0.1 sc BT /F1 12 Tf 50 650 Td (odd name) Tj ET"]
        else:
            pages = [b"/DeviceRGB cs 1 0 0 sc BT /F1 12 Tf 50 700 Td (red) Tj ET "
                     b"0.5 g /CS0 cs 0.25 sc BT /F1 12 Tf 50 650 Td (undefined space) Tj ET"]
    elif kind == "recursiveform":
        # a form that paints itself, and two forms that paint each other: the invocation that would recurse is skipped,
        # with object caching on and off alike
        objs[10] = W.simple_font("RecFont")
        res = {b"Font": {b"F1": W.R(10)}, b"XObject": {b"Fa": W.R(44), b"Fb": W.R(45), b"Fc": W.R(46)}}
        objs[44] = W.Stream(W.D(Type=W.N("XObject"), Subtype=W.N("Form"), BBox=[0, 0, 500, 500], Resources=res),
                            b"BT /F1 9 Tf 10 400 Td (self %d) Tj ET /Fa Do" % variant)
        objs[45] = W.Stream(W.D(Type=W.N("XObject"), Subtype=W.N("Form"), BBox=[0, 0, 500, 500], Resources=res),
                            b"BT /F1 9 Tf 10 300 Td (ping) Tj ET /Fc Do")
        objs[46] = W.Stream(W.D(Type=W.N("XObject"), Subtype=W.N("Form"), BBox=[0, 0, 500, 500], Resources=res),
                            b"BT /F1 9 Tf 10 200 Td (pong) Tj ET /Fb Do")
        pages = [b"/Fa Do BT /F1 12 Tf 50 700 Td (after self) Tj ET", b"/Fb Do BT /F1 12 Tf 50 650 Td (after pair) Tj ET"]
    elif kind == "noresources":
        # page two has empty /Resources (variant 1: none at all) but its content names a font and a form that page one
        # defines: whatever a page does with undefined names, it does not depend on the pages rendered before it
        objs[10] = W.simple_font("ResFont")
        objs[43] = W.Stream(W.D(Type=W.N("XObject"), Subtype=W.N("Form"), BBox=[0, 0, 100, 100],
                                Resources={b"Font": {b"F1": W.R(10)}}), b"BT /F1 9 Tf 10 10 Td (in form) Tj ET")
        pages = [b"BT /F1 12 Tf 50 700 Td (Page one %d) Tj ET /Fm0 Do" % variant,
                 b"BT /F1 12 Tf 50 650 Td (Page two) Tj ET /Fm0 Do 10 10 50 50 re f",
                 b"BT /F1 12 Tf 50 600 Td (Page three) Tj ET"]
    elif kind == "sharedempty":
        # one zero-length stream object used twice (first in /Contents of two pages) and an empty form painted twice:
        # a cached object that decodes to nothing is as valid the second time as the first
        objs[10] = W.simple_font("EmptyFont")
        objs[41] = W.Stream({}, b"")
        objs[42] = W.Stream(W.D(Type=W.N("XObject"), Subtype=W.N("Form"), BBox=[0, 0, 10, 10]), b"")
        pages = [b"/E0 Do BT /F1 12 Tf 50 700 Td (One %d) Tj ET /E0 Do" % variant,
                 b"BT /F1 12 Tf 50 650 Td (Two) Tj ET /E0 Do"]
    elif kind == "formnores":
        # a form without /Resources (PDF 1.1 style: it uses those of the page that paints it) is painted by two pages
        # that bind /F1 to different fonts: the cached form object must not keep what the first page lent it
        for num, nm, g, w in ((10, "FnA", "X", 500), (15, "FnB", "Y", 700)):
            objs[num] = W.simple_font(nm, widths=[w] * 95)
            objs[num][b"Encoding"] = W.D(Type=W.N("Encoding"), Differences=[65, W.N(g)])
        objs[43] = W.Stream(W.D(Type=W.N("XObject"), Subtype=W.N("Form"), BBox=[0, 0, 300, 100]),
                            b"BT /F1 9 Tf 10 10 Td (AAA in form %d) Tj ET" % variant)
        pages = [b"BT /F1 12 Tf 50 700 Td (A one) Tj ET /Fm0 Do", b"/Fm0 Do BT /F1 12 Tf 50 650 Td (A two) Tj ET"]
    elif kind == "crypt":
        # encrypted with the standard security handler, crypt filter /StdCF in every variant but different file keys
        # (and RC4 vs AES): per-document decryption state must not be shared between open documents
        objs[10] = W.simple_font("CryptFont")
        pages = [b"BT /F1 12 Tf 50 700 Td (Secret %d page one) Tj ET" % variant,
                 b"BT /F1 12 Tf 50 650 Td (Secret %d page two) Tj ET" % variant,
                 b"BT /F1 12 Tf 50 600 Td (Secret %d page three) Tj ET" % variant]
    else:
        raise ValueError(kind)
    kids = []
    for i, c in enumerate(pages):
        objs[20 + 2 * i] = W.Stream({}, c)
        objs[21 + 2 * i] = W.D(Type=W.N("Page"), Parent=W.R(2), MediaBox=[0, 0, 612, 792], Contents=W.R(20 + 2 * i),
                               Resources={b"Font": mixed if kind == "mixedfonts" else
                                          {b"F1": W.R(10), b"F2": W.R(15 if 15 in objs else 10)}})
        kids.append(W.R(21 + 2 * i))
    objs[1] = W.D(Type=W.N("Catalog"), Pages=W.R(2))
    objs[2] = W.D(Type=W.N("Pages"), Kids=kids, Count=len(kids))
    if kind == "sharedcontents":
        objs[45] = [W.R(20), W.R(22)]
        objs[21][b"Contents"] = W.R(45)
        objs[23][b"Contents"] = W.R(45)
    if kind == "csnames" and variant % 2 == 0:
        objs[21][b"Resources"] = {b"Font": {b"F1": W.R(10)},
                                  b"ColorSpace": {b"CS0": [W.N("ICCBased"), W.R(47)], b"DeviceRGB": [W.N("ICCBased"), W.R(47)]}}
    if kind == "recursiveform":
        for i in range(len(pages)):
            objs[21 + 2 * i][b"Resources"] = res
    if kind == "noresources":
        for i in (0, 2):
            objs[21 + 2 * i][b"Resources"] = {b"Font": {b"F1": W.R(10)}, b"XObject": {b"Fm0": W.R(43)}}
        if variant % 2:
            del objs[23][b"Resources"]
        else:
            objs[23][b"Resources"] = {}
    if kind == "formnores":
        for i in range(len(pages)):
            objs[21 + 2 * i][b"Resources"] = {b"Font": {b"F1": W.R([10, 15][(i + variant) % 2])}, b"XObject": {b"Fm0": W.R(43)}}
    if kind == "sharedempty":
        for i in range(len(pages)):
            pg = objs[21 + 2 * i]
            pg[b"Contents"] = [W.R(41), pg[b"Contents"]] if (i + variant) % 2 == 0 else [pg[b"Contents"], W.R(41)]
            pg[b"Resources"] = {b"Font": {b"F1": W.R(10)}, b"XObject": {b"E0": W.R(42)}}
    if kind == "damaged":
        # the last page: /Contents [40 0 R <its own stream>]
        last = 21 + 2 * (len(pages) - 1)
        objs[last][b"Contents"] = [W.R(40), objs[last][b"Contents"]]
        # only page one needs the font whose entry is wrong
        objs[21][b"Resources"] = {b"Font": {b"F1": W.R(10)}}
        objs[last][b"Resources"] = {b"Font": {b"F2": W.R(15)}}
        data = bytearray(W.build_pdf(objs))
        x = data.rindex(b"xref\n0 ")
        first = data.index(b"\n", x + 5) + 1

        def entry(n):
            return first + 20 * n

        off10 = int(data[entry(10):entry(10) + 10])
        data[entry(10):entry(10) + 10] = b"%010d" % (off10 + [7, 3][variant % 2])
        data[entry(40):entry(40) + 18] = b"0000000000 65535 f"
        return bytes(data)
    if kind == "crypt":
        from vlib import crypt as CR
        id0 = bytes([variant + 1]) * 16
        h = CR.Handler(4, 4, 128, ["V2", "AESV2"][variant % 2], True, CR.make_P(True, True, True), id0, "",
                       "owner%d" % variant, random.Random(variant))
        return CR.build_file(objs, {}, {b"Root": W.R(1), b"ID": [id0, id0]}, handler=h)
    return W.build_pdf(objs)


_DOCS = {}


def load_doc(spec):
    key = json.dumps(spec)
    if key not in _DOCS:
        if spec[0] == "sample":
            _DOCS[key] = (open(os.path.join(REPO, spec[1]), "rb").read(), spec[2])
        else:
            _DOCS[key] = (gen_doc(spec[1], spec[2]), "")
    return _DOCS[key]


def make_pool(rnd):
    pool = []
    sv = rnd.choice([(0, 1), (2, 3), (3, 2), (0, 3), (1, 2), (3, 2)])
    pool.append(["gen", "simple", sv[0]])
    pool.append(["gen", "simple", sv[1]])
    k = rnd.choice(["tounicode", "cid"])
    v = rnd.sample(range(4), 2)
    pool.append(["gen", k, v[0]])
    pool.append(["gen", k, v[1]])
    pool.append(["gen", "grid", rnd.randrange(2)])
    pool.append(["gen", "shared", 0])
    pool.append(["gen", "shared", 1])
    fv = rnd.sample(range(3), 2)
    pool.append(["gen", "fontfile", fv[0]])
    pool.append(["gen", "fontfile", fv[1]])
    pool.append(["gen", "mixedfonts", rnd.randrange(2)])
    pool.append(["gen", "damaged", rnd.randrange(2)])
    pool.append(["gen", "unbalanced", rnd.randrange(3)])
    pool.append(["gen", "sharedempty", rnd.randrange(2)])
    pool.append(["gen", "noresources", rnd.randrange(2)])
    pool.append(["gen", "overprint", rnd.randrange(3)])
    pool.append(["gen", "recursiveform", rnd.randrange(2)])
    pool.append(["gen", "csnames", 0])
    pool.append(["gen", "csnames", 1])
    pool.append(["gen", "cmapstream", 0])
    pool.append(["gen", "cmapstream", 1])
    pool.append(["gen", "sharedcontents", rnd.randrange(2)])
    cv = rnd.sample(range(4), 2)
    pool.append(["gen", "crypt", cv[0]])
    pool.append(["gen", "crypt", cv[1]])
    for s in rnd.sample(SAMPLES, 2):
        pool.append(["sample", s[0], s[1]])
    order = list(range(len(pool)))
    rnd.shuffle(order)
    # (appended after the shuffle: the order of the other members is as it was before this member existed)
    return [pool[i] for i in order] + [["gen", "formnores", rnd.randrange(2)]]


# ------------------------------------------------------------------ canonical results
def mk_la(name):
    from pdfminer.layout import LAParams

    return LAParams() if name == "default" else LAParams(boxes_flow=None)


def canon(item):
    from pdfminer.layout import LTAnno, LTChar, LTContainer, LTCurve, LTImage, LTTextBox

    d = {"c": type(item).__name__}
    if hasattr(item, "bbox"):
        d["bbox"] = [repr(float(v)) for v in item.bbox]
    if isinstance(item, LTChar):
        d.update(t=item.get_text(), font=item.fontname, adv=repr(item.adv), m=[repr(float(v)) for v in item.matrix],
                 nc=repr(item.graphicstate.ncolor), sc=repr(item.graphicstate.scolor), up=item.upright, size=repr(item.size))
    elif isinstance(item, LTAnno):
        d["t"] = item.get_text()
    elif isinstance(item, LTCurve):
        d.update(pts=[[repr(float(a)), repr(float(b))] for a, b in item.pts], lw=repr(item.linewidth), s=item.stroke,
                 f=item.fill, sc=repr(item.stroking_color), nc=repr(item.non_stroking_color))
    elif isinstance(item, LTImage):
        d.update(name="img", src=repr(item.srcsize), bits=item.bits)
    if isinstance(item, LTTextBox):
        d["index"] = item.index
    if isinstance(item, LTContainer):
        d["kids"] = [canon(c) for c in item]
    return d


def canon_page(p):
    return json.dumps(canon(p), sort_keys=True, ensure_ascii=True)


def compute_all(data, pw):
    """Everything the histories can ask for, for one document.  Run in a fresh interpreter for baselines."""
    from pdfminer.high_level import extract_pages, extract_text, extract_text_to_fp

    out = {}

    def attempt(key, fn):
        # a pool member that cannot be extracted in the fresh process is recorded as such: whatever a history then
        # produces for it (a value, or the exception again) is reported against this baseline by run_case
        try:
            out[key] = fn()
        except Exception as e:
            out[key] = {"$exc": "%s: %s" % (type(e).__name__, e)}

    def xml(la):
        fp = io.StringIO()
        extract_text_to_fp(io.BytesIO(data), fp, output_type="xml", codec=None, laparams=mk_la(la), password=pw)
        return fp.getvalue()

    for la in LAS:
        attempt("text:" + la, lambda: extract_text(io.BytesIO(data), password=pw, laparams=mk_la(la)))
        attempt("pages:" + la, lambda: [canon_page(p) for p in extract_pages(io.BytesIO(data), password=pw,
                                                                             laparams=mk_la(la))])
        attempt("xml:" + la, lambda: xml(la))
    return out


_BASE = {}


def baseline(spec):
    data, pw = load_doc(spec)
    key = hashlib.sha1(data).hexdigest()
    if key not in _BASE:
        env = dict(os.environ)
        env["PYTHONPATH"] = os.pathsep.join([REPO, HERE])
        env["PYTHONHASHSEED"] = "0"
        code = ("import sys, json, logging; logging.getLogger('pdfminer').setLevel(logging.CRITICAL); "
                "from props import c12; data = sys.stdin.buffer.read(); "
                "sys.stdout.write(json.dumps(c12.compute_all(data, sys.argv[1])))")
        r = subprocess.run([sys.executable, "-c", code, pw], input=data, capture_output=True, env=env, cwd=HERE)
        if r.returncode != 0:
            raise RuntimeError("baseline subprocess failed: %s" % r.stderr.decode()[-2000:])
        _BASE[key] = json.loads(r.stdout.decode())
    return _BASE[key]


# ------------------------------------------------------------------ running a history
def run_case(case):
    from pdfminer.high_level import extract_pages, extract_text, extract_text_to_fp

    pool = case["pool"]
    docs = [load_doc(s) for s in pool]
    base = [baseline(s) for s in pool]
    iters = []  # [doc index, la, generator, next page index]
    touched = []
    interleaved = False
    flip = False
    last_caching = {}
    last_doc = None
    classes = []
    shared_rsrc = None

    def note(d, caching):
        nonlocal flip, last_doc
        touched.append(d)
        if d in last_caching and last_caching[d] != caching:
            flip = True
        last_caching[d] = caching
        last_doc = d

    for step, op in enumerate(case["ops"]):
        k = op[0]
        try:
            if k == "text":
                _, d, la, caching = op
                d %= len(pool)
                note(d, caching)
                got = extract_text(io.BytesIO(docs[d][0]), password=docs[d][1], laparams=mk_la(la), caching=caching)
                if got != base[d]["text:" + la]:
                    return _fail(case, step, classes, "extract_text(doc %d %s, la=%s, caching=%r) differs from the fresh-process "
                                 "baseline: %r vs %r" % (d, pool[d], la, caching, _diff(got, base[d]["text:" + la]), ""))
            elif k == "pages":
                _, d, la, caching = op
                d %= len(pool)
                note(d, caching)
                got = [canon_page(p) for p in extract_pages(io.BytesIO(docs[d][0]), password=docs[d][1], laparams=mk_la(la),
                                                            caching=caching)]
                if got != base[d]["pages:" + la]:
                    return _fail(case, step, classes, "extract_pages(doc %d %s, la=%s, caching=%r) differs from baseline: %s" % (
                        d, pool[d], la, caching, _pagesdiff(got, base[d]["pages:" + la])))
            elif k == "xml":
                _, d, la, caching = op
                d %= len(pool)
                note(d, caching)
                fp = io.StringIO()
                extract_text_to_fp(io.BytesIO(docs[d][0]), fp, output_type="xml", codec=None, laparams=mk_la(la),
                                   password=docs[d][1], disable_caching=not caching)
                if fp.getvalue() != base[d]["xml:" + la]:
                    return _fail(case, step, classes, "xml output (doc %d %s, la=%s, caching=%r) differs from baseline: %s" % (
                        d, pool[d], la, caching, _diff(fp.getvalue(), base[d]["xml:" + la])))
            elif k == "shared":
                # the low-level API with one resource manager that has font caching switched off, kept for the whole
                # history: with caching off nothing of one document may be remembered for the next
                _, d, la = op
                d %= len(pool)
                note(d, False)
                from pdfminer.converter import PDFPageAggregator
                from pdfminer.pdfinterp import PDFPageInterpreter, PDFResourceManager
                from pdfminer.pdfpage import PDFPage

                if shared_rsrc is None:
                    shared_rsrc = PDFResourceManager(caching=False)
                dev = PDFPageAggregator(shared_rsrc, laparams=mk_la(la))
                ip = PDFPageInterpreter(shared_rsrc, dev)
                got = []
                for pg in PDFPage.get_pages(io.BytesIO(docs[d][0]), password=docs[d][1], caching=False):
                    ip.process_page(pg)
                    got.append(canon_page(dev.get_result()))
                if got != base[d]["pages:" + la]:
                    return _fail(case, step, classes, "pages of doc %d %s rendered through a shared PDFResourceManager("
                                 "caching=False) differ from baseline: %s" % (d, pool[d], _pagesdiff(got, base[d]["pages:" + la])))
            elif k == "open":
                _, d, la, caching = op
                d %= len(pool)
                note(d, caching)
                iters.append([d, la, extract_pages(io.BytesIO(docs[d][0]), password=docs[d][1], laparams=mk_la(la),
                                                   caching=caching), 0])
            elif k == "next":
                if not iters:
                    continue
                it = iters[op[1] % len(iters)]
                d, la = it[0], it[1]
                if last_doc is not None and last_doc != d:
                    interleaved = True
                last_doc = d
                touched.append(d)
                want = base[d]["pages:" + la]
                try:
                    p = next(it[2])
                except StopIteration:
                    if it[3] != len(want):
                        return _fail(case, step, classes, "page iterator of doc %d ended after %d pages, baseline has %d" % (
                            d, it[3], len(want)))
                    iters.remove(it)
                    continue
                if it[3] >= len(want) or canon_page(p) != want[it[3]]:
                    return _fail(case, step, classes, "interleaved iterator of doc %d %s (la=%s): page %d differs from baseline: %s" % (
                        d, pool[d], la, it[3], _diff(canon_page(p), want[it[3]] if it[3] < len(want) else "")))
                it[3] += 1
            elif k == "single":
                _, d, i, la, caching = op
                d %= len(pool)
                note(d, caching)
                want = base[d]["pages:" + la]
                i %= max(1, len(want))
                got = [canon_page(p) for p in extract_pages(io.BytesIO(docs[d][0]), password=docs[d][1], page_numbers=[i],
                                                            laparams=mk_la(la), caching=caching)]
                if got != want[i:i + 1]:
                    return _fail(case, step, classes, "single-page extraction of page %d (doc %d %s, la=%s, caching=%r) differs "
                                 "from the page extracted with the whole document: %s" % (i, d, pool[d], la, caching,
                                                                                      _pagesdiff(got, want[i:i + 1])))
        except Exception as e:
            return _fail(case, step, classes, "op %r raised %s: %s" % (op, type(e).__name__, e))
    for it in iters:
        it[2].close()
    nt = len(set(touched)) >= 2 and (interleaved or flip)
    if interleaved:
        classes.append("interleaved")
    if flip:
        classes.append("caching-flip")
    classes.append("docs:%d" % len(set(touched)))
    return Outcome(classes, nt, sample={"pool": pool, "ops": case["ops"][:12]})


def _fail(case, step, classes, msg):
    return Outcome(classes, True, fail="step %d: %s; history so far=%r" % (step, msg, case["ops"][:step + 1]))


def _diff(a, b):
    i = next((k for k in range(min(len(a), len(b))) if a[k] != b[k]), min(len(a), len(b)))
    return "at %d: %r vs baseline %r" % (i, a[max(0, i - 30):i + 40], b[max(0, i - 30):i + 40])


def _pagesdiff(a, b):
    if len(a) != len(b):
        return "%d pages vs baseline %d" % (len(a), len(b))
    for i, (x, y) in enumerate(zip(a, b)):
        if x != y:
            return "page %d %s" % (i, _diff(x, y))
    return "?"


# ---------------------------------------------------------------------------------------------- generators
def op_strategy():
    d = st.integers(0, 50)
    la = st.sampled_from(LAS)
    c = st.booleans()
    return st.one_of(
        st.tuples(st.just("shared"), d, la),
        st.tuples(st.just("text"), d, la, c), st.tuples(st.just("pages"), d, la, c), st.tuples(st.just("xml"), d, la, c),
        st.tuples(st.just("open"), d, la, c), st.tuples(st.just("open"), d, la, c),
        st.tuples(st.just("next"), st.integers(0, 7)), st.tuples(st.just("next"), st.integers(0, 7)),
        st.tuples(st.just("next"), st.integers(0, 7)),
        st.tuples(st.just("single"), d, st.integers(0, 3), la, c),
    )


def plan(tier):
    q = tier == "quick"
    return [{"n": 60 if q else 400, "steps": 20 if q else 40} for _ in range(16 if q else 48)] + [{"kind": "flood"}]


def flood_cases():
    """Fixed histories around one document that makes the process intern 70 000 new names."""
    pool = [["gen", "simple", 0], ["gen", "cid", 0], ["gen", "manynames", 0], ["gen", "crypt", 1]]
    for c1 in (True, False):
        yield {"pool": pool, "ops": [["text", 0, "default", c1], ["pages", 1, "default", True], ["text", 2, "default", c1],
                                     ["text", 0, "default", c1], ["pages", 1, "flownone", not c1], ["xml", 3, "default", True],
                                     ["text", 2, "default", not c1], ["xml", 0, "default", c1]]}
    yield {"pool": pool, "ops": [["open", 0, "default", True], ["open", 1, "default", True], ["text", 2, "default", True],
                                 ["next", 0], ["next", 1], ["next", 0], ["next", 1], ["text", 3, "default", False]]}


def run_shard(spec, ctx):
    if spec.get("kind") == "flood":
        from vlib.runner import enum_search

        return enum_search(ctx, flood_cases(), run_case)
    pool = make_pool(random.Random(ctx.hseed("pool")))
    strat = st.lists(op_strategy(), min_size=2, max_size=spec["steps"]).map(lambda ops: {"pool": pool, "ops": [list(o) for o in ops]})
    res = hyp_search(ctx, strat, run_case, spec["n"])
    res.extra["pools"] = 1
    return res
