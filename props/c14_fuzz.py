#!/venv/bin/python
"""Coverage-guided campaign for C14 (atheris / libFuzzer), same oracle as props/c14.py inside the target.
usage: c14_fuzz.py <artifact dir> -runs=N -seed=S [corpus dir]        (run by props/c14.py in the thorough tier)"""
import os
import sys

HERE = os.path.dirname(os.path.dirname(os.path.abspath(__file__)))
repo = os.environ.get("VERIF_REPO", "/repo")
sys.path[:0] = [repo, HERE]
sys.path.append(os.path.join(HERE, ".deps"))

import atheris  # noqa: E402

with atheris.instrument_imports(include=["pdfminer.psparser"]):
    import pdfminer.psparser  # noqa: F401

from props import c14  # noqa: E402

ART = sys.argv[1]


def TestOneInput(data):
    if len(data) > 400:
        return
    out = c14.run_case({"data": bytes(data), "bufsizes": [1, 2, 3, 7, 16]})
    if out.fail:
        with open(os.path.join(ART, "violation.txt"), "w") as f:
            f.write(out.fail)
        raise RuntimeError(out.fail)


if __name__ == "__main__":
    argv = [sys.argv[0], "-artifact_prefix=" + ART + "/"] + sys.argv[2:]
    atheris.Setup(argv, TestOneInput)
    atheris.Fuzz()
