"""C01 — every conformant spelling of a value reads back as that value, for every buffer size / offset."""
import io
import sys

from hypothesis import strategies as st

from vlib import pdfwrite as W
from vlib import strategies as S
from vlib import runner
from vlib.runner import Outcome, hyp_search

ID = "C01"
LEVEL = "exploration"
RULE = ("Hypothesis draws a PDF value (null/bool/int/real/name/string/array/dict/reference, nested) and one "
        "ISO 32000-1 conformant spelling of it (white space incl. NUL/FF, comments, literal-string escapes, octal "
        "forms, line continuations, balanced raw parentheses, hex strings with case/space/odd length, #xx names, "
        "signs/leading zeros, zero-width separation).  Path (a): PDFStreamParser(b'[..]').nextobject(); path (b): "
        "a file with the value as `n g obj .. endobj` behind 0-5000 bytes of padding read with PDFDocument.getobj. "
        "Each is read at BUFSIZ 4096 and 3 drawn sizes from {1,2,3,4,5,7,8,16,31,64}; result must equal the value "
        "type-strictly every time.  Non-trivial = spelling uses >=1 non-canonical feature; distinct by spelled bytes.")
ASSUMPTIONS = ["vlib/pdfwrite.py emits only ISO 32000-1 conformant spellings",
               "raw CR inside literal strings and unknown escapes are outside the domain (DESIGN.md C01)"]

BUFS = [1, 2, 3, 4, 5, 7, 8, 16, 31, 64]


def _with_bufsiz(b, fn):
    from pdfminer.psparser import PSBaseParser

    old = PSBaseParser.BUFSIZ
    PSBaseParser.BUFSIZ = b
    try:
        return fn()
    finally:
        PSBaseParser.BUFSIZ = old


def _read_stream(data):
    from pdfminer.pdfparser import PDFStreamParser
    from pdfminer.psexceptions import PSEOF

    p = PDFStreamParser(data)
    (_, obj) = p.nextobject()
    rest = []
    try:
        while len(rest) < 3:
            rest.append(p.nextobject()[1])
    except PSEOF:
        pass
    return obj, rest


def _read_doc(data, n):
    from pdfminer.pdfdocument import PDFDocument
    from pdfminer.pdfparser import PDFParser

    doc = PDFDocument(PDFParser(io.BytesIO(data)))
    return doc.getobj(n), []


def chain_cases():
    """Single-child chains nested 1000 - 20000 deep (arrays, dictionaries, alternating), written without white space
    or with some.  They are read under the interpreter's default recursion limit and compared by walking down, so
    that neither the harness nor a raised limit hides a reader that recurses (or builds a repr) per level."""
    for n in (1000, 3000, 20000):
        for pat in ("a", "d", "ad"):
            for sep in (b"", b" ", b"\n"):
                kinds = [pat[i % len(pat)] for i in range(n)]
                head = sep.join(b"[" if k == "a" else b"<</K" for k in kinds)
                tail = sep.join(b"]" if k == "a" else b">>" for k in reversed(kinds))
                yield {"mode": "stream", "chain": True, "kinds": "".join(kinds), "data": head + b" 42 " + tail + b" ",
                       "spelled": head[:60], "bufsizes": [1, 7, 4096], "features": ["chain-depth-%d" % n]}


def flood_case():
    """70 000 distinct names read in one array, then a few new names written twice (once with a #xx escape): names
    made of the same characters are one and the same object (ISO 32000-1 7.3.5; `x is LIT("Name")` is how the library
    itself compares names), however many names the process has seen."""
    names = b" ".join(b"/Fl%05d" % i for i in range(70000))
    return {"mode": "stream", "flood": True, "data": b"[" + names + b"] [/Zq1 /Zq#31 /Zq1 /Other /Zq1] ",
            "spelled": b"[/Fl00000 ... /Fl69999] [/Zq1 /Zq#31 /Zq1 /Other /Zq1]", "bufsizes": [4096], "features": ["name-flood"]}


def run_flood(case):
    from pdfminer.pdfparser import PDFStreamParser
    from pdfminer.psparser import LIT, PSLiteral

    classes = ["mode:stream", "f:name-flood"]
    try:
        p = PDFStreamParser(case["data"])
        (_, big) = p.nextobject()
        (_, small) = p.nextobject()
    except BaseException as e:
        return Outcome(classes, True, fail="reading 70000 names raised %s: %s" % (type(e).__name__, str(e)[:100]))
    if len(big) != 70000 or any(not isinstance(n, PSLiteral) or n.name != "Fl%05d" % i for i, n in enumerate(big)):
        return Outcome(classes, True, fail="an array of 70000 distinct names does not read back as those names")
    a, b, c, o, d = small
    if not (a is b and a is c and a is d and a is LIT("Zq1") and o is not a and o is LIT("Other")):
        return Outcome(classes, True, fail="after 70000 other names, /Zq1 /Zq#31 /Zq1 read as %r: not one and the same name object "
                       "(is LIT('Zq1'): %r)" % (small, a is LIT("Zq1")))
    return Outcome(classes, True, fp=None, sample={"spelled": repr(case["spelled"])})


def run_chain(case):
    classes = ["mode:stream", "f:deep-chain"] + ["f:" + f for f in case["features"]]
    for b in case["bufsizes"]:
        try:
            obj, rest = _with_bufsiz(b, lambda: _read_stream(case["data"]))
        except BaseException as e:  # RecursionError included
            return Outcome(classes, True, fail="BUFSIZ=%d: a chain of %d nested containers raised %s: %s; spelled=%r..." % (
                b, len(case["kinds"]), type(e).__name__, str(e)[:100], case["spelled"]))
        o = obj
        for i, k in enumerate(case["kinds"]):
            ok = (type(o) is list and len(o) == 1) if k == "a" else (type(o) is dict and list(o) == ["K"])
            if not ok:
                return Outcome(classes, True, fail="BUFSIZ=%d: level %d of a chain of %d nested containers is %s; spelled=%r..." % (
                    b, i, len(case["kinds"]), type(o).__name__, case["spelled"]))
            o = o[0] if k == "a" else o["K"]
        if o != 42 or type(o) is not int or rest:
            return Outcome(classes, True, fail="BUFSIZ=%d: innermost value of a chain of %d nested containers is %r (residue %r)" % (
                b, len(case["kinds"]), o, rest))
    return Outcome(classes, True, fp=None, sample={"spelled": repr(case["spelled"]), "depth": len(case["kinds"])})


def run_case(case):
    if case.get("flood"):
        return run_flood(case)
    if case.get("chain"):
        return run_chain(case)
    # the harness's own recursive helpers (serialiser, comparison, JSON encoding) need head-room for the 300-level
    # values of the thorough tier; pdfminer's parser keeps an explicit context stack and does not recurse
    old_limit = sys.getrecursionlimit()
    sys.setrecursionlimit(max(old_limit, 20000))
    try:
        return _run_case(case)
    finally:
        sys.setrecursionlimit(old_limit)


def _run_case(case):
    mode = case["mode"]
    data = case["data"]
    exp = W.expected(case["value"])
    classes = ["mode:" + mode] + ["f:" + f for f in case.get("features", [])]
    nt = bool(case.get("features"))
    if "odd-length-hex" in case.get("features", []) and "odd-length-hex" in runner.ACTIVE_KNOWN:
        return Outcome(classes, known="odd-length-hex")
    for b in [4096] + list(case["bufsizes"]):
        try:
            if mode == "stream":
                obj, rest = _with_bufsiz(b, lambda: _read_stream(data))
            else:
                obj, rest = _with_bufsiz(b, lambda: _read_doc(data, case["objid"]))
        except Exception as e:
            return Outcome(classes, nt, fail="BUFSIZ=%d mode=%s: raised %s: %s; spelled=%r" % (
                b, mode, type(e).__name__, e, case["spelled"][:300]))
        got = W.observe(obj)
        if not W.same(got, exp):
            return Outcome(classes, nt, fail="BUFSIZ=%d mode=%s: %s; spelled=%r" % (
                b, mode, W.first_diff(exp, got), case["spelled"][:300]))
        if rest:
            return Outcome(classes, nt, fail="BUFSIZ=%d mode=%s: residue after the object: %r; spelled=%r" % (
                b, mode, rest, case["spelled"][:300]))
    return Outcome(classes, nt, fp=None, sample={"spelled": case["spelled"][:200], "mode": mode,
                                                  "bufsizes": case["bufsizes"], "features": case.get("features")})


@st.composite
def cases(draw, mode, max_leaves, str_max, deep=False):
    if deep:
        raise ValueError("deep cases are built outside Hypothesis, see deep_cases()")
    else:
        v = draw(S.values(max_leaves, str_max))
    ch = W.Drawn(draw)
    bufs = sorted(set(draw(st.lists(st.sampled_from(BUFS), min_size=3, max_size=3))))
    if mode == "stream":
        bare = draw(st.integers(0, 3)) == 0 and not (isinstance(v, tuple) and v[:1] == ("F",))
        if not bare:
            v = [v]
        toks = []
        W.tokens(ch, v, toks)
        # bare: the object itself is the whole data and the data ends with its last byte (e.g. the last member of an
        # object stream): a number, name or keyword is completed by the end of the data
        data = W.join(ch, toks, lead=True, trail=not bare or draw(st.booleans()))
        return {"mode": mode, "value": v, "data": data, "spelled": data, "bufsizes": bufs,
                "features": sorted(ch.features | ({"bare-at-end-of-data"} if bare else set()))}
    toks = [W._tok(b"obj")]
    W.tokens(ch, v, toks)
    toks.append(W._tok(b"endobj"))
    n = draw(st.sampled_from([3, 5, 17, 1000]))
    g = draw(st.sampled_from([0, 0, 3, 65535]))
    body = b"%d %d " % (n, g) + W.join(ch, toks) + b"\n"
    pad = draw(st.one_of(st.integers(0, 80), st.integers(0, 5000)))
    out = bytearray(b"%PDF-1.7\n")
    while pad > 0:
        k = min(pad, 70)
        out += (b"%" + b"p" * (k - 2) + b"\n") if k >= 2 else b"\n"
        pad -= k
    offs = {}
    offs[1] = len(out)
    out += W.obj_bytes(1, 0, W.D(Type=W.N("Catalog"), Pages=W.R(2)))
    offs[2] = len(out)
    out += W.obj_bytes(2, 0, W.D(Type=W.N("Pages"), Kids=[], Count=0))
    offs[n] = len(out)
    out += body
    x = len(out)
    ent = {0: (0, 65535, "f"), 1: (offs[1], 0, "n"), 2: (offs[2], 0, "n"), n: (offs[n], g, "n")}
    out += W.xref_table(ent)
    out += b"trailer\n" + W.ser({b"Size": n + 1, b"Root": W.R(1)}) + b"\nstartxref\n%d\n%%%%EOF\n" % x
    return {"mode": mode, "value": v, "data": bytes(out), "objid": n, "spelled": body, "bufsizes": bufs,
            "features": sorted(ch.features)}


def plan(tier):
    q = tier == "quick"
    specs = []
    for i in range(16):
        specs.append({"mode": "stream", "n": 1500 if q else 12000, "leaves": 12 if q else 25, "str": 40 if q else 200})
    for i in range(8):
        specs.append({"mode": "doc", "n": 300 if q else 2500, "leaves": 10 if q else 20, "str": 40 if q else 200})
    if not q:
        for i in range(4):
            specs.append({"mode": "stream", "n": 300, "leaves": 1, "str": 20, "deep": True})
    specs.append({"mode": "stream", "chain": True})
    return specs


def deep_cases(seed, n):
    """Values nested 50-300 levels deep.  Built with a seeded PRNG outside Hypothesis, which manages the interpreter's
    recursion limit itself and leaves the harness's recursive helpers too little room."""
    import random

    rnd = random.Random(seed)
    leaves = [None, True, 7, W.Real("1.5"), W.N("Nm"), b"s(t)r", W.R(3), [], {}]
    for _ in range(n):
        v = [S.deep_value(rnd.randint(50, 300), rnd.choice(leaves))]
        ch = W.Rand(rnd)
        toks = []
        W.tokens(ch, v, toks)
        data = W.join(ch, toks, lead=True, trail=True)
        yield {"mode": "stream", "value": v, "data": data, "spelled": data[:300], "bufsizes": sorted(rnd.sample(BUFS, 3)),
               "features": sorted(ch.features | {"deep-nesting"})}


def run_shard(spec, ctx):
    if spec.get("chain"):
        from vlib.runner import enum_search

        return enum_search(ctx, list(chain_cases()) + [flood_case()], run_case)
    if spec.get("deep"):
        from vlib.runner import enum_search

        sys.setrecursionlimit(30000)
        return enum_search(ctx, deep_cases(ctx.hseed("deep"), spec["n"]), run_case)
    return hyp_search(ctx, cases(spec["mode"], spec["leaves"], spec["str"], spec.get("deep", False)), run_case,
                      spec["n"])
