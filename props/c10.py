"""C10 -- decryption: either password opens the document to exactly the original content."""
import io
import logging
import os
import random

from hypothesis import strategies as st

from vlib import crypt as C
from vlib import filters as F
from vlib import pdfwrite as W
from vlib import runner
from vlib.runner import Outcome, hyp_search

ID = "C10"
LEVEL = "exploration"
RULE = ("Hypothesis draws a standard-security-handler configuration -- (V1,R2,40), (V2,R3,40..128 step 8), (V4,R4) with "
        "CFM V2 / AESV2 / Identity, (V5,R5) and (V5,R6) with AESV3; EncryptMetadata; P (bits 3,4,5 and the other "
        "non-reserved bits free, negative); /ID absent or 0-32 bytes; user and owner passwords (empty, ASCII, Latin-1, "
        "31/32/33+ bytes; for R5/R6 Unicode accepted by SASLprep incl. compatibility forms, non-ASCII spaces, "
        "mapped-to-nothing characters, right-to-left scripts, > 127 UTF-8 bytes) -- and a plaintext document: page "
        "tree with a text page, Info, a /Type /Metadata stream, data objects with strings (lengths 0/15/16/17/32/.., "
        "PKCS#7 look-alike tails) at nesting depth 0-3, streams (unfiltered / Flate / ASCIIHex / ASCII85 / chains, "
        "payload lengths around the AES block size, optional indirect /Length, optional strings in the stream "
        "dictionary), object numbers up to 2^24-1 and generations up to 65535, optional object streams (members hold "
        "strings), classic table or cross-reference stream, /Encrypt direct or indirect.  vlib/crypt.py (own RC4, "
        "AES encryptor of `cryptography`, Algorithms 1-5, 1.A, 2.B, 8-10, RFC 4013) encrypts every string and stream "
        "of every uncompressed object; the same assembly without handler gives the original.  Oracle: with the user "
        "and with the owner password (and, R6, the SASLprep-normalised spelling) PDFDocument opens, every getobj(n) "
        "equals the plaintext value (strings, stream dictionaries, get_data()), /ID and the /Encrypt strings are "
        "untouched (also when read through getobj of an indirect /Encrypt or of the cross-reference stream object, "
        "which is never encrypted), is_printable/modifiable/extractable = bits 3/4/5, extract_text = that of the "
        "original; near-miss passwords (prefix, case, appended byte, appended padding bytes, empty, another drawn "
        "password) that differ from both passwords after the revision's own preparation, and one password the "
        "revision's encoding cannot represent (non-Latin-1 for R<=4, SASLprep-prohibited for R5/R6, offending character "
        "first), raise PDFPasswordIncorrect.  Non-trivial = AES with a "
        "string/stream whose length is a multiple of 16, or an object stream, or EncryptMetadata false, or owner-password "
        "authentication with a distinct owner password, or a non-ASCII password.  Distinct by case bytes.")
ASSUMPTIONS = [
    "vlib/crypt.py is validated at start-up: RC4/AES/SASLprep published vectors; O, U, OE, UE, Perms of the seven "
    "third-party files in samples/encryption (cpdf, pyHanko) are reproduced bit for bit from their passwords",
    "R <= 4 passwords use characters whose PDFDocEncoding and Latin-1 codes coincide (U+20-7E, U+A1-FF except AD)",
    "R5 (Adobe ExtensionLevel 3, not ISO) passwords are restricted to SASLprep-stable strings: pdfminer does not "
    "apply SASLprep for R5 and the statement does not settle which normalisation a deprecated revision uses",
    "V4 uses 128-bit keys (Encrypt /Length 128, crypt filter /Length 16) and StmF = StrF; hybrid files, /Crypt "
    "filters, public-key handlers and per-stream crypt filter overrides are outside the domain",
    "the plaintext original must read back exactly through the same assembly, otherwise the run is a harness error",
]


def selfcheck():
    C.selfcheck(os.path.join(os.environ.get("VERIF_REPO", "/repo"), "samples", "encryption"))


# --------------------------------------------------------------------------
# oracle
# --------------------------------------------------------------------------
def _strip_len(e):
    """expected/observed canonical stream -> without the /Length entry (it describes the encrypted size)."""
    if e[0] == "stream":
        d = dict(e[1][1])
        d.pop("Length", None)
        return ("stream", ("dict", d), e[2])
    return e


def _expected(v, payloads, n):
    e = W.expected(v)
    if e[0] == "stream":
        e = ("stream", e[1], payloads[n])
    return _strip_len(e)


def _check_objects(doc, case, who, which="enc"):
    """Returns a failure message or None."""
    payloads = case["payloads"]
    xs = case.get("xrefstm")
    if xs and not (which == "enc" and "xref-stream-object" in runner.ACTIVE_KNOWN):
        # the cross-reference stream is an indirect object too; it is never encrypted (ISO 32000-1 7.5.8.2)
        try:
            o = doc.getobj(xs["n"])
            data = o.get_data()
            got_id = o.attrs.get("ID")
        except Exception as e:
            return "%s: reading cross-reference stream object %d raised %s: %s" % (who, xs["n"], type(e).__name__, e)
        if data != xs[which]:
            return "%s: cross-reference stream object %d: get_data() %r..., written (unencrypted) %r..." % (
                who, xs["n"], data[:24], xs[which][:24])
        if got_id != case["id"]:
            return "%s: cross-reference stream object %d: /ID %r, written %r" % (who, xs["n"], got_id, case["id"])
    for rep in ("", " (read a second time)"):
        for n, g, v in case["objs"]:
            try:
                got = _strip_len(W.observe(doc.getobj(n)))
            except Exception as e:
                return "%s: getobj(%d) [gen %d]%s raised %s: %s" % (who, n, g, rep, type(e).__name__, e)
            exp = _expected(v, payloads, n)
            if not W.same(exp, got):
                return "%s: object %d gen %d%s differs from the original: %s" % (who, n, g, rep, W.first_diff(exp, got))
    return None


def _open(pdf, pw, caching=True):
    from pdfminer.pdfdocument import PDFDocument
    from pdfminer.pdfparser import PDFParser

    return PDFDocument(PDFParser(io.BytesIO(pdf)), password=pw, caching=caching)


def _text(pdf, pw):
    from pdfminer.high_level import extract_text

    return extract_text(io.BytesIO(pdf), password=pw)


_DECOYS = {}


def _decoy(kind):
    """Another encrypted document (same crypt filter name /StdCF, its own file key) that is opened between opening the
    document under test and reading its objects: an open document's decryption must not depend on other documents."""
    if kind not in _DECOYS:
        V, R, bits, cfm = {"V4-RC4": (4, 4, 128, "V2"), "V4-AES": (4, 4, 128, "AESV2"), "V5": (5, 6, 256, "AESV3"),
                           "V2": (2, 3, 128, None)}[kind]
        id0 = b"decoy-id-0123456"
        h = C.Handler(V, R, bits, cfm, True, C.make_P(True, True, True), id0, "", "decoy-owner", random.Random(99))
        objs = {1: W.D(Type=W.N("Catalog"), Pages=W.R(2)), 2: W.D(Type=W.N("Pages"), Kids=[W.R(3)], Count=1),
                3: W.D(Type=W.N("Page"), Parent=W.R(2), MediaBox=[0, 0, 200, 200], Contents=W.R(4)),
                4: W.Stream({}, b"BT ET"), 5: b"decoy string"}
        _DECOYS[kind] = C.build_file(objs, {}, {b"Root": W.R(1), b"ID": [id0, id0]}, handler=h)
    return _DECOYS[kind]


def run_case(case):
    from pdfminer.pdfdocument import PDFPasswordIncorrect
    from pdfminer.pdftypes import resolve1

    classes = list(case["classes"])
    nt = bool(case["nt"])
    desc = case["desc"]
    # Classifier keys of findings that may be registered in KNOWN_FINDINGS.txt instead of being repaired
    # (see notes/C10.md).  A registered key removes exactly the sub-check / the cases that exercise that defect.
    known = runner.ACTIVE_KNOWN
    if "crypt-filter-default" in known and "identity-by-default" in classes:
        return Outcome(classes, known="crypt-filter-default")
    if "stream-dict-strings" in known and "stream-dict-string" in classes:
        return Outcome(classes, known="stream-dict-strings")
    opens, wrong = case["opens"], case["wrong"]
    if "wrong-password-unencodable" in known:
        wrong = [w for w in wrong if w[0] != "unencodable"]
    if "password-maps-to-empty" in known and desc["kind"] == "R6":
        opens = [o for o in opens if o[1] == "" or C.prep_password(o[1], 6) != b""]
    lg = logging.getLogger("pdfminer")
    old_level = lg.level
    lg.setLevel(logging.ERROR)
    try:
        # ---- the unencrypted original (harness validation: failures here are not C10 violations)
        doc0 = _open(case["plain"], "")
        msg = _check_objects(doc0, case, "plain original", "plain")
        if msg:
            raise RuntimeError("harness: %s; desc=%r" % (msg, desc))
        text0 = _text(case["plain"], "")
        if case["text"] not in text0:
            raise RuntimeError("harness: page text %r not extracted from the original: %r" % (case["text"], text0))
        pdf = case["pdf"]
        # ---- passwords that open
        for label, pw in opens:
            who = "%s password %r" % (label, pw)
            try:
                # (every other password is tried on a document that does not cache objects: each getobj parses and
                # deciphers the object again)
                doc = _open(pdf, pw, caching=(len(str(pw)) + len(pdf)) % 2 == 0)
            except Exception as e:
                return Outcome(classes, nt, fail="%s rejected: %s: %s; desc=%r" % (who, type(e).__name__, e, desc))
            if case.get("decoy"):
                d2 = _open(_decoy(case["decoy"]), "")
                if bytes(d2.getobj(5)) != b"decoy string":
                    raise RuntimeError("harness: decoy document %s does not open" % case["decoy"])
            msg = _check_objects(doc, case, who)
            if msg:
                return Outcome(classes, nt, fail="%s%s; desc=%r" % (
                    msg, " (after opening another encrypted document, %s)" % case["decoy"] if case.get("decoy") else "", desc))
            perm = [bool(doc.is_printable), bool(doc.is_modifiable), bool(doc.is_extractable)]
            if perm != case["perm"]:
                return Outcome(classes, nt, fail="%s: print/modify/extract reported %r, stored P=%d means %r; desc=%r" % (
                    who, perm, case["P"], case["perm"], desc))
            try:
                tr = doc.xrefs[0].get_trailer()
                got_id = [bytes(x) for x in resolve1(tr["ID"])] if "ID" in tr else None
                enc = resolve1(tr["Encrypt"])
                got_enc = {k: enc.get(k) for k in case["encrypt_strings"]}
                if case["encrypt_objnum"] is not None:
                    enc2 = doc.getobj(case["encrypt_objnum"])
                    got_enc2 = {k: enc2.get(k) for k in case["encrypt_strings"]}
                else:
                    got_enc2 = got_enc
            except Exception as e:
                return Outcome(classes, nt, fail="%s: reading trailer raised %s: %s; desc=%r" % (who, type(e).__name__, e, desc))
            if got_id != case["id"]:
                return Outcome(classes, nt, fail="%s: trailer /ID %r, written %r; desc=%r" % (who, got_id, case["id"], desc))
            if got_enc != case["encrypt_strings"] or got_enc2 != case["encrypt_strings"]:
                return Outcome(classes, nt, fail="%s: /Encrypt strings changed: %r / %r vs written %r; desc=%r" % (
                    who, got_enc, got_enc2, case["encrypt_strings"], desc))
            try:
                text = _text(pdf, pw)
            except Exception as e:
                return Outcome(classes, nt, fail="%s: extract_text raised %s: %s; desc=%r" % (who, type(e).__name__, e, desc))
            if text != text0:
                return Outcome(classes, nt, fail="%s: extract_text %r, original %r; desc=%r" % (who, text[:80], text0[:80], desc))
        # ---- every other password is rejected with PDFPasswordIncorrect
        for label, pw in wrong:
            try:
                _open(pdf, pw)
            except PDFPasswordIncorrect:
                continue
            except Exception as e:
                return Outcome(classes, nt, fail="wrong password (%s) %r: %s: %s instead of PDFPasswordIncorrect "
                                                 "(user %r, owner %r); desc=%r" % (label, pw, type(e).__name__, e,
                                                                                  case["user"], case["owner"], desc))
            return Outcome(classes, nt, fail="wrong password (%s) %r accepted (user %r, owner %r); desc=%r" % (
                label, pw, case["user"], case["owner"], desc))
    finally:
        lg.setLevel(old_level)
    return Outcome(classes, nt, sample={"desc": desc, "user": case["user"], "owner": case["owner"],
                                        "wrong": [w[0] for w in case["wrong"]], "pdf_len": len(case["pdf"])})


# --------------------------------------------------------------------------
# generation
# --------------------------------------------------------------------------
LATIN = [chr(c) for c in range(0x20, 0x7F)] + [chr(c) for c in range(0xA1, 0x100) if c != 0xAD]
ASCII = [chr(c) for c in range(0x20, 0x7F)]
# atoms for R5/R6 passwords (all assigned in Unicode 3.2, none in a prohibited table)
U_PLAIN = (list("abcXYZ019 _-!") + list("\u00e9\u00fc\u00d1\u00df\u00a3") + list("\u03b1\u03b2\u03a9\u0436\u042f")
           + list("\u6f22\u5b57\u304b\u306a\ud55c") + ["\U00010300"])
N_ASCII_ATOMS = 13
# compatibility forms (NFKC changes them), decomposed sequences, non-ASCII spaces (-> SPACE), mapped-to-nothing
U_COMPAT = ["\ufb01", "\uff21", "\u00aa", "\u2168", "\u00b5", "\u212b", "e\u0301", "\u1112\u1161\u11ab", "\U0001d400",
            "\u00a0", "\u2003", "\u3000", "\u1680", "\u00ad", "\u200d", "\ufe00", "\u00bd"]
U_RTL = list("\u05d0\u05d1\u05d2\u05d3\u0627\u0628\u062c")
SPECIAL_LEN = [0, 1, 15, 16, 17, 31, 32, 33, 48, 64]


def _text_of(atoms, lo, hi):
    return st.lists(st.sampled_from(atoms), min_size=lo, max_size=hi).map("".join)


def legacy_passwords():
    return st.one_of(
        st.just(""), _text_of(ASCII, 1, 10), _text_of(LATIN, 1, 12), _text_of(LATIN, 31, 33), _text_of(LATIN, 34, 45),
        st.sampled_from(["foo", "a", " ", "(", "\\", "pass word", "\u00dcn\u00efc\u00f6d\u00e9", "\u00ff" * 32]))


def _accepts(R):
    def ok(p):
        try:
            C.prep_password(p, R)
        except C.PasswordNotRepresentable:
            return False
        return True if R == 6 else C.saslprep(p) == p

    return ok


def unicode_passwords(R):
    rtl = st.tuples(st.sampled_from(U_RTL), _text_of(U_RTL + list("12 "), 0, 6), st.sampled_from(U_RTL)).map("".join)
    parts = [st.just(""), _text_of(ASCII, 1, 10), _text_of(LATIN, 1, 10), _text_of(U_PLAIN, 1, 12), rtl,
             _text_of(U_PLAIN[N_ASCII_ATOMS:], 40, 70), _text_of(ASCII, 120, 135)]
    if R == 6:
        parts += [st.sampled_from(["\u00ad", "\u200d\u00ad", "\u00ada", "\u00a0", "\ufb01"]),_text_of(U_PLAIN + U_COMPAT, 1, 12), _text_of(U_COMPAT, 1, 4), _text_of(U_PLAIN + U_COMPAT, 50, 80)]
    return st.one_of(*parts).filter(_accepts(R))


def enc_strings():
    tails = [b"\x01", b"\x02\x02", b"\x03\x03\x03", b"\x10" * 16, b"\x0f" * 15, b"\x00", b"\x11", b"\x05\x05"]
    return st.one_of(
        st.sampled_from(SPECIAL_LEN).flatmap(lambda n: st.binary(min_size=n, max_size=n)),
        st.binary(max_size=70),
        st.builds(lambda b, t: b + t, st.binary(max_size=33), st.sampled_from(tails)),
        st.sampled_from([b"", b"D:20240102030405+01'00'", b"\xfe\xff\x00T\x00i\x00t\x00l\x00e", b"(unbalanced", b"a\\b\rc\nd)",
                         b"0123456789abcdef"]),
    )


def data_values():
    leaf = st.one_of(enc_strings(), enc_strings(), st.integers(-1000, 1000), st.booleans(),
                     st.sampled_from([W.N("Name"), W.Real("1.5"), W.N("A B")]))
    keys = st.sampled_from([b"A", b"B", b"Key", b"S", b"Title", b"K 1"])
    return st.recursive(leaf, lambda ch: st.one_of(st.lists(ch, max_size=4), st.dictionaries(keys, ch, max_size=4)),
                        max_leaves=8)


def _has_mult16_string(v):
    if isinstance(v, (bytes, bytearray)):
        return len(v) % 16 == 0
    if isinstance(v, list):
        return any(_has_mult16_string(x) for x in v)
    if isinstance(v, dict):
        return any(_has_mult16_string(x) for x in v.values())
    if W.is_stream(v):
        return len(v[2]) % 16 == 0 or _has_mult16_string(v[1])
    return False


def _depth_of_string(v, d=0):
    if isinstance(v, (bytes, bytearray)):
        return d
    kids = v if isinstance(v, list) else list(v.values()) if isinstance(v, dict) else []
    ds = [_depth_of_string(x, d + 1) for x in kids]
    ds = [x for x in ds if x is not None]
    return max(ds) if ds else None


BIG_NUMS = [255, 256, 257, 65535, 65536, 65537, 2 ** 24 - 1, 2 ** 24 - 2, 0x800000, 0x7FFFFF, 0x010203]
BIG_GENS = [1, 2, 255, 256, 257, 65535, 65534, 0x0102]
CHAINS = [[], [], ["FlateDecode"], ["ASCIIHexDecode"], ["ASCII85Decode"], ["ASCII85Decode", "FlateDecode"],
          ["FlateDecode", "ASCIIHexDecode"], ["RunLengthDecode"], ["LZWDecode"]]


def _swapcase_one(p):
    for i, ch in enumerate(p):
        if ch.swapcase() != ch and len(ch.swapcase()) == 1:
            return p[:i] + ch.swapcase() + p[i + 1:]
    return None


@st.composite
def cases(draw, forced=None):
    rnd = random.Random(draw(st.integers(0, 2 ** 32)))  # salts, IVs, file keys, order: function of one drawn seed
    classes = []
    kind = forced or draw(st.sampled_from(["R2", "R3", "R3", "R4-V2", "R4-AESV2", "R4-AESV2", "R4-Identity", "R5", "R6", "R6"]))
    V, R, bits, cfm = {"R2": (1, 2, 40, None), "R3": (2, 3, None, None), "R4-V2": (4, 4, 128, "V2"),
                       "R4-AESV2": (4, 4, 128, "AESV2"), "R4-Identity": (4, 4, 128, "Identity"),
                       "R5": (5, 5, 256, "AESV3"), "R6": (5, 6, 256, "AESV3")}[kind]
    if bits is None:
        bits = draw(st.sampled_from([40, 48, 56, 64, 72, 80, 88, 96, 104, 112, 120, 128, 128]))
    classes.append("handler:" + kind)
    if kind == "R3":
        classes.append("R3-bits:%d" % bits)
    em = draw(st.booleans()) if R >= 4 else True
    perm = [draw(st.booleans()), draw(st.booleans()), draw(st.booleans())]
    P = C.make_P(perm[0], perm[1], perm[2], draw(st.sampled_from([0, 0xF20, 0x20, 0x900, 0x600, 0xD00])))
    classes.append("perm:%d%d%d" % tuple(perm))
    idmode = draw(st.sampled_from(["absent", "empty", "16", "16", "any"]))
    if idmode == "absent":
        idpair = None
    elif idmode == "empty":
        idpair = [b"", draw(st.binary(max_size=4))]
    elif idmode == "16":
        idpair = [draw(st.binary(min_size=16, max_size=16)), draw(st.binary(min_size=16, max_size=16))]
    else:
        idpair = [draw(st.binary(max_size=32)), draw(st.binary(max_size=32))]
    classes.append("id:" + idmode)
    id0 = idpair[0] if idpair else b""
    # ---- passwords
    pws = legacy_passwords() if R <= 4 else unicode_passwords(R)
    user = draw(pws)
    owner = draw(st.one_of(pws, pws, st.just(user)))
    if R <= 4 and owner == "":
        owner_eff = user  # Algorithm 3 step a: no owner password -> the user password is used
        classes.append("owner-absent")
    else:
        owner_eff = owner
    pu, po = C.prep_password(user, R), C.prep_password(owner_eff, R)
    distinct_owner = pu != po
    classes.append("owner-distinct" if distinct_owner else "owner-same-as-user")
    for who, p in (("user", user), ("owner", owner_eff)):
        classes.append("%s-pw:%s" % (who, "empty" if p == "" else "ascii" if p.isascii() else "non-ascii"))
        if R <= 4 and len(p) > 32:
            classes.append("pw>32")
        if R >= 5 and len(p.encode("utf-8")) > 127:
            classes.append("pw>127utf8")
        if R >= 5 and any(C.stringprep.in_table_d1(ch) for ch in p):
            classes.append("pw-rtl")
    opens = [["user", user]] + ([["owner", owner_eff]] if owner_eff != user else [])
    if R == 6:
        for who, p in (("user", user), ("owner", owner_eff)):
            q = C.saslprep(p)
            if q != p:
                classes.append("pw-saslprep-changes")
                if q != "":  # (the empty spelling is exercised through the "empty" candidates below)
                    opens.append([who + "-normalised", q])
    cands = []
    for who, p in (("user", user), ("owner", owner_eff)):
        if p:
            cands.append([who + "-prefix", p[:-1]])
            sc = _swapcase_one(p)
            if sc is not None:
                cands.append([who + "-case", sc])
        cands.append([who + "-append", p + draw(st.sampled_from(["x", " ", "0", "\u00e9"]))])
        if R <= 4:
            cands.append([who + "-append-padbyte", p + "("])
            cands.append([who + "-append-padding2", p + "(\u00bf"])
        else:
            cands.append([who + "-append-nbsp", p + "\u00a0x"])
    cands.append(["empty", ""])
    cands.append(["other", draw(pws)])
    rnd.shuffle(cands)
    wrong = []
    for label, p in cands:
        try:
            pp = C.prep_password(p, R)
        except C.PasswordNotRepresentable:
            continue
        if pp != pu and pp != po and len(wrong) < 3:
            wrong.append([label, p])
    # a password the revision's own encoding cannot represent is just another wrong password (the offending
    # character comes first, so that truncation to 32 / 127 bytes cannot make the candidate equal to a valid one)
    if R <= 4:
        unrep = draw(st.sampled_from(["\u20ac" + user, "\u0141", "\U0001f600" + owner_eff, "\u0100" + user]))
    else:
        unrep = draw(st.sampled_from(["\u0007" + user, "\u0627" + "1", "\u0378" + owner_eff, "a\u05d0", "\ufffe" + user,
                                      "\U000e0001" + user]))
    try:
        C.prep_password(unrep, R)
    except C.PasswordNotRepresentable:
        wrong.append(["unencodable", unrep])
    else:
        raise AssertionError("%r is representable for R=%d" % (unrep, R))
    for label, p in wrong:
        classes.append("wrong:" + label.split("-", 1)[-1])
    # ---- the plaintext document
    xref = draw(st.sampled_from(["table", "table", "stream", "stream", "stream"]))
    classes.append("xref:" + xref)
    roles = ["cat", "pages", "page", "content", "font", "info", "meta"]
    ndata = draw(st.integers(1, 4))
    nstreams = draw(st.integers(0, 3))
    roles += ["d%d" % i for i in range(ndata)] + ["s%d" % i for i in range(nstreams)]
    # object streams
    compress = {}
    # a cross-reference stream without a third field: all generations 0 and no object streams
    narrow = xref == "stream" and draw(st.integers(0, 3)) == 0
    if narrow:
        classes.append("xref-stream-W-third-0")
    nobjstm = draw(st.integers(0, 2)) if xref == "stream" and not narrow else 0
    compressible = ["cat", "pages", "page", "font", "info"] + ["d%d" % i for i in range(ndata)]
    for k in range(nobjstm):
        mem = [r for r in compressible if r not in compress and draw(st.booleans())]
        if not mem:
            continue
        roles.append("os%d" % k)
        for r in mem:
            compress[r] = "os%d" % k
    length_ref = {}
    for r in list(roles):
        if (r == "content" or r[0] == "s" or r == "meta") and draw(st.integers(0, 3)) == 0:
            length_ref[r] = "len_" + r
            roles.append("len_" + r)
    enc_indirect = draw(st.booleans())
    if enc_indirect:
        roles.append("encrypt")
    if xref == "stream":
        roles.append("xrefstm")
    # numbering
    num = {}
    used = set()
    nxt = 1
    for r in roles:
        big = draw(st.integers(0, 3)) == 0
        if big:
            n = draw(st.one_of(st.sampled_from(BIG_NUMS), st.integers(1, 2 ** 24 - 1)))
            while n in used:
                n += 1
            if n > 2 ** 24 - 1:
                big = False
        if not big:
            while nxt in used:
                nxt += 1
            n = nxt
        used.add(n)
        g = 0
        if r not in compress and not r.startswith("os") and r != "xrefstm" and not narrow and draw(st.integers(0, 2)) == 0:
            g = draw(st.one_of(st.sampled_from(BIG_GENS), st.integers(1, 65535)))
        num[r] = (n, g)
    if any(n > 0xFFFF for n, g in num.values()):
        classes.append("objnum>65535")
    if any(g > 0xFF for n, g in num.values()):
        classes.append("gen>255")

    def ref(r):
        return W.R(*num[r])

    text = draw(st.text("ABCDEFGHIJKLMNOPQRSTUVWXYZabcdefghijklmnopqrstuvwxyz", min_size=3, max_size=12))
    content = b"BT /F1 12 Tf 72 700 Td " + W.ser(text.encode()) + b" Tj ET"
    objs = {}
    payloads = {}

    def add_stream(r, d, payload, chain):
        data = payload
        for name in reversed(chain):
            data = F.FILTERS[name][0](data, None)
        d = dict(d)
        if len(chain) == 1:
            d[b"Filter"] = W.N(chain[0])
        elif chain:
            d[b"Filter"] = [W.N(x) for x in chain]
        objs[r] = W.Stream(d, data)
        payloads[r] = payload

    cat = W.D(Type=W.N("Catalog"), Pages=ref("pages"), Metadata=ref("meta"))
    cat[b"Data"] = [ref(r) for r in roles if r[0] in "ds"]
    if draw(st.booleans()):
        cat[b"Lang"] = draw(enc_strings())
    objs["cat"] = cat
    objs["pages"] = W.D(Type=W.N("Pages"), Kids=[ref("page")], Count=1)
    objs["page"] = W.D(Type=W.N("Page"), Parent=ref("pages"), MediaBox=[0, 0, 612, 792], Contents=ref("content"),
                       Resources={b"Font": {b"F1": ref("font")}})
    objs["font"] = W.simple_font()
    add_stream("content", {}, content, draw(st.sampled_from(CHAINS[:6])))
    objs["info"] = {b"Title": draw(enc_strings()), b"Producer": draw(enc_strings()),
                    b"CreationDate": b"D:20240102030405+01'00'"}
    meta = draw(st.one_of(st.binary(max_size=80), st.sampled_from(SPECIAL_LEN).flatmap(
        lambda n: st.binary(min_size=n, max_size=n)),
        st.just(b"<?xpacket begin='' id='W5M0MpCehiHzreSzNTczkc9d'?><x:xmpmeta xmlns:x='adobe:ns:meta/'/><?xpacket end='w'?>")))
    add_stream("meta", W.D(Type=W.N("Metadata"), Subtype=W.N("XML")), meta, draw(st.sampled_from(CHAINS[:3])))
    for i in range(ndata):
        objs["d%d" % i] = draw(data_values())
    for i in range(nstreams):
        ln = draw(st.one_of(st.sampled_from(SPECIAL_LEN), st.integers(0, 300)))
        payload = draw(st.one_of(st.binary(min_size=ln, max_size=ln), st.just(bytes((7 * k) & 255 for k in range(ln)))))
        d = {}
        if draw(st.integers(0, 2)) == 0:
            # e.g. an embedded-file stream: strings in a stream dictionary are encrypted like all others (7.6.1)
            d = {b"Type": W.N("EmbeddedFile"), b"Params": {b"CheckSum": draw(enc_strings()),
                                                           b"ModDate": b"D:20240102030405Z", b"Size": ln}}
            classes.append("stream-dict-string")
        add_stream("s%d" % i, d, payload, draw(st.sampled_from(CHAINS)))
    # ---- assemble both files
    objstms = {}
    for k in range(nobjstm):
        r = "os%d" % k
        if r not in roles:
            continue
        mem = [m for m in roles if compress.get(m) == r]
        rnd.shuffle(mem)
        val, payload = C.objstm_value([(num[m][0], objs[m]) for m in mem], compress=draw(st.booleans()))
        objs[r] = val
        payloads[r] = payload
        objstms[num[r][0]] = [num[m][0] for m in mem]
        classes.append("objstm")
        if any(_depth_of_string(objs[m]) is not None for m in mem):
            classes.append("objstm-member-with-string")
    for r, lr in length_ref.items():
        objs[lr] = 0  # placeholder: build_file stores the real length
    nobjs = {num[r][0]: v for r, v in objs.items()}
    gens = {num[r][0]: num[r][1] for r in num}
    trailer = {b"Root": ref("cat"), b"Info": ref("info")}
    if idpair is not None:
        trailer[b"ID"] = list(idpair)
    order = sorted(n for n in nobjs if n not in [m for ms in objstms.values() for m in ms])
    if enc_indirect:
        order.append(num["encrypt"][0])
    if draw(st.booleans()):
        rnd.shuffle(order)
        classes.append("order-shuffled")
    handler = C.Handler(V, R, bits, cfm, em, P, id0, user, owner, rnd, write_length=draw(st.booleans()),
                        write_em=draw(st.booleans()), identity_cf=draw(st.booleans()),
                        identity_explicit=draw(st.booleans()))
    if cfm == "Identity":
        classes.append("identity-explicit" if handler.identity_explicit else "identity-by-default")
    common = dict(objstms=objstms, xref=xref, xref_objnum=num["xrefstm"][0] if xref == "stream" else None,
                  xref_compress=draw(st.booleans()), xref_narrow=narrow,
                  length_refs={num[r][0]: num[lr][0] for r, lr in length_ref.items()})
    info_e, info_p = {}, {}
    pdf = C.build_file(nobjs, gens, trailer, handler=handler, encrypt_objnum=num["encrypt"][0] if enc_indirect else None,
                       order=order, info=info_e, **common)
    plain = C.build_file(nobjs, gens, trailer, handler=None, order=order, info=info_p, **common)
    xrefstm = None
    if xref == "stream":
        xrefstm = {"n": num["xrefstm"][0], "enc": info_e["xref_data"], "plain": info_p["xref_data"]}
    if xref == "table" and not objstms and draw(st.integers(0, 5)) == 0:
        # the encrypted file's startxref offset is damaged: the objects are found by scanning the body (C02), and
        # decryption must work all the same
        i = pdf.rindex(b"startxref")
        j = pdf.index(b"%%EOF", i)
        pdf = pdf[:i] + b"startxref\n0\n" + pdf[j:]
        classes.append("startxref-damaged")
    # ---- expectations
    explist = []
    lens_plain = {}
    for r, v in objs.items():
        if r.startswith("len_"):
            continue  # value differs between the two files by construction (encrypted length)
        explist.append([num[r][0], num[r][1], v])
    ed = handler.encrypt_dict()
    encrypt_strings = {k.decode(): v for k, v in ed.items() if isinstance(v, bytes)}
    # ---- classification
    aes = cfm in ("AESV2", "AESV3")
    mult16 = aes and any(_has_mult16_string(v) for r, v in objs.items() if r not in compress)
    if aes:
        classes.append("aes-mult16" if mult16 else "aes-no-mult16")
    depths = [_depth_of_string(v) for r, v in objs.items() if r[0] == "d" and r not in compress]
    depths = [d for d in depths if d is not None]
    if depths:
        classes.append("string-depth:%d" % min(max(depths), 3))
    if R >= 4:
        classes.append("EncryptMetadata:%s" % em)
    if length_ref:
        classes.append("length-indirect")
    classes.append("encrypt-indirect" if enc_indirect else "encrypt-direct")
    nonascii_pw = not user.isascii() or not owner_eff.isascii()
    nt = bool(mult16 or objstms or (R >= 4 and not em) or distinct_owner or nonascii_pw)
    desc = {"kind": kind, "bits": bits, "em": em, "P": P, "id": idmode, "xref": xref, "objstm": len(objstms),
            "encrypt_indirect": enc_indirect, "nums": {r: list(v) for r, v in num.items()}}
    decoy = draw(st.sampled_from([None, None, "V4-RC4", "V4-AES", "V5", "V2"]))
    return {"pdf": pdf, "plain": plain, "user": user, "owner": owner_eff, "opens": opens, "wrong": wrong,
            "objs": explist, "payloads": {num[r][0]: p for r, p in payloads.items()}, "text": text,
            "perm": perm, "P": P, "id": idpair, "encrypt_strings": encrypt_strings,
            "encrypt_objnum": num["encrypt"][0] if enc_indirect else None, "xrefstm": xrefstm,
            "desc": desc, "classes": sorted(set(classes + (["decoy:" + decoy] if decoy else []))), "nt": nt,
            "decoy": decoy}


def plan(tier):
    q = tier == "quick"
    kinds = ["R2", "R3", "R3", "R4-V2", "R4-AESV2", "R4-AESV2", "R4-Identity", "R5", "R5", "R6", "R6", "R6"]
    specs = [{"kind": k, "n": 90 if q else 2200} for k in kinds]
    specs += [{"kind": None, "n": 110 if q else 2600} for _ in range(12)]
    return specs


def run_shard(spec, ctx):
    return hyp_search(ctx, cases(spec["kind"]), run_case, spec["n"], shrink_budget=120 if ctx.tier == "quick" else 1500)
