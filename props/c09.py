"""C09 — layout grouping follows the documented margins; result is scale-invariant (x 2^k)."""
from fractions import Fraction as Fr

from hypothesis import strategies as st

from vlib import layoutgen as G
from vlib.runner import Outcome, hyp_search

ID = "C09"
LEVEL = "exploration"
RULE = ("Hypothesis draws threshold-directed arrangements in exact dyadic coordinates: runs of glyphs whose vertical "
        "overlap and horizontal gap are placed on, one step below and one step above line_overlap*min(h) and "
        "char_margin*max(w); gaps around word_margin*max(w,h); stacks of lines with vertical gaps around "
        "line_margin*height, equal or different heights around the tolerance, left/right/centre aligned or misaligned "
        "around the tolerance; one column of 2-5 paragraphs, two columns of equal vertical extent, three one-paragraph columns of different heights with a common centre line; with detect_vertical: one or two stacked-glyph runs (near / far) and a stray single glyph beside them (upper / lower / centre aligned): vertical lines, boxes joining vertical lines only.  Oracle: model "
        "written from docs/source/topic/converting_pdf_to_text.rst over Fractions (join iff overlap > and distance < "
        "(strict); space iff gap > word_margin (strict); lines = maximal runs; boxes = connected components of the "
        "neighbour relation; single column top-to-bottom, left column before right) compared with LTTextLine/LTTextBox "
        "membership, text and index; plus metamorphic relation: the canonical tree signature is identical and all "
        "bboxes scale exactly when every coordinate is multiplied by 2^k, k in [-6,6].  Non-trivial = a quantity at "
        "or within one step of a threshold, or a scaled run with k != 0; distinct by case encoding.")
ASSUMPTIONS = ["glyph y-intervals of consecutive glyphs are not strictly nested (pdfminer's overlap measure equals the "
               "geometric one there)", "exact dyadic coordinates: every product and sum is exact in binary64",
               "the documentation says lines are close when the gap is 'closer together than' line_margin*height "
               "(strict); height/alignment are 'within tolerance' (non-strict) per the find_neighbors docstrings"]


# ------------------------------------------------------------------ model
def gbox(g):
    return (g["x"], g["y"], g["x"] + g["w"], g["y"] + g["h"])


def joinable(a, b, la):
    ax0, ay0, ax1, ay1 = gbox(a)
    bx0, by0, bx1, by1 = gbox(b)
    if not (by0 <= ay1 and ay0 <= by1):
        return False
    ov = min(ay1, by1) - max(ay0, by0)
    hov = bx0 <= ax1 and ax0 <= bx1
    hd = 0 if hov else min(abs(ax0 - bx1), abs(ax1 - bx0))
    return min(a["h"], b["h"]) * la["line_overlap"] < ov and hd < max(a["w"], b["w"]) * la["char_margin"]


def nested(a, b):
    return (a["y"] < b["y"] and b["y"] + b["h"] < a["y"] + a["h"]) or (b["y"] < a["y"] and a["y"] + a["h"] < b["y"] + b["h"])


def model(glyphs, la):
    """-> (lines, boxes, ambiguous)  lines: list of {"ids", "text", "bbox"}; boxes: list of sets of line indices."""
    lines = [[0]]
    for i in range(1, len(glyphs)):
        if joinable(glyphs[i - 1], glyphs[i], la):
            lines[-1].append(i)
        else:
            lines.append([i])
    out = []
    for ids in lines:
        text = ""
        prev = None
        for i in ids:
            g = glyphs[i]
            if prev is not None and la["word_margin"] and (g["x"] - (prev["x"] + prev["w"])) > la["word_margin"] * max(g["w"], g["h"]):
                text += " "
            text += g["t"]
            prev = g
        bb = G.union(gbox(glyphs[i]) for i in ids)
        out.append({"ids": ids, "text": text + "\n", "bbox": bb})
    # neighbour relation
    n = len(out)
    parent = list(range(n))

    def find(x):
        while parent[x] != x:
            x = parent[x]
        return x

    on_threshold = False
    for i in range(n):
        a = out[i]["bbox"]
        h = a[3] - a[1]
        d = la["line_margin"] * h
        for j in range(n):
            if i == j:
                continue
            b = out[j]["bbox"]
            if b[2] <= a[0] or a[2] <= b[0]:
                continue
            gap_hi = b[1] - a[3]
            gap_lo = a[1] - b[3]
            if gap_hi == d or gap_lo == d:
                on_threshold = True  # exactly on the line_margin threshold: "closer together than" => not close
            if b[3] <= a[1] - d or a[3] + d <= b[1]:
                continue
            if abs((b[3] - b[1]) - h) > d:
                continue
            if abs(b[0] - a[0]) <= d or abs(b[2] - a[2]) <= d or abs((b[0] + b[2]) / 2 - (a[0] + a[2]) / 2) <= d:
                parent[find(i)] = find(j)
    comps = {}
    for i in range(n):
        comps.setdefault(find(i), set()).add(i)
    return out, sorted(comps.values(), key=lambda s: min(s)), on_threshold


# ------------------------------------------------------------------ implementation run
def to_float_items(glyphs, k):
    f = Fr(2) ** k
    return [{"k": "char", "x": float(g["x"] * f), "y": float(g["y"] * f), "w": float(g["w"] * f), "h": float(g["h"] * f),
             "t": g["t"], "m": (1, 0, 0, 1)} for g in glyphs]


def analyze(glyphs, la, bbox, k, nest=0):
    """nest > 0: the glyphs are the content of a form XObject (nested `nest` deep) on a page that shows no glyph of its
    own, analysed with all_texts=True: the documented grouping applies inside the figure just the same."""
    from pdfminer.layout import LTAnno, LTChar, LTFigure, LTPage, LTTextBox, LTTextGroup, LTTextLine

    f = Fr(2) ** k
    bb = tuple(float(Fr(v) * f) for v in bbox)
    lap = {kk: (float(v) if isinstance(v, Fr) else v) for kk, v in la.items()}
    if nest == 0:
        page, objs = G.mkpage(to_float_items(glyphs, k), bb)
        container = page
    else:
        # the figure's box may lie anywhere on the page (a form placed by its matrix); the page starts at the origin
        page = LTPage(1, (0, 0, max(bb[2], 1), max(bb[3], 1)))
        objs = [G.mkitem(s) for s in to_float_items(glyphs, k)]
        container = page
        for _ in range(nest):
            fig = LTFigure("Fig", (bb[0], bb[1], bb[2] - bb[0], bb[3] - bb[1]), (1, 0, 0, 1, 0, 0))
            container.add(fig)
            container = fig
        for o in objs:
            container.add(o)
        lap["all_texts"] = True
    idx = {id(o): i for i, o in enumerate(objs)}
    page.analyze(G.mklaparams(lap))
    boxes = []
    bboxes = []
    for b in container:
        if isinstance(b, LTTextBox):
            lines = []
            for ln in b:
                ids = [idx[id(c)] for c in ln if isinstance(c, LTChar)]
                lines.append((type(ln).__name__, tuple(ids), ln.get_text()))
                bboxes.append(tuple(ln.bbox))
            boxes.append((type(b).__name__, b.index, tuple(lines)))
            bboxes.append(tuple(b.bbox))
        elif isinstance(b, LTTextLine):
            boxes.append(("empty-line", tuple(idx[id(c)] for c in b if isinstance(c, LTChar)), b.get_text()))

    def gsig(g):
        if isinstance(g, LTTextGroup):
            bboxes.append(tuple(g.bbox))
            return (type(g).__name__, tuple(gsig(m) for m in g))
        return ("box", g.index)

    groups = tuple(gsig(g) for g in (getattr(container, "groups", None) or []))
    return (tuple(boxes), groups), bboxes


def run_vertical(case, classes):
    glyphs, la, bbox = case["glyphs"], case["la"], case["bbox"]
    desc = lambda: "la=%r glyphs=%r" % ({k: str(v) for k, v in la.items()}, [(str(g["x"]), str(g["y"]), str(g["w"]), str(g["h"]), g["t"]) for g in glyphs])  # noqa: E731
    try:
        sig0, bb0 = analyze(glyphs, la, bbox, 0, case.get("nest", 0))
        sigk, bbk = analyze(glyphs, la, bbox, case["k"], case.get("nest", 0)) if case["k"] else (sig0, bb0)
    except Exception as e:
        return Outcome(classes, True, fail="analyze raised %s: %s; %s" % (type(e).__name__, e, desc()))
    if case["k"] and sigk != sig0:
        return Outcome(classes, True, fail="result changes when every coordinate is multiplied by 2^%d: %r vs %r; %s" % (
            case["k"], sigk, sig0, desc()))
    pos = {g["id"]: i for i, g in enumerate(glyphs)}
    got_boxes = [b for b in sig0[0] if b[0] != "empty-line"]
    for vl in case["vlines"]:
        want = tuple(pos[i] for i in vl)
        if not any(ln[0] == "LTTextLineVertical" and ln[1] == want for b in got_boxes for ln in b[2]):
            return Outcome(classes, True, fail="stacked glyphs %r are not one vertical line: %r; %s" % (want, got_boxes, desc()))
    got = sorted(sorted(i for ln in b[2] for i in ln[1]) for b in got_boxes)
    exp = sorted(sorted(pos[i] for i in g) for g in case["groups"])
    if got != exp:
        return Outcome(classes, True, fail="text boxes %r, the vertical neighbour relation gives %r; %s" % (got, exp, desc()))
    return Outcome(classes, True, sample={"kind": "vertical", "tags": case["tags"], "k": case["k"]})


def run_case(case):
    glyphs, la, bbox = case["glyphs"], case["la"], case["bbox"]
    classes = ["kind:" + case["kind"]] + list(case.get("tags", []))
    nt = bool(case.get("near")) or case["k"] != 0
    if case.get("near"):
        classes.append("near-threshold")
    if case["kind"] == "vertical":
        return run_vertical(case, classes)
    if any(nested(a, b) for a, b in zip(glyphs, glyphs[1:])):
        return Outcome(classes + ["nested-skipped"], False)
    lines, boxes, amb = model(glyphs, la)
    try:
        sig0, bb0 = analyze(glyphs, la, bbox, 0, case.get("nest", 0))
        sigk, bbk = analyze(glyphs, la, bbox, case["k"], case.get("nest", 0)) if case["k"] else (sig0, bb0)
    except Exception as e:
        return Outcome(classes, nt, fail="analyze raised %s: %s; la=%r glyphs=%r" % (type(e).__name__, e, la, glyphs))
    desc = lambda: "la=%r glyphs=%r" % ({k: str(v) for k, v in la.items()}, [(str(g["x"]), str(g["y"]), str(g["w"]), str(g["h"]), g["t"]) for g in glyphs])  # noqa: E731
    # ---- scale invariance
    if case["k"]:
        classes.append("scaled")
        if sigk != sig0:
            return Outcome(classes, nt, fail="result changes when every coordinate is multiplied by 2^%d: %r vs %r; %s" % (
                case["k"], sigk, sig0, desc()))
        f = 2.0 ** case["k"]
        if [tuple(v * f for v in b) for b in bb0] != bbk:
            return Outcome(classes, nt, fail="bounding boxes do not scale exactly by 2^%d; %s" % (case["k"], desc()))
    # ---- lines and spaces
    got_boxes = [b for b in sig0[0] if b[0] != "empty-line"]
    got_lines = sorted((ln[1], ln[2]) for b in got_boxes for ln in b[2]) + sorted((b[1], b[2]) for b in sig0[0] if b[0] == "empty-line")
    exp_lines = sorted((tuple(ln["ids"]), ln["text"]) for ln in lines)
    if sorted(got_lines) != exp_lines:
        return Outcome(classes, nt, fail="lines (glyph ids, text) %r, documented margins give %r; %s" % (
            sorted(got_lines), exp_lines, desc()))
    if len(lines) > 1:
        classes.append("multi-line")
    # ---- boxes
    if amb:
        classes.append("on-line_margin-threshold")
    if True:
        exp_boxes = sorted(sorted(tuple(lines[i]["ids"]) for i in comp) for comp in boxes)
        gb = sorted(sorted(ln[1] for ln in b[2]) for b in got_boxes)
        if gb != exp_boxes:
            return Outcome(classes, nt, fail="text boxes %r, neighbour relation gives %r; %s" % (gb, exp_boxes, desc()))
        if any(len(c) > 1 for c in boxes):
            classes.append("multi-line-box")
        # ---- order of boxes for column arrangements
        if case["kind"] in ("column", "two-columns", "three-columns") and la.get("boxes_flow") is not None:
            order = [b[2][0][1][0] for b in sorted(got_boxes, key=lambda b: b[1])]  # first glyph id of each box, by index
            exp_order = case["box_order"]
            got_order = [g for g in order if g in set(exp_order)]
            if len(got_boxes) == len(exp_order) and got_order != exp_order:
                return Outcome(classes, nt, fail="box order (first glyph ids) %r expected %r (%s); %s" % (
                    got_order, exp_order, case["kind"], desc()))
            if len(got_boxes) == len(exp_order):
                classes.append("order-checked")
        # ---- boxes_flow=None: "returns text based on the position of the bottom left corner of the text box" (from the top
        # of the page down, then left to right)
        if la.get("boxes_flow") is None and len(got_boxes) > 1 and gb == exp_boxes:
            def corner(comp):
                return (-min(lines[i]["bbox"][1] for i in comp), min(lines[i]["bbox"][0] for i in comp))

            comps = sorted(boxes, key=corner)
            keys = [corner(c) for c in comps]
            if len(set(keys)) == len(keys):
                exp_seq = [sorted(g for i in c for g in lines[i]["ids"]) for c in comps]
                got_seq = [sorted(g for ln in b[2] for g in ln[1]) for b in sorted(got_boxes, key=lambda b: b[1])]
                if got_seq != exp_seq:
                    return Outcome(classes, nt, fail="boxes_flow=None: boxes come in the order %r, by bottom-left corner %r; %s" % (
                        got_seq, exp_seq, desc()))
                classes.append("corner-order-checked")
    return Outcome(classes, nt, sample={"kind": case["kind"], "la": {k: str(v) for k, v in la.items()}, "k": case["k"],
                                        "lines": [ln["text"] for ln in lines][:6]})


# ---------------------------------------------------------------------------------------------- generators
STEP = Fr(1, 8)
DY = st.sampled_from([Fr(0), Fr(0), Fr(1), Fr(-1), Fr(1, 2)])
LETTERS = "abcdefghijklmnopqrstuvwxyzABCDEFGHIJKLMNOPQRSTUVWXYZ"


def delta():
    return st.sampled_from([(-STEP, True), (Fr(0), True), (STEP, True), (Fr(-3), False), (Fr(3), False), (-STEP * 2, True)])


@st.composite
def la_params(draw):
    return {"line_overlap": draw(st.sampled_from([Fr(1, 2), Fr(1, 4), Fr(3, 4)])),
            "char_margin": draw(st.sampled_from([Fr(2), Fr(1), Fr(1, 2), Fr(3)])),
            "line_margin": draw(st.sampled_from([Fr(1, 2), Fr(1, 4), Fr(1), Fr(1, 8)])),
            "word_margin": draw(st.sampled_from([Fr(1, 8), Fr(1, 4), Fr(1, 2), Fr(0)])),
            "boxes_flow": draw(st.sampled_from([Fr(1, 2), Fr(1, 2), None, Fr(0), Fr(-1, 2)]))}


def _letter(i):
    return LETTERS[i % len(LETTERS)]


@st.composite
def run_of_glyphs(draw, la, x, y, start_id, n=None):
    """Glyphs placed relative to their predecessor around the join thresholds and the word margin."""
    n = n if n is not None else draw(st.integers(1, 6))
    out = []
    near = False
    # glyphs wider than tall matter for the word margin ("maximum width or height of the new character")
    w = draw(st.sampled_from([Fr(4), Fr(5), Fr(8), Fr(20)]))
    h = draw(st.sampled_from([Fr(8), Fr(10), Fr(12), Fr(16)]))
    # glyphs consecutive in the content need not run left to right
    leftward = draw(st.integers(0, 3)) == 0
    cur = {"x": x + (200 if leftward else 0), "y": y, "w": w, "h": h, "t": _letter(start_id)}
    out.append(cur)
    for i in range(1, n):
        w2 = draw(st.sampled_from([w, w, Fr(4), Fr(8), Fr(24)]))
        h2 = draw(st.sampled_from([h, h, h, Fr(8), Fr(12)]))
        mode = draw(st.sampled_from(["gap-char", "gap-word", "overlap", "plain"]))
        d, nr = draw(delta())
        gap = Fr(1)
        dy = Fr(0)
        if mode == "gap-char":
            gap = max(cur["w"], w2) * la["char_margin"] + d
            near |= nr
        elif mode == "gap-word":
            gap = la["word_margin"] * max(w2, h2) + d
            near |= nr
        elif mode == "overlap":
            # shift upwards so that the (non-nested) overlap is threshold + d
            want = min(cur["h"], h2) * la["line_overlap"] + d
            dy = cur["h"] - want  # b.y0 = a.y0 + dy -> overlap = a.y1 - b.y0 = h - dy when b.y1 >= a.y1
            if dy < 0 or dy + h2 < cur["h"]:
                dy = Fr(0)
            else:
                near |= nr
            gap = Fr(1, 2)
        nx = cur["x"] - gap - w2 if leftward else cur["x"] + cur["w"] + gap
        nxt = {"x": nx, "y": cur["y"] + dy, "w": w2, "h": h2, "t": _letter(start_id + i)}
        out.append(nxt)
        cur = nxt
    return out, near


@st.composite
def pair_cases(draw):
    la = draw(la_params())
    if draw(st.integers(0, 4)) == 0:
        # overstrike: a narrow glyph painted back inside the previous one (an accent, a TJ pen-back move), then the
        # next glyph: the gap that decides about the space is the one to the glyph before it in the content, not the
        # one to the right edge of the line so far
        x, y, w, h = Fr(100), Fr(300), Fr(10), Fr(10)
        e = draw(st.sampled_from([Fr(0), Fr(1), Fr(1, 2), Fr(3)]))
        inner = draw(st.sampled_from([Fr(1), Fr(2), Fr(5)]))
        glyphs = [{"x": x, "y": y, "w": w, "h": h, "t": "A", "id": 0},
                  {"x": x + inner, "y": y, "w": Fr(4), "h": h, "t": "b", "id": 1},
                  {"x": x + w + e, "y": y, "w": w, "h": h, "t": "C", "id": 2}]
        if draw(st.booleans()):
            glyphs.append({"x": x + 2 * w + e + Fr(1, 8), "y": y, "w": w, "h": h, "t": "D", "id": 3})
        return {"kind": "run", "glyphs": glyphs, "la": la, "near": True, "tags": ["overstrike"]}
    glyphs, near = draw(run_of_glyphs(la, Fr(50), Fr(300), 0, draw(st.integers(2, 8))))
    return {"kind": "run", "glyphs": glyphs, "la": la, "near": near}


@st.composite
def stack_cases(draw):
    """Lines stacked around the line_margin / height / alignment tolerances."""
    la = draw(la_params())
    near = False
    glyphs = []
    x, y = Fr(60), Fr(40)
    h = draw(st.sampled_from([Fr(8), Fr(10), Fr(16)]))
    w = Fr(4)
    nl = draw(st.integers(2, 5))
    prev = None
    gid = 0
    for li in range(nl):
        n = draw(st.integers(1, 4))
        hh = h
        xi = x
        width = n * w
        if prev is not None:
            d_tol = la["line_margin"] * prev["h"]
            mode = draw(st.sampled_from(["gap", "height", "left", "right", "centre", "plain"]))
            dlt, nr = draw(delta())
            vgap = d_tol / 2
            if mode == "gap":
                vgap = d_tol + dlt
                near |= nr
            elif mode == "height":
                hh = prev["h"] + draw(st.sampled_from([1, -1])) * (d_tol + dlt)
                near |= nr
                if hh <= 0:
                    hh = prev["h"]
            elif mode == "left":
                xi = prev["x"] + d_tol + dlt
                near |= nr
            elif mode == "right":
                xi = prev["x"] + prev["width"] + d_tol + dlt - width
                near |= nr
            elif mode == "centre":
                xi = prev["x"] + prev["width"] / 2 + d_tol + dlt - width / 2
                near |= nr
            y = prev["y"] + prev["h"] + max(vgap, Fr(0) - prev["h"] / 2)
        for i in range(n):
            glyphs.append({"x": xi + i * w, "y": y, "w": w, "h": hh, "t": _letter(gid)})
            gid += 1
        # force a line break between consecutive lines in content order: next line starts far left/right
        prev = {"x": xi, "y": y, "h": hh, "width": width}
    # content order top-to-bottom or bottom-to-top
    return {"kind": "stack", "glyphs": glyphs, "la": la, "near": near}


@st.composite
def column_cases(draw):
    la = draw(la_params())
    if la["boxes_flow"] is None and draw(st.booleans()):
        la["boxes_flow"] = Fr(1, 2)
    two = draw(st.booleans())
    h, w = Fr(10), Fr(5)
    lead = h + Fr(2)  # gap 2 < line_margin*h for margins >= 1/4; paragraphs separated by 3 line heights
    la["line_margin"] = draw(st.sampled_from([Fr(1, 2), Fr(1, 4), Fr(1)]))
    gid = [0]

    def column(x0, top, shape):
        """shape: list of paragraph line counts; returns (glyphs, first glyph id per paragraph top-to-bottom)"""
        gl = []
        firsts = []
        y = top
        for nlines in shape:
            for li in range(nlines):
                n = 3 if li == 0 else draw(st.integers(2, 4))
                if li == 0:
                    firsts.append(gid[0])
                for i in range(n):
                    gl.append({"x": x0 + i * w, "y": y - h, "w": w, "h": h, "t": _letter(gid[0]), "id": gid[0]})
                    gid[0] += 1
                y -= lead
            y -= 4 * h
        return gl, firsts, y

    if draw(st.integers(0, 3)) == 0:
        # three one-paragraph columns of different heights centred on the same horizontal line, in any content order:
        # every pair is a left and a right column, so the boxes come out left, middle, right
        counts = draw(st.sampled_from([(1, 6, 1), (2, 7, 1), (1, 5, 2), (3, 3, 3), (6, 1, 5), (2, 8, 2), (1, 4, 6)]))
        mid = Fr(400)
        cols = []
        for x0, n in zip((Fr(50), Fr(200), Fr(350)), counts):
            height = n * h + (n - 1) * (lead - h)
            cols.append(column(x0, mid + height / 2, [n]))
        perm = draw(st.permutations([0, 1, 2]))
        gl = [g for i in perm for g in cols[i][0]]
        pos = {g["id"]: i for i, g in enumerate(gl)}
        return {"kind": "three-columns", "glyphs": gl, "la": la, "near": False,
                "box_order": [pos[cols[i][1][0]] for i in (0, 1, 2)]}
    shape = draw(st.lists(st.integers(1, 3), min_size=2, max_size=5))
    if not two:
        gl, firsts, _ = column(Fr(50), Fr(700), shape)
        order = firsts
        if draw(st.booleans()):
            # content order need not be reading order: emit paragraphs bottom-up (whole lines stay intact)
            gl = _reverse_lines(gl)
        pos = {g["id"]: i for i, g in enumerate(gl)}
        return {"kind": "column", "glyphs": gl, "la": la, "near": False, "box_order": [pos[f] for f in order]}
    gl1, f1, bottom = column(Fr(50), Fr(700), shape)
    gl2, f2, bottom2 = column(Fr(350), Fr(700), shape)
    gl = gl2 + gl1 if draw(st.booleans()) else gl1 + gl2
    pos = {g["id"]: i for i, g in enumerate(gl)}
    return {"kind": "two-columns", "glyphs": gl, "la": la, "near": False, "box_order": [pos[f] for f in f1 + f2]}


def _reverse_lines(gl):
    lines = []
    for g in gl:
        if lines and lines[-1][-1]["y"] == g["y"]:
            lines[-1].append(g)
        else:
            lines.append([g])
    out = []
    for ln in reversed(lines):
        out.extend(ln)
    return out


@st.composite
def vertical_cases(draw):
    """detect_vertical: stacked glyphs form vertical lines; the neighbour relation of a vertical line (same width,
    lower/upper/centre aligned, within line_margin*width; LTTextLineVertical.find_neighbors) holds between vertical
    lines only.  Placements are clearly inside / outside every tolerance."""
    w, h = draw(st.sampled_from([(Fr(10), Fr(10)), (Fr(8), Fr(12)), (Fr(12), Fr(8)), (Fr(4), Fr(12)), (Fr(16), Fr(6))]))
    la = {"line_overlap": Fr(1, 2), "char_margin": Fr(1, 2), "line_margin": Fr(2), "word_margin": Fr(1, 8),
          "boxes_flow": draw(st.sampled_from([Fr(1, 2), None, Fr(0)])), "detect_vertical": True}
    n = draw(st.integers(3, 6))
    x0, top = Fr(200), Fr(600)
    gid = [0]

    def glyph(x, y):
        g = {"x": x, "y": y, "w": w, "h": h, "t": _letter(gid[0]), "id": gid[0]}
        gid[0] += 1
        return g

    def run(x, count, ytop):
        return [glyph(x, ytop - (i + 1) * h) for i in range(count)]

    if draw(st.integers(0, 2)) == 0:
        # one column whose lower part is shifted sideways: consecutive glyphs stay in one vertical line exactly when
        # their horizontal overlap exceeds line_overlap * min(width) (documented as relative to the glyph size across
        # the writing direction)
        n = draw(st.integers(4, 6))
        k = draw(st.integers(2, n - 2))
        step, near = draw(st.sampled_from([(Fr(0), False), (-STEP, True), (Fr(0, 1) + 0, True), (STEP, True), (Fr(3), False),
                                           (-Fr(3), False)]))
        dx = w * la["line_overlap"] + step if near or step else Fr(0)
        dx = dx * draw(st.sampled_from([1, -1]))
        overlap = w - abs(dx)
        joined = w * la["line_overlap"] < overlap
        gl = [glyph(x0 + (dx if i >= k else 0), top - (i + 1) * h) for i in range(n)]
        ids = [g["id"] for g in gl]
        parts = [ids] if joined else [ids[:k], ids[k:]]
        return {"kind": "vertical", "glyphs": gl, "la": la, "near": near, "groups": [sorted(p) for p in parts],
                "vlines": parts, "tags": ["shifted-column", "joined" if joined else "split"]}
    gl, groups = [], []
    stray = draw(st.sampled_from(["upper", "lower", "centre", "none-far", "off"]))
    side = draw(st.sampled_from([-1, 1]))
    if stray != "off":
        # a single glyph is a horizontal line; one glyph width away: not joined into the run's line (char_margin 1/2)
        # but inside line_margin*width of the vertical line
        sy = {"upper": top - h, "lower": top - n * h, "centre": top - n * h / 2 - h / 2, "none-far": top - h}[stray]
        sx = x0 + side * 2 * w if stray != "none-far" else x0 + side * 12 * w
        gl.append(glyph(sx, sy))
        groups.append({gl[-1]["id"]})
    a = run(x0, n, top)
    gl += a
    second = draw(st.sampled_from(["near", "far", "off", "staggered-within", "staggered-beyond"]))
    if second == "off":
        groups.append({g["id"] for g in a})
    else:
        # on the other side of the run than the stray glyph; "staggered": a close run of the same length shifted
        # vertically (up or down), so that its top, bottom and centre all differ from the first run's by the same
        # amount: within line_margin * width the two are aligned neighbours, beyond it they are not
        tol = la["line_margin"] * w
        dy = {"staggered-within": tol / 2, "staggered-beyond": tol + h}.get(second, Fr(0)) * draw(st.sampled_from([1, -1]))
        b = run(x0 - side * (12 * w if second == "far" else 2 * w), n, top + dy)
        gl += b
        if second in ("near", "staggered-within"):
            groups.append({g["id"] for g in a + b})
        else:
            groups += [{g["id"] for g in a}, {g["id"] for g in b}]
    return {"kind": "vertical", "glyphs": gl, "la": la, "near": False, "groups": [sorted(g) for g in groups],
            "vlines": [[g["id"] for g in a]] + ([[g["id"] for g in b]] if second != "off" else []),
            "tags": ["stray:" + stray, "second:" + second]}


@st.composite
def cases(draw, kind):
    if kind == "column" and draw(st.integers(0, 4)) == 0:
        kind = "vertical"
    c = draw({"run": pair_cases(), "stack": stack_cases(), "column": column_cases(), "vertical": vertical_cases()}[kind])
    c["k"] = draw(st.sampled_from([0, 0, 1, -1, 3, -3, 6, -6, 2]))
    c["nest"] = draw(st.sampled_from([0, 0, 0, 1, 2]))
    if c["nest"]:
        c.setdefault("tags", []).append("in-figure:%d" % c["nest"])
    c["bbox"] = (0, 0, 612, 792)
    if c["nest"]:
        # where the form is placed must not matter: the same arrangement translated as a whole
        dx, dy = draw(st.sampled_from([(0, 0), (0, 0), (800, 0), (0, 900), (300, 40), (1000, 1000)]))
        if dx or dy:
            for g in c["glyphs"]:
                g["x"] = g["x"] + dx
                g["y"] = g["y"] + dy
            c["bbox"] = (dx, dy, dx + 612, dy + 792)
            c["tags"].append("figure-translated")
    return c


def plan(tier):
    q = tier == "quick"
    return ([{"kind": "run", "n": 900 if q else 12000} for _ in range(6)] +
            [{"kind": "stack", "n": 900 if q else 12000} for _ in range(6)] +
            [{"kind": "column", "n": 400 if q else 6000} for _ in range(4)])


def run_shard(spec, ctx):
    return hyp_search(ctx, cases(spec["kind"]), run_case, spec["n"])
