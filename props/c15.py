"""C15 — filesystem confinement: documents cannot steer file access outside the allowed directories.

Each case = (document description with HOSTILE strings in name/string slots, sandbox recipe, API options).
run_case builds a fresh sandbox  root/{out,outside,cmap,cwd}, substitutes the sandbox paths into the hostile strings,
serialises the document, and runs extract_text_to_fp(..., output_dir=out) and extract_text under an audit-hook
monitor (vlib.sandboxfs) plus a before/after snapshot of the sandbox tree.
"""
import gzip
import io
import logging
import os
import pickle
import random
import re
import shutil
import sys
import tempfile
import zlib

from hypothesis import strategies as st

from vlib import pdfwrite as W
from vlib import sandboxfs as SB
from vlib.runner import Outcome, hyp_search

ID = "C15"
LEVEL = "exploration"
RULE = ("Hypothesis draws a 1-2 page document with 1-3 items; every item carries ONE string in one slot (Type0 "
        "/Encoding name, Encoding-stream /CMapName, `usecmap` operand in a ToUnicode stream of a Type0 or simple font, "
        "/ToUnicode as a name, CIDSystemInfo Registry/Ordering, BaseFont, FontDescriptor /FontName, font resource "
        "name, image XObject resource name, form XObject name, image /Name entry, inline image) of a drawn kind: "
        "absolute path of a bait, relative traversal from CMAP_PATH/cwd/output_dir or from pdfminer/cmap, NUL-spliced, "
        "doubled separators, ./ segments, long (many ../ or >255-byte components), backslashes, traversal that stays "
        "inside, name of an existing resource/file (collision), benign.  Sandbox per case: out/ (output_dir, "
        "pre-populated with the file names the export is about to use), outside/ (bait *.pickle.gz = benign pickle, "
        "victim files), cmap/ (CMAP_PATH, one legitimate map, optionally the directories `to-unicode-`), cwd/ (with CMAP_PATH unset in a quarter of the cases, baits then also lie in cwd and only /usr/share/pdfminer is a legitimate extra directory).  "
        "Oracle: audit events open/os.*/shutil.*/... during extract_text_to_fp(output_dir=out; text/xml/html) and "
        "extract_text: reads only below pdfminer/cmap or CMAP_PATH (+ interpreter import traffic), writes only to new "
        "paths below output_dir, each at most once; snapshot diff: nothing created/changed/deleted outside out/, no "
        "pre-existing file changed.  Library exceptions are not violations.  Non-trivial = a hostile (not benign/"
        "collision) string observed in a `loading:` debug record of pdfminer.cmapdb, or in the path of an "
        "open-for-write event.  Distinct by case description.")
ASSUMPTIONS = ["audit events cover every path-based file access of CPython (open, os.*, shutil.*); os.stat/exists "
               "probes raise no audit event and are not observed",
               "sandbox directories themselves contain no symbolic links (hostility comes from the document only)",
               "Pillow is not installed: JPX/CMYK export paths create the file and then raise ImportError"]

# ---------------------------------------------------------------------------------------------------------------
# document serialisation (names may contain NUL and separators: always written with #xx escapes)
# ---------------------------------------------------------------------------------------------------------------
_SAFE = frozenset(b"ABCDEFGHIJKLMNOPQRSTUVWXYZabcdefghijklmnopqrstuvwxyz0123456789-_.+")


def _nm(b):
    out = bytearray(b"/")
    for c in b:
        if c in _SAFE:
            out.append(c)
        else:
            out += b"#%02x" % c
    return bytes(out)


def _str(b):
    out = bytearray(b"(")
    for c in b:
        if c in (40, 41, 92) or c < 32 or c > 126:
            out += b"\\%03o" % c
        else:
            out.append(c)
    return bytes(out) + b")"


def _ser(v):
    if v is None:
        return b"null"
    if v is True:
        return b"true"
    if v is False:
        return b"false"
    if isinstance(v, int):
        return b"%d" % v
    if isinstance(v, (bytes, bytearray)):
        return _str(bytes(v))
    if isinstance(v, list):
        return b"[" + b" ".join(_ser(x) for x in v) + b"]"
    if isinstance(v, dict):
        return b"<<" + b" ".join(_nm(k) + b" " + _ser(x) for k, x in v.items()) + b">>"
    if isinstance(v, tuple):
        if v[0] == "N":
            return _nm(v[1])
        if v[0] == "F":
            return b"%d %d R" % (v[1], v[2])
        if v[0] == "R":
            return v[1].encode()
    raise TypeError("cannot serialise %r" % (v,))


N, R, D = W.N, W.R, W.D


class _Doc:
    def __init__(self):
        self.raw = {}
        self.n = 2  # 1 = catalog, 2 = pages

    def add(self, v, data=None):
        self.n += 1
        self.put(self.n, v, data)
        return self.n

    def put(self, n, v, data=None):
        if data is None:
            self.raw[n] = _ser(v)
        else:
            d = dict(v)
            d[b"Length"] = len(data)
            self.raw[n] = _ser(d) + b"\nstream\n" + data + b"\nendstream"


EXT = {"gray8": ".bmp", "rgb8": ".bmp", "bits1": ".bmp", "dct": ".jpg", "jpx": ".jp2", "jbig2": ".jb2",
       "cmyk8": ".jpg", "raw4": ".4.1x1.img"}


def _image_parts(variant):
    """(dictionary entries, stream data) of a 1x1 image exported through the writer path named by `variant`."""
    d = D(Type=N("XObject"), Subtype=N("Image"), Width=1, Height=1, BitsPerComponent=8, ColorSpace=N("DeviceGray"))
    if variant == "gray8":
        d[b"Filter"] = N("FlateDecode")
        data = zlib.compress(b"\x07")
    elif variant == "rgb8":
        d[b"ColorSpace"] = N("DeviceRGB")
        d[b"Filter"] = N("FlateDecode")
        data = zlib.compress(b"\x01\x02\x03")
    elif variant == "bits1":
        d[b"BitsPerComponent"] = 1
        d[b"Filter"] = [N("ASCIIHexDecode"), N("FlateDecode")]
        data = zlib.compress(b"\x80").hex().encode() + b">"
    elif variant == "dct":
        d[b"ColorSpace"] = N("DeviceRGB")
        d[b"Filter"] = N("DCTDecode")
        data = b"\xff\xd8not really a jpeg\xff\xd9"
    elif variant == "jpx":
        d[b"Filter"] = N("JPXDecode")
        data = b"\x00\x00\x00\x0cjP  \r\n\x87\n"
    elif variant == "jbig2":
        d[b"BitsPerComponent"] = 1
        d[b"Filter"] = N("JBIG2Decode")
        data = b""
    elif variant == "cmyk8":
        d[b"ColorSpace"] = N("DeviceCMYK")
        d[b"Filter"] = N("FlateDecode")
        data = zlib.compress(b"\x01\x02\x03\x04")
    elif variant == "raw4":
        d[b"BitsPerComponent"] = 4
        d[b"Filter"] = N("ASCIIHexDecode")
        data = b"70>"
    else:
        raise ValueError(variant)
    return d, data


def _cmap_program(usecmap):
    out = b"/CIDInit /ProcSet findresource begin 12 dict begin begincmap\n"
    if usecmap is not None:
        out += _nm(usecmap) + b" usecmap\n"
    out += (b"/CMapName /Adobe-Identity-UCS def /CMapType 2 def\n1 begincodespacerange <00> <ff> endcodespacerange\n"
            b"1 beginbfchar <41> <0041> endbfchar\nendcmap CMapName currentdict /CMap defineresource pop end end\n")
    return out


def build_document(items, pages):
    """Serialise the (already substituted) item list into a PDF file."""
    doc = _Doc()
    fonts, xobjs, content = {}, {}, []
    for it in items:
        if it["t"] == "font":
            desc = None
            if it.get("fontname") is not None:
                desc = doc.add(D(Type=N("FontDescriptor"), FontName=N(it["fontname"]), Flags=4,
                                 FontBBox=[0, 0, 1000, 1000], ItalicAngle=0, Ascent=800, Descent=-200, CapHeight=700,
                                 StemV=80))
            tu = it.get("tounicode")
            tu_val = None
            if tu is not None:
                if tu[0] == "name":
                    tu_val = N(tu[1])
                else:
                    tu_val = R(doc.add({}, _cmap_program(tu[1])))
            if it["sub"] == "simple":
                f = D(Type=N("Font"), Subtype=N("Type1"), BaseFont=N(it["basefont"]), FirstChar=65, LastChar=66,
                      Widths=[500, 500])
                if it.get("enc") is not None:
                    f[b"Encoding"] = N(it["enc"][1])
                if desc is not None:
                    f[b"FontDescriptor"] = R(desc)
                if tu_val is not None:
                    f[b"ToUnicode"] = tu_val
                fid = doc.add(f)
            else:
                cid = D(Type=N("Font"), Subtype=N(it.get("cidsub", "CIDFontType2")), BaseFont=N(it["basefont"]),
                        CIDSystemInfo=D(Registry=it["registry"], Ordering=it["ordering"], Supplement=0), DW=1000)
                if desc is not None:
                    cid[b"FontDescriptor"] = R(desc)
                cidn = doc.add(cid)
                f = D(Type=N("Font"), Subtype=N("Type0"), BaseFont=N(it["basefont"]), DescendantFonts=[R(cidn)])
                enc = it.get("enc")
                if enc is not None:
                    if enc[0] == "name":
                        f[b"Encoding"] = N(enc[1])
                    else:
                        sd = D(Type=N("CMap"), CMapName=N(enc[1]))
                        f[b"Encoding"] = R(doc.add(sd, _cmap_program(enc[2])))
                if tu_val is not None:
                    f[b"ToUnicode"] = tu_val
                fid = doc.add(f)
            fonts[it["res"]] = R(fid)
            content.append(b"BT " + _nm(it["res"]) + b" 12 Tf 20 700 Td " + _str(it["text"]) + b" Tj ET\n")
        elif it["t"] == "image":
            if it["slot"] in ("inline", "inline_name"):
                extra = b""
                if it.get("name_entry") is not None:
                    extra = b"/Name " + _nm(it["name_entry"]) + b" "
                content.append(b"q 10 0 0 10 100 100 cm BI /W 1 /H 1 /BPC 8 /CS /G /F /AHx " + extra
                               + b"ID 07>\nEI Q\n")
                continue
            d, data = _image_parts(it["variant"])
            for key, val in (it.get("geom") or {}).items():
                # document-controlled values that end up in the name of a raw dump (<name>.<bits>.<w>x<h>.img)
                d[key.encode()] = val
            if it.get("name_entry") is not None:
                d[b"Name"] = N(it["name_entry"])
            iid = doc.add(d, data)
            draw = b"q 10 0 0 10 50 50 cm " + _nm(it["res"]) + b" Do Q\n"
            if it["slot"] == "form":
                fd = D(Type=N("XObject"), Subtype=N("Form"), BBox=[0, 0, 100, 100],
                       Resources=D(XObject={it["res"]: R(iid)}))
                fid = doc.add(fd, draw)
                xobjs[it["form_res"]] = R(fid)
                draw = _nm(it["form_res"]) + b" Do\n"
            else:
                xobjs[it["res"]] = R(iid)
            content.append(draw * it.get("draws", 1))
        else:
            raise ValueError(it["t"])
    res = {}
    if fonts:
        res[b"Font"] = fonts
    if xobjs:
        res[b"XObject"] = xobjs
    kids = []
    for _ in range(pages):
        c = doc.add({}, b"".join(content))
        kids.append(R(doc.add(D(Type=N("Page"), Parent=R(2), MediaBox=[0, 0, 612, 792], Resources=res,
                                Contents=R(c)))))
    doc.put(1, D(Type=N("Catalog"), Pages=R(2)))
    doc.put(2, D(Type=N("Pages"), Kids=kids, Count=len(kids)))
    return W.build_pdf({}, raw=doc.raw)


# ---------------------------------------------------------------------------------------------------------------
# sandbox
# ---------------------------------------------------------------------------------------------------------------
BAIT_DICT = {"IS_VERTICAL": False, "CODE2CID": {}, "CID2UNICHR_H": {}, "CID2UNICHR_V": {}}
_state = {"warm": False, "cmapdir": None, "builtin": None, "import_roots": None}


def _cmapdir():
    if _state["cmapdir"] is None:
        import pdfminer.cmapdb

        d = os.path.realpath(os.path.join(os.path.dirname(pdfminer.cmapdb.__file__), "cmap"))
        _state["cmapdir"] = d
        _state["builtin"] = frozenset(f[:-len(".pickle.gz")] for f in os.listdir(d) if f.endswith(".pickle.gz"))
    return _state["cmapdir"]


def _import_roots():
    if _state["import_roots"] is None:
        roots = set()
        for p in [sys.prefix, sys.base_prefix, sys.exec_prefix, sys.base_exec_prefix] + list(sys.path):
            if p and os.path.isdir(p):
                roots.add(os.path.realpath(p))
        _state["import_roots"] = sorted(roots)
    return _state["import_roots"]


_IMPORT_SUFFIXES = (".py", ".pyc", ".pyi", ".so", ".pth", ".pyd")


def _is_import_traffic(event, paths):
    """Interpreter import machinery: listing package directories, reading/writing module and byte-code files."""
    roots = _import_roots()
    for p in paths:
        if p is None or not any(SB.under(p, r) for r in roots):
            return False
        if event in ("os.listdir", "os.scandir"):
            continue
        base = os.path.basename(p)
        if not (base.endswith(_IMPORT_SUFFIXES) or ".pyc." in base or base == "__pycache__"):
            return False
    return bool(paths)


def _write_bait(path):
    with gzip.open(path, "wb") as f:
        f.write(pickle.dumps(BAIT_DICT))


def sandbox_dirs(root, recipe):
    """(CMAP_PATH directory, output directory, output_dir argument as passed to the library)"""
    cmap_abs = os.path.normpath(os.path.join(root, "cmap", recipe.get("cmap_sub", "")))
    mode = recipe.get("outdir", "abs")
    out_abs = os.path.join(root, "out", "new", "sub") if mode == "new" else os.path.join(root, "out")
    out_arg = os.path.relpath(out_abs, os.path.join(root, "cwd")) if mode == "rel" else out_abs
    if mode == "linkdotdot":
        # <root>/cwd/lnk is a symbolic link to <root>/out/inner: the operating system resolves `lnk/..` to <root>/out,
        # whereas cancelling `..` against `lnk` in the string would give <root>/cwd
        out_arg = os.path.join(root, "cwd", "lnk", "..")
    return cmap_abs, out_abs, out_arg


def _sandbox_base():
    """Directory for the per-case sandboxes: a memory file system when there is one (a sandbox costs 10+ mkdir/rmdir;
    ~0.1 ms there against tens of ms on a busy disk), else the default temporary directory."""
    b = os.environ.get("VERIF_SANDBOX_BASE")
    if b:
        return b
    return "/dev/shm" if os.path.isdir("/dev/shm") and os.access("/dev/shm", os.W_OK | os.X_OK) else None


def make_sandbox(recipe):
    root = os.path.realpath(tempfile.mkdtemp(prefix="c15-", dir=_sandbox_base()))
    for d in ("out", "outside", "cmap", "cwd"):
        os.mkdir(os.path.join(root, d))
    if recipe.get("outdir") == "linkdotdot":
        os.mkdir(os.path.join(root, "out", "inner"))
        os.symlink(os.path.join(root, "out", "inner"), os.path.join(root, "cwd", "lnk"))
    for d in recipe.get("out_dirs", []):
        os.makedirs(os.path.join(root, "out", d))
    for name, content in recipe.get("out", []):
        with open(os.path.join(root, "out", name), "wb") as f:
            f.write(content)
    for name, content in recipe.get("outside", []):
        with open(os.path.join(root, "outside", name), "wb") as f:
            f.write(content)
    for name in recipe.get("baits", []):
        _write_bait(os.path.join(root, "outside", name + ".pickle.gz"))
    cmap_abs = sandbox_dirs(root, recipe)[0]
    os.makedirs(cmap_abs, exist_ok=True)
    for name in recipe.get("cmap", []):
        _write_bait(os.path.join(cmap_abs, name + ".pickle.gz"))
    for d in recipe.get("cmap_dirs", []):
        os.mkdir(os.path.join(cmap_abs, d))
    if recipe.get("private", True):  # siblings `<CMAP_PATH>-private` (baits) and `<output_dir>-private`
        os.makedirs(cmap_abs + "-private")
        for name in recipe.get("baits", []):
            _write_bait(os.path.join(cmap_abs + "-private", name + ".pickle.gz"))
        os.makedirs(sandbox_dirs(root, recipe)[1] + "-private")
    # a symbolic link inside CMAP_PATH that leads out of it: `extra/../private/<bait>` looks contained when
    # normalised lexically, but the file system resolves it to outside/private/<bait>
    os.makedirs(os.path.join(root, "outside", "sub"))
    os.makedirs(os.path.join(root, "outside", "private"))
    for name in recipe.get("baits", []):
        _write_bait(os.path.join(root, "outside", "private", name + ".pickle.gz"))
    if not os.path.lexists(os.path.join(cmap_abs, "extra")):
        os.symlink(os.path.join(root, "outside", "sub"), os.path.join(cmap_abs, "extra"))
    with open(os.path.join(root, "cwd", "note.txt"), "wb") as f:
        f.write(b"cwd file")
    if recipe.get("cmap_env") == "unset":
        # CMAP_PATH not set: the library's documented default directory applies, never the working directory
        for name in list(recipe.get("baits", [])) + list(recipe.get("cmap", [])):
            _write_bait(os.path.join(root, "cwd", name + ".pickle.gz"))
    return root


def _subst(o, m):
    if isinstance(o, (bytes, bytearray)):
        o = bytes(o)
        for k, v in m.items():
            o = o.replace(k, v)
        return o
    if isinstance(o, list):
        return [_subst(x, m) for x in o]
    if isinstance(o, tuple):
        return tuple(_subst(x, m) for x in o)
    if isinstance(o, dict):
        return {k: _subst(v, m) for k, v in o.items()}
    return o


class _Capture(logging.Handler):
    def __init__(self):
        logging.Handler.__init__(self, level=logging.DEBUG)
        self.names = []

    def emit(self, record):
        try:
            if record.msg == "loading: %r" and record.args:
                self.names.append(str(record.args[0]))
        except Exception:
            pass


def _purge_caches():
    """Forget character maps loaded under non-built-in names, so that every call shows its own file access."""
    from pdfminer.cmapdb import CMapDB

    _cmapdir()
    builtin = _state["builtin"]
    for k in [k for k in CMapDB._cmap_cache if k not in builtin]:
        del CMapDB._cmap_cache[k]
    for k in [k for k in CMapDB._umap_cache if ("to-unicode-%s" % k) not in builtin]:
        del CMapDB._umap_cache[k]


def _call_library(pdf, outdir, api, mon, excs):
    from pdfminer.high_level import extract_text, extract_text_to_fp
    from pdfminer.layout import LAParams

    ot = api.get("output_type", "text")
    mon.mark("extract_text_to_fp")
    try:
        outfp = io.StringIO() if ot == "text" else io.BytesIO()
        extract_text_to_fp(io.BytesIO(pdf), outfp, output_type=ot, laparams=LAParams() if api.get("la") else None,
                           output_dir=outdir)
    except Exception as e:  # exceptions are C13's business, not a confinement violation
        excs.append("to_fp:" + type(e).__name__)
    _purge_caches()
    mon.mark("extract_text")
    try:
        extract_text(io.BytesIO(pdf))
    except Exception as e:
        excs.append("text:" + type(e).__name__)
    _purge_caches()


def _monitored(pdf, root, cmap_abs, outdir, api, cmap_env="set"):
    """Runs the library inside the sandbox environment; returns (events, loading names, exceptions)."""
    lg = logging.getLogger("pdfminer.cmapdb")
    cap = _Capture()
    old_level, old_prop, old_disabled = lg.level, lg.propagate, lg.disabled
    old_env = os.environ.get("CMAP_PATH")
    old_cwd = os.getcwd()
    excs = []
    mon = SB.Monitor()
    try:
        lg.addHandler(cap)
        lg.setLevel(logging.DEBUG)
        lg.propagate = False
        lg.disabled = False
        if cmap_env == "unset":
            os.environ.pop("CMAP_PATH", None)
        else:
            os.environ["CMAP_PATH"] = cmap_abs
        os.chdir(os.path.join(root, "cwd"))
        _purge_caches()
        with mon:
            _call_library(pdf, outdir, api, mon, excs)
    finally:
        os.chdir(old_cwd)
        if old_env is None:
            os.environ.pop("CMAP_PATH", None)
        else:
            os.environ["CMAP_PATH"] = old_env
        lg.removeHandler(cap)
        lg.setLevel(old_level)
        lg.propagate = old_prop
        lg.disabled = old_disabled
        _purge_caches()
    return mon.events, cap.names, excs


_PATH_ARGS = {  # event -> indices of path arguments
    "os.mkdir": (0,), "os.rename": (0, 1), "os.remove": (0,), "os.rmdir": (0,), "os.symlink": (0, 1),
    "os.link": (0, 1), "os.listdir": (0,), "os.scandir": (0,), "os.truncate": (0,), "os.chmod": (0,),
    "os.chown": (0,), "os.utime": (0,), "os.chdir": (0,), "os.walk": (0,), "os.fwalk": (0,), "os.mkfifo": (0,),
    "os.mknod": (0,), "os.chflags": (0,), "os.setxattr": (0,), "os.removexattr": (0,), "os.getxattr": (0,),
    "os.listxattr": (0,), "shutil.copyfile": (0, 1), "shutil.copymode": (0, 1), "shutil.copystat": (0, 1),
    "shutil.copytree": (0, 1), "shutil.move": (0, 1), "shutil.rmtree": (0,), "shutil.chown": (0,),
    "shutil.make_archive": (0,), "shutil.unpack_archive": (0, 1), "glob.glob": (0,), "glob.glob/2": (0,),
}
_IGNORED = {"os.putenv", "os.unsetenv"}  # not file access


def judge(events, root, snap_before, snap_after, out=None, cmap_abs=None):
    """-> (violations [str], write-open paths [as passed], read-open paths [resolved], created [root-relative])"""
    cwd = os.path.join(root, "cwd")
    out = out or os.path.join(root, "out")  # the directory passed as output_dir
    # cmap_abs == "": CMAP_PATH is not set, the documented default directory applies
    allowed_read = [_cmapdir(), "/usr/share/pdfminer" if cmap_abs == "" else (cmap_abs or os.path.join(root, "cmap"))]
    viol, writes, wraw, reads = [], [], [], []

    def show(p):
        return repr(p.replace(root, "{R}") if isinstance(p, str) else p)

    pre_existing = set(os.path.join(root, rel) for rel in snap_before)
    call = "?"
    for ev, args in events:
        if ev == "mark":
            call = args[0]
            continue
        if ev == "hook-error":
            raise RuntimeError("audit hook failed: %r" % (args,))
        if ev in _IGNORED:
            continue
        if ev == "open":
            path, mode, flags = (list(args) + [None, None, None])[:3]
            if isinstance(path, int):
                continue  # wraps an already open descriptor
            rp = SB.resolve(path, cwd)
            if SB.open_is_write(mode, flags):
                if _is_import_traffic(ev, [rp]):
                    continue
                writes.append(rp)
                wraw.append(path if isinstance(path, str) else repr(path))
                if not SB.strictly_under(rp, out):
                    viol.append("%s opened %s for writing (mode=%r): outside output_dir" % (call, show(path), mode))
                elif rp in pre_existing:
                    viol.append("%s opened existing file %s for writing (mode=%r)" % (call, show(path), mode))
                elif writes.count(rp) > 1:
                    viol.append("%s: two exported images share the file %s" % (call, show(path)))
            else:
                reads.append(rp)
                if any(SB.strictly_under(rp, d) for d in allowed_read) or _is_import_traffic(ev, [rp]):
                    continue
                viol.append("%s opened %s for reading (resolves to %s): not a resource directory" % (
                    call, show(path), show(rp)))
            continue
        idx = _PATH_ARGS.get(ev)
        paths = [SB.resolve(args[i], cwd) for i in idx if i < len(args)] if idx else []
        if idx and _is_import_traffic(ev, paths):
            continue
        if ev == "os.mkdir" and paths and paths[0] not in pre_existing and (
                SB.under(paths[0], out) or SB.strictly_under(out, paths[0])) and SB.strictly_under(paths[0], root):
            continue  # ImageWriter creates a missing output directory (and its missing parents)
        viol.append("%s raised audit event %s%s" % (call, ev, show(repr(args))))
    created, modified, deleted = SB.diff(snap_before, snap_after)
    for rel in created:
        ap = os.path.join(root, rel)
        if SB.under(ap, out) or (SB.strictly_under(out, ap) and snap_after[rel] == ("d",)):
            continue  # inside output_dir, or a directory on the way down to a newly made output_dir
        viol.append("created outside output_dir: %s" % rel)
    for rel in modified:
        viol.append("pre-existing file changed: %s" % rel)
    for rel in deleted:
        viol.append("pre-existing path deleted: %s" % rel)
    return viol, wraw, reads, created


_ALNUM = re.compile(r"[^A-Za-z0-9]+")


def _alnum(s):
    return _ALNUM.sub("", s)


def run_case(case):
    _prewarm()
    return _run_case(case)


def _run_case(case):
    recipe = case["recipe"]
    root = make_sandbox(recipe)
    try:
        cmap_abs, out_abs, out_arg = sandbox_dirs(root, recipe)
        fe, rel = os.fsencode, os.path.relpath
        m = {b"{R}": fe(root), b"{R1}": fe(root.lstrip("/")), b"{U}": fe(rel(root, _cmapdir())),
             b"{C}": fe(rel(root, cmap_abs)), b"{CD}": fe(rel(cmap_abs, root)), b"{CB}": fe(os.path.basename(cmap_abs)),
             b"{O}": fe(rel(root, out_abs)), b"{OD}": fe(rel(out_abs, root)), b"{OB}": fe(os.path.basename(out_abs))}
        items = _subst(case["items"], m)
        pdf = build_document(items, case.get("pages", 1))
        before = SB.snapshot(root)
        unset = recipe.get("cmap_env") == "unset"
        events, loaded, excs = _monitored(pdf, root, cmap_abs, out_arg, case.get("api", {}), "unset" if unset else "set")
        after = SB.snapshot(root)
        viol, writes, reads, created = judge(events, root, before, after, out_abs, "" if unset else cmap_abs)
    finally:
        shutil.rmtree(root, ignore_errors=True)
    # ---- classification
    classes = ["outdir:" + recipe.get("outdir", "abs"),
               "cmap_path:" + ("unset" if recipe.get("cmap_env") == "unset" else (recipe.get("cmap_sub") or "cmap")), "api:" + case.get("api", {}).get("output_type", "text"),
               "pages:%d" % case.get("pages", 1)]
    classes += ["exc:" + e for e in sorted(set(excs))]
    nt = False
    delivered = []
    def strip_root(x):
        return _alnum(x.replace(root, "").replace(root[1:], ""))

    wnorm = [strip_root(w) for w in writes]
    for it in items:
        slot, kind = it["slot"], it["kind"]
        classes.append("slot:" + slot)
        classes.append("kind:" + kind)
        probes = [p for p in (it.get("h"), it.get("h2")) if p]
        if not probes:
            continue
        hit = False
        if it["t"] == "font":
            pr = [p.decode("latin-1").replace("\0", "").strip() for p in probes]
            hit = any(all(p in name for p in pr) for name in loaded)
        else:
            # the last path component survives every way of confining the name (basename, separator replacement)
            pr = [strip_root(re.split(r"[/\\]", p.decode("latin-1").rstrip("\0"))[-1]) for p in probes]
            hit = all(pr) and any(all(p in w for p in pr) for w in wnorm)
        if hit:
            classes.append("delivered:%s:%s" % (slot, kind))
            delivered.append([slot, kind])
            if kind not in BENIGN_KINDS:
                nt = True
    classes.append("lookups:%d" % min(len(loaded), 4))
    classes.append("write-opens:%d" % min(len(writes), 4))
    if any(re.search(r"\.\d+\.[A-Za-z0-9.]+$", c) for c in created):
        classes.append("renamed-on-collision")
    sample = {"items": [[it["slot"], it["kind"], (it.get("h") or b"")[:60].replace(os.fsencode(root), b"{R}")]
                        for it in items],
              "delivered": delivered, "loading": [n.replace(root, "{R}")[:80] for n in loaded[:4]],
              "write_opens": [w.replace(root, "{R}")[:80] for w in writes[:4]], "exceptions": excs}
    if viol:
        return Outcome(classes, nt, fail="; ".join(viol[:4]) + " | items=%r" % (sample["items"],), sample=sample)
    return Outcome(classes, nt, sample=sample)


# ---------------------------------------------------------------------------------------------------------------
# pre-warming: first use of codecs, lazily imported modules, built-in CJK maps -- outside any monitored region
# ---------------------------------------------------------------------------------------------------------------
def _benign_case():
    items = [
        {"t": "font", "slot": "enc_name", "kind": "benign", "h": b"H", "sub": "type0", "res": b"F1",
         "basefont": b"Ryumin-Light", "enc": ["name", b"H"], "tounicode": None, "registry": b"Adobe",
         "ordering": b"Japan1", "fontname": b"Ryumin-Light", "text": b"\x21\x21"},
        {"t": "font", "slot": "usecmap", "kind": "benign", "h": b"Good-H", "sub": "type0", "res": b"F2",
         "basefont": b"Foo", "enc": ["stream", b"V", b"H"], "tounicode": ["stream", b"Good-H"], "registry": b"Adobe",
         "ordering": b"Identity", "fontname": None, "text": b"\x00A"},
        {"t": "font", "slot": "enc_stream", "kind": "benign", "h": b"Good-H", "sub": "type0", "res": b"F4",
         "basefont": b"Bar", "enc": ["stream", b"Good-H", None], "tounicode": None, "registry": b"Good",
         "ordering": b"H", "fontname": None, "text": b"\x00A"},
        {"t": "font", "slot": "usecmap_simple", "kind": "benign", "h": b"V", "sub": "simple", "res": b"F3",
         "basefont": b"Helvetica", "enc": ["name", b"WinAnsiEncoding"], "tounicode": ["stream", b"V"],
         "registry": b"", "ordering": b"", "fontname": b"Helvetica", "text": b"AB"},
    ]
    for i, v in enumerate(sorted(EXT)):
        items.append({"t": "image", "slot": "xobj", "kind": "benign", "h": b"Im%d" % i, "variant": v,
                      "res": b"Im%d" % i, "draws": 2, "name_entry": b"Im%d" % i})
    items.append({"t": "image", "slot": "inline", "kind": "benign", "h": None, "variant": "gray8", "res": b"x"})
    items.append({"t": "image", "slot": "form", "kind": "benign", "h": b"Fm0", "variant": "gray8", "res": b"ImF",
                  "form_res": b"Fm0", "draws": 1})
    return {"items": items, "pages": 2,
            "recipe": {"out": [["Im0.bmp", b"x"], ["Im0.0.bmp", b"y"]], "outside": [], "baits": ["X"],
                       "cmap": ["Good-H", "to-unicode-Good-H"], "cmap_dirs": [], "out_dirs": [], "outdir": "abs"},
            "api": {"output_type": "text", "la": True}}


def _prewarm():
    if _state["warm"]:
        return
    SB.install()
    base = _benign_case()
    for ot in ("text", "xml", "html"):
        for img in base["items"]:
            c = dict(base)
            c["items"] = [x for x in base["items"] if x["t"] == "font"] + ([img] if img["t"] == "image" else [])
            c["api"] = {"output_type": ot, "la": True}
            _run_case(c)
    _state["warm"] = True


def selfcheck():
    """The monitor must see what it is supposed to see, and the benign document must be clean and non-vacuous."""
    _prewarm()
    # 1. recorder + judge detect planted accesses
    root = make_sandbox({"out": [["a.bmp", b"1"]], "outside": [["v.txt", b"2"]], "baits": ["X"], "cmap": ["Good-H"]})
    try:
        before = SB.snapshot(root)
        old = os.getcwd()
        os.chdir(os.path.join(root, "cwd"))
        try:
            with SB.Monitor() as mon:
                mon.mark("planted")
                gzip.open(os.path.join(root, "cmap", "Good-H.pickle.gz")).close()  # allowed
                gzip.open(os.path.join("..", "cmap", "..", "outside", "X.pickle.gz")).close()  # 1 read outside
                open(os.path.join(root, "out", "new.bmp"), "wb").close()  # allowed
                open(os.path.join(root, "out", "new.bmp"), "wb").close()  # 2 same file twice
                open(os.path.join(root, "out", "a.bmp"), "wb").close()  # 3 overwrite (+ 4 changed)
                open(os.path.join(root, "out", "..", "outside", "e.bmp"), "wb").close()  # 5 write outside (+ 6 created)
                os.remove(os.path.join(root, "outside", "v.txt"))  # 7 event (+ 8 deleted)
                fd = os.open(os.path.join(root, "cwd", "note.txt"), os.O_RDONLY)  # 9 read outside via os.open
                os.close(fd)
        finally:
            os.chdir(old)
        after = SB.snapshot(root)
        viol, writes, reads, created = judge(mon.events, root, before, after)
    finally:
        shutil.rmtree(root, ignore_errors=True)
    if len(viol) != 9:
        raise AssertionError("selfcheck: expected 9 planted violations, judge reported %d: %r" % (len(viol), viol))
    # 2. benign document: clean, lookups and exports observed
    # (a violation on it is the library's business and is reported through replays/C15/benign_all_paths.json)
    out = _run_case(_benign_case())
    need = ["delivered:enc_stream:benign", "delivered:usecmap:benign", "delivered:xobj:benign"]
    missing = [c for c in need if c not in out.classes]
    if missing:
        raise AssertionError("selfcheck: benign document did not exercise %r (classes=%r)" % (missing, out.classes))


# ---------------------------------------------------------------------------------------------------------------
# generation
# ---------------------------------------------------------------------------------------------------------------
BENIGN_KINDS = ("benign", "collide")
BAITS = ["X0", "X1", "X2", "H", "H1", "H2", "P-Q", "to-unicode-X"]
GOOD = ["Good-H", "Good0-H", "Good1-H", "Good2-H", "to-unicode-Good-H"]
HOSTILE_KINDS = ["abs", "rel-sibling", "rel-repo", "nul", "dslash", "dot", "long", "toolong", "backslash", "inside",
                 "prefix-sibling", "symlink", "lookalike"]
FONT_SLOTS = ["enc_name", "enc_stream", "usecmap", "usecmap_simple", "tounicode_name", "regord", "basefont",
              "fontname", "resname"]
IMAGE_SLOTS = ["xobj", "xobj", "xobj", "form", "name_entry", "inline_name", "inline"]
BUILTIN_SMALL = [b"H", b"V", b"90ms-RKSJ-H", b"GBK-EUC-H", b"KSC-EUC-H", b"B5pc-H", b"Identity-H", b"Identity-V",
                 b"OneByteIdentityH", b"DLIdent-H"]
_ALPHA = "ABCDEFGHIJKLMNOPQRSTUVWXYZabcdefghijklmnopqrstuvwxyz0123456789"


def _word(rnd, lo=1, hi=10):
    return "".join(rnd.choice(_ALPHA) for _ in range(rnd.randint(lo, hi))).encode()


def mk_hostile(kind, target, rnd, inside, base):
    """A string of the given kind aimed at root/<target> (target: bytes, relative to the sandbox root, no suffix).
    `inside`: a relative path that legitimately stays inside the base directory.  `base` is b"C" (CMAP_PATH) or
    b"O" (output_dir); placeholders resolved per run: {R} root, {R1} root without the leading slash, {U} relative
    path from pdfminer/cmap to root, {C}/{O} relative path from the base directory up to root, {CD}/{OD} relative
    path from root down to the base directory, {CB}/{OB} last component of the base directory."""
    t = target
    up = b"{" + base + b"}"
    down = b"{" + base + b"D}"
    if kind == "abs":
        return b"{R}/" + t
    if kind == "rel-sibling":  # from CMAP_PATH resp. output_dir (and from cwd when they are siblings of it)
        return up + b"/" + t
    if kind == "rel-repo":  # from pdfminer/cmap inside the source tree
        return b"{U}/" + t
    if kind == "nul":
        return rnd.choice([b"..\0/" + t, b".\0./" + t, up + b"\0/" + t, b"{R}/\0" + t, b"{R}\0/" + t, b"\0{U}/" + t,
                           up + b"/" + t + b"\0", b"\0" + up + b"/" + t.replace(b"/", b"/\0")])
    if kind == "dslash":
        return rnd.choice([up + b"//" + t.replace(b"/", b"//"), b"/{R}//" + t, b"{U}//" + t, up + b"///" + t])
    if kind == "dot":
        return rnd.choice([b"./" + up + b"/" + t.replace(b"/", b"/./"), b"{R}/./" + t,
                           up + b"/" + down + b"/" + up + b"/" + t, up + b"/./" + down + b"/./" + up + b"/" + t,
                           b"./{U}/./" + t])
    if kind == "long":
        return rnd.choice([b"../" * rnd.randint(20, 60) + b"{R1}/" + t, b"{R}/" + b"./" * rnd.randint(50, 150) + t,
                           up + b"/" + b"./" * rnd.randint(50, 150) + t])
    if kind == "toolong":
        return rnd.choice([up + b"/outside/" + b"A" * rnd.randint(256, 400), b"A" * rnd.randint(4200, 5000),
                           up + b"/" + t + b"/" * 300, (b"d" * 200 + b"/") * 30 + t])
    if kind == "backslash":
        return rnd.choice([b"..\\" + t.replace(b"/", b"\\"), b"..\\..\\" + t, b"C:\\" + t.replace(b"/", b"\\")])
    if kind == "prefix-sibling":  # a sibling directory whose name merely starts with the base directory's name
        return b"../{" + base + b"B}-private/" + t.rsplit(b"/", 1)[-1]
    if kind == "symlink":  # through the symbolic link CMAP_PATH/extra -> outside/sub and back up
        if base != b"C":
            return up + b"/" + t
        return b"extra/../private/" + t.rsplit(b"/", 1)[-1]
    if kind == "lookalike":
        # characters that compatibility normalisation (NFKC/NFKD) or a lossy re-encoding turns into `.` and `/`:
        # FULLWIDTH FULL STOP / SOLIDUS, SMALL FULL STOP, TWO DOT LEADER, DIVISION SLASH stays (not a separator)
        dot = rnd.choice(["\uff0e", "\ufe52"]).encode("utf-8")
        dots = rnd.choice([dot + dot, "\u2025".encode("utf-8")])
        sl = "\uff0f".encode("utf-8")
        tt = t.replace(b"/", sl)
        return rnd.choice([dots + sl + tt, dots + sl + dots + sl + tt, sl + tt, dots + b"/" + tt, b"{R}".replace(b"/", sl) + sl + tt])
    if kind == "inside":
        return inside
    raise ValueError(kind)


@st.composite
def font_item(draw, idx, slot=None):
    rnd = random.Random(draw(st.integers(0, 2 ** 32)))
    slot = slot or draw(st.sampled_from(FONT_SLOTS))
    kind = draw(st.sampled_from(HOSTILE_KINDS + HOSTILE_KINDS + ["benign", "collide"]))
    it = {"t": "font", "slot": slot, "kind": kind, "h": None, "h2": None, "sub": "type0",
          "cidsub": rnd.choice(["CIDFontType2", "CIDFontType0"]), "res": b"F%d" % idx, "basefont": b"Font%d" % idx,
          "enc": ["name", b"Identity-H"], "tounicode": None, "registry": b"Adobe", "ordering": b"Identity",
          "fontname": rnd.choice([None, b"Font%d" % idx]), "text": rnd.choice([b"\x00A", b"AB", b"\x21\x21\x30\x21"])}
    bait = rnd.choice(["X%d" % idx, "H" if idx == 0 else "H%d" % idx])  # one bait per item: delivery is attributable
    good = b"Good%d-H" % idx
    if kind == "benign":
        h = rnd.choice([_word(rnd), _word(rnd) + b"-H", b"Custom-" + _word(rnd)])
    elif kind == "collide":
        h = rnd.choice(BUILTIN_SMALL + [good, good])
    else:
        h = mk_hostile(kind, b"outside/" + bait.encode(), rnd,
                       rnd.choice([b"../{CB}/" + good, b"./" + good, b".//" + good, b"x/../" + good]), b"C")
    if slot == "regord":
        # to-unicode-<Registry>-<Ordering>: reaches outside/P-Q or outside/to-unicode-X only through a directory
        # named `to-unicode-...` inside CMAP_PATH (recipe cmap_dirs), because of the fixed prefix
        it["enc"] = ["name", rnd.choice([b"Identity-H", b"H", b"V"])]
        if kind == "benign":
            h, h2 = rnd.choice([(b"Adobe", b"Japan1"), (b"Adobe", b"Korea1"), (_word(rnd), _word(rnd)),
                                (b" Adobe ", b" Japan1 ")])
        elif kind == "collide":
            h, h2 = rnd.choice([(b"Adobe", b"GB1"), (b"Adobe", b"CNS1"), (b"Good", b"H")])
        elif kind == "abs":
            h, h2 = rnd.choice([(b"{R}/outside/P", b"Q"), (b"/" + b"../" * 30 + b"{R1}/outside/P", b"Q")])
        elif kind == "rel-sibling":
            h, h2 = rnd.choice([(b"/../{C}/outside/P", b"Q"), (b"Adobe", b"/../{C}/outside/P-Q"),
                                (b"X", b"/../{C}/outside/to-unicode-X")])
        elif kind == "nul":
            h, h2 = rnd.choice([(b"/..\0/{C}/outside/P", b"Q"), (b"\0/../{C}/outside/P", b"\0Q"),
                                (b"Adobe", b"/.\0./{C}/outside/P-Q")])
        elif kind == "dslash":
            h, h2 = (b"//..//{C}//outside//P", b"Q")
        elif kind == "dot":
            h, h2 = rnd.choice([(b"/./.././{C}/outside/./P", b"Q"), (b" /../{C}/outside/P", b"Q ")])
        elif kind == "long":
            h, h2 = (b"/" + b"./" * rnd.randint(50, 150) + b"../{C}/outside/P", b"Q")
        elif kind == "inside":
            h, h2 = rnd.choice([(b"/../Good", b"H"), (b"/../to-unicode-/../Good", b"H")])
        elif kind == "prefix-sibling":
            h, h2 = (b"/../../{CB}-private/P", b"Q")
        else:
            h2 = b"Q"
        it["registry"], it["ordering"], it["h"], it["h2"] = h, h2, h, h2
        return it
    it["h"] = h
    if slot == "enc_name":
        it["enc"] = ["name", h]
    elif slot == "enc_stream":
        it["enc"] = ["stream", h, rnd.choice([None, b"H", b"Identity-H"])]
    elif slot == "usecmap":
        it["tounicode"] = ["stream", h]
    elif slot == "usecmap_simple":
        it["sub"] = "simple"
        it["enc"] = rnd.choice([None, ["name", b"WinAnsiEncoding"]])
        it["tounicode"] = ["stream", h]
        it["text"] = b"AB"
    elif slot == "tounicode_name":
        it["tounicode"] = ["name", h]
    elif slot == "basefont":
        it["basefont"] = h
        if rnd.random() < 0.4:
            it["sub"] = "simple"
            it["enc"] = None
            it["text"] = b"AB"
    elif slot == "fontname":
        it["fontname"] = h
    elif slot == "resname":
        it["res"] = h
    return it


@st.composite
def image_item(draw, idx, recipe, slot=None):
    rnd = random.Random(draw(st.integers(0, 2 ** 32)))
    slot = slot or draw(st.sampled_from(IMAGE_SLOTS))
    kind = draw(st.sampled_from(HOSTILE_KINDS + HOSTILE_KINDS + ["benign", "collide", "collide"]))
    variant = draw(st.sampled_from(sorted(EXT)))
    ext = EXT[variant]
    it = {"t": "image", "slot": slot, "kind": kind, "h": None, "variant": variant, "res": b"Im%d" % idx,
          "form_res": b"Fm%d" % idx, "draws": rnd.choice([1, 1, 2, 3]), "name_entry": None}
    if slot == "inline":
        it["kind"] = "benign"
        return it
    stem = rnd.choice(["evil", "victim", "victim"]) + str(idx)
    if kind == "benign":
        h = _word(rnd)
    elif kind == "collide":
        h = rnd.choice([b"Im%d" % idx, b"pic", _word(rnd, 1, 3)])
        # (now and then more numbered names are taken than any fixed number of attempts would try)
        names = [h.decode() + ext] + [h.decode() + ".%d%s" % (k, ext)
                                      for k in range(1005 if rnd.random() < 0.08 else rnd.choice([0, 1, 2, 3, 4, 2]))]
        if len(names) >= 4 and len(names) < 100 and rnd.random() < 0.5:
            # a gap in the numbered names (a file of an earlier run was deleted): the next free name is inside the gap,
            # the names after it are still taken
            del names[rnd.randrange(2, len(names) - 1)]
        empty = rnd.random() < 0.3  # an existing file is an existing file, also when it is empty
        for nm in names:
            recipe["out"].append([nm, b"" if empty and rnd.random() < 0.7 else b"PRE:" + nm.encode()])
    else:
        inside = rnd.choice([b"sub/in" + str(idx).encode(), b"./in" + str(idx).encode(), b"sub/../in" + str(idx).encode(),
                             b"{R}/{OD}/abs" + str(idx).encode(), b"../{OB}/in" + str(idx).encode()])
        h = mk_hostile(kind, b"outside/" + stem.encode(), rnd, inside, b"O")
        if stem.startswith("victim"):
            recipe["outside"].append([stem + ext, b"VICTIM:" + stem.encode()])
        if rnd.random() < 0.4:  # the last component alone is already taken inside output_dir
            recipe["out"].append([stem + ext, b"PRE:" + stem.encode()])
        if kind == "inside" and rnd.random() < 0.5:
            base = inside.rsplit(b"/", 1)[-1].decode()
            where = "sub/" if inside.startswith(b"sub/in") else ""
            recipe["out"].append([where + base + ext, b"PRE:" + base.encode()])
    if variant == "raw4" and draw(st.integers(0, 1)) == 0:
        hv = [N(b"x"), N(b"../x"), N(b"../../outside/" + stem.encode()), b"../y", W.Real("4.5"), N(b"/abs"), [4], None]
        it["geom"] = {k: rnd.choice(hv) for k in rnd.sample(["BitsPerComponent", "Width", "Height"], rnd.randint(1, 3))}
        if rnd.random() < 0.6:
            h = rnd.choice([b".", b"..", b"...", b"./.", b"x/.", b"x/.."])  # names that are path components themselves
            kind = it["kind"] = "dots"
    it["h"] = h
    if slot in ("xobj",):
        it["res"] = h
    elif slot == "form":
        it["form_res"] = h
        if rnd.random() < 0.5:
            it["res"] = h
    elif slot in ("name_entry", "inline_name"):
        it["name_entry"] = h
    return it


@st.composite
def cases(draw, focus):
    recipe = {"out": [], "out_dirs": ["sub"], "outside": [["secret.txt", b"secret"]], "baits": list(BAITS),
              "cmap": list(GOOD), "cmap_dirs": [], "cmap_sub": "", "outdir": "abs", "private": True}
    n = draw(st.integers(1, 3))
    items = []
    for i in range(n):
        if focus == "cmap":
            is_font = True
        elif focus == "image":
            is_font = False
        else:
            is_font = draw(st.booleans())
        if is_font:
            items.append(draw(font_item(i)))
        else:
            items.append(draw(image_item(i, recipe)))
    if any(it["slot"] == "regord" for it in items) and draw(st.integers(0, 4)) > 0:
        recipe["cmap_dirs"] = ["to-unicode-", "to-unicode-Adobe-", "to-unicode-X-"]
    recipe["outdir"] = draw(st.sampled_from(["abs", "abs", "abs", "abs", "rel", "rel", "new", "linkdotdot"]))
    recipe["cmap_sub"] = draw(st.sampled_from(["", "", "", "deep/er/still"]))
    recipe["cmap_env"] = draw(st.sampled_from(["set", "set", "set", "unset"]))
    # several items may ask for the same pre-populated name: keep the first
    seen, out = set(), []
    for nm, content in recipe["out"]:
        if nm not in seen:
            seen.add(nm)
            out.append([nm, content])
    recipe["out"] = out
    seen, outside = set(), []
    for nm, content in recipe["outside"]:
        if nm not in seen:
            seen.add(nm)
            outside.append([nm, content])
    recipe["outside"] = outside
    api = {"output_type": draw(st.sampled_from(["text", "text", "xml", "html"])), "la": draw(st.booleans())}
    return {"items": items, "pages": draw(st.sampled_from([1, 1, 2])), "recipe": recipe, "api": api}


def plan(tier):
    q = tier == "quick"
    n = 250 if q else 3000
    specs = [{"focus": "cmap", "n": n} for _ in range(6)]
    specs += [{"focus": "image", "n": n} for _ in range(6)]
    specs += [{"focus": "mixed", "n": n} for _ in range(4)]
    return specs


def run_shard(spec, ctx):
    _prewarm()
    return hyp_search(ctx, cases(spec["focus"]), run_case, spec["n"])
