"""C05 — text model: each glyph gets the position, advance and state PDF assigns."""
import functools
from fractions import Fraction as Fr

from hypothesis import strategies as st

from vlib import interp
from vlib import pdfwrite as W
from vlib import runner
from vlib import textmodel as TM
from vlib.runner import Outcome, hyp_search

ID = "C05"
LEVEL = "exploration"
RULE = ("Hypothesis builds operator programs structure-first (properly nested q/Q with cm and colour operators, text "
        "objects that normally start with Tf, positioning Td/TD/Tm/T*, showing Tj/TJ/'/\", Tc/Tw/Tz/TL/Ts, form "
        "XObjects with own /Matrix and own or inherited /Resources nested <= 2, optionally one broken operator "
        "(missing or ill-typed operands) followed by a resynchronising operator) over 3 simple fonts with distinct "
        "width tables; operands dyadic (exact regime) or decimals; contents as one stream or split into 2-5 streams at "
        "white space (also inside TJ arrays).  Oracle: reference interpreter over Fractions (vlib/textmodel.py, ISO "
        "32000-1 9.3-9.4): per glyph LTChar.matrix (6 numbers), adv, fontname, text, graphicstate.ncolor and bbox "
        "(incl. rise) must match within 1e-6 relative.  Non-trivial = >=2 showing operators on one line with Tc!=0 or "
        "Tz!=100, or '/\"/T*/TD used, or glyphs after a form returns, or split contents, or q/Q around cm, or a broken "
        "operator; distinct by case encoding.")
ASSUMPTIONS = ["reference interpreter written from ISO 32000-1 9.3-9.4",
               "initial colour is reported as None by convention; LTChar.adv = w0*Tfs*Th"]

# /Widths covers FirstChar..LastChar; a code outside that range takes the descriptor's /MissingWidth, an explicit 0 inside it
# stays 0 (ISO 32000-1 9.6.2.1, Table 122)
FONTS = {
    "F1": {"name": "FntA", "widths": {32: 125, 65: 500, 66: 250, 67: 1000, 68: 0}, "first": 32, "last": 69, "missing": 375},
    "F2": {"name": "FntB", "widths": {32: 500, 65: 750, 66: 375, 67: 625, 68: 125}, "first": 32, "last": 69, "missing": 0},
    # code 32 lies outside the /Widths range of this font
    "F3": {"name": "FntC", "widths": {65: 1000, 66: 1000, 67: 250, 68: 875}, "first": 65, "last": 68, "missing": 625},
}
for _f in FONTS.values():
    for _c in range(_f["first"], _f["last"] + 1):
        _f["widths"].setdefault(_c, 0)
ALT = {"F1": FONTS["F2"], "F2": FONTS["F3"], "F3": FONTS["F1"]}  # a form's own /Resources may rebind the names


def font_obj(f):
    w = [f["widths"].get(c, 0) for c in range(f["first"], f["last"] + 1)]
    return W.D(Type=W.N("Font"), Subtype=W.N("Type1"), BaseFont=W.N(f["name"]), FirstChar=f["first"], LastChar=f["last"],
               Widths=w, Encoding=W.N("WinAnsiEncoding"),
               FontDescriptor=W.D(Type=W.N("FontDescriptor"), FontName=W.N(f["name"]), Flags=32,
                                  FontBBox=[0, 0, 1000, 1000], Ascent=800, Descent=0, MissingWidth=f["missing"]))


def num_val(v):
    if isinstance(v, int):
        return v
    v = Fr(v)
    return v.numerator if v.denominator == 1 else W.Real(TM.fnum(v))


def build_pdf(case):
    forms = case.get("forms", {})
    objs = {}
    fid = {"FntA": 10, "FntB": 11, "FntC": 12}
    for f in FONTS.values():
        objs[fid[f["name"]]] = font_obj(f)
    page_fonts = {k.encode(): W.R(fid[f["name"]]) for k, f in FONTS.items()}
    alt_fonts = {k.encode(): W.R(fid[f["name"]]) for k, f in ALT.items()}
    fobj = {}
    n = 20
    for name in forms:
        fobj[name] = n
        n += 1
    xobjs = {name.encode(): W.R(fobj[name]) for name in forms}
    for name, f in forms.items():
        d = W.D(Type=W.N("XObject"), Subtype=W.N("Form"), BBox=[-1000, -1000, 1000, 1000],
                Matrix=[num_val(v) for v in f["matrix"]])
        if f.get("own"):
            d[b"Resources"] = {b"Font": alt_fonts if f.get("alt") else page_fonts, b"XObject": xobjs}
        objs[fobj[name]] = W.Stream(d, TM.ser_prog(f["ops"]))
    res = {b"Font": page_fonts}
    if xobjs:
        res[b"XObject"] = xobjs
    atoms = TM.prog_atoms(case["prog"])
    cuts = sorted(set(c for c in case.get("cuts", []) if 0 < c < len(atoms)))
    if cuts:
        bounds = [0] + cuts + [len(atoms)]
        chunks = [b" ".join(atoms[bounds[i]:bounds[i + 1]]) for i in range(len(bounds) - 1)]
        # at least one white-space byte on one side of every cut: boundary j (between chunk j and j+1) gets a
        # trailing LF on chunk j when j is even, a leading SP on chunk j+1 when j is odd
        for j in range(len(chunks) - 1):
            if j % 2 == 0:
                chunks[j] = chunks[j] + b"\n"
            else:
                chunks[j + 1] = b" " + chunks[j + 1]
        contents_list = chunks
        content = None
    else:
        contents_list = None
        content = b" ".join(atoms)
    objs[1] = W.D(Type=W.N("Catalog"), Pages=W.R(2))
    objs[2] = W.D(Type=W.N("Pages"), Kids=[W.R(3)], Count=1)
    page = W.D(Type=W.N("Page"), Parent=W.R(2), MediaBox=[0, 0, 612, 792], Resources=res)
    if contents_list is not None:
        ids = []
        for i, c in enumerate(contents_list):
            objs[40 + i] = W.Stream({}, c)
            ids.append(W.R(40 + i))
        page[b"Contents"] = ids
    else:
        objs[4] = W.Stream({}, content)
        page[b"Contents"] = W.R(4)
    objs[3] = page
    return W.build_pdf(objs)


def model_fonts(case):
    return FONTS


def expected_chars(case, inherit=True):
    forms = {}
    for name, f in case.get("forms", {}).items():
        forms[name] = {"matrix": f["matrix"], "ops": f["ops"],
                       "fonts": (ALT if f.get("alt") else FONTS) if f.get("own") else None}
    m = TM.Model(FONTS, forms, inherit=inherit)
    items = m.run(case["prog"])
    return [it[1] for it in TM.flatten(items, "char")], m.flags


def _hull(m, rect):
    x0, y0, x1, y1 = rect
    cs = [TM.ap(m, p) for p in ((x0, y0), (x1, y0), (x1, y1), (x0, y1))]
    return (min(c[0] for c in cs), min(c[1] for c in cs), max(c[0] for c in cs), max(c[1] for c in cs))


def run_case(case):
    from pdfminer.layout import LTChar

    exp, flags = expected_chars(case, True)
    classes = sorted("f:" + f for f in flags)
    if case.get("cuts"):
        classes.append("split")
    if case.get("regime"):
        classes.append("regime:" + case["regime"])
    classes.append("glyphs:%s" % ("0" if not exp else "1-7" if len(exp) < 8 else "8+"))
    nt = bool(flags & {"second-show-with-Tc-or-Tz", "quote", "dquote", "T*", "TD", "bad-op"}) or bool(case.get("cuts")) \
        or ("form" in flags and bool(exp)) or "cm" in flags
    if "form" in flags:
        exp_fresh, _ = expected_chars(case, False)
        if exp_fresh != exp:
            classes.append("form-inherits-state")
            if "form-inherits-state" in runner.ACTIVE_KNOWN:
                return Outcome(classes, known="form-inherits-state")
    pdf = build_pdf(case)
    try:
        (page,) = interp.pages(pdf)
        got = [c for c in interp.leaves(page) if isinstance(c, LTChar)]
    except Exception as e:
        return Outcome(classes, nt, fail="interpreter raised %s: %s; content=%r" % (
            type(e).__name__, e, TM.ser_prog(case["prog"])[:400]))
    desc = lambda: "content=%r forms=%r cuts=%r" % (  # noqa: E731
        TM.ser_prog(case["prog"])[:600], {k: (v["matrix"], TM.ser_prog(v["ops"])[:200], v.get("own"), v.get("alt"))
                                           for k, v in case.get("forms", {}).items()}, case.get("cuts"))
    if len(got) != len(exp):
        return Outcome(classes, nt, fail="glyph count %d, expected %d; %s" % (len(got), len(exp), desc()))
    for i, (g, e) in enumerate(zip(got, exp)):
        if g.get_text() != chr(e["code"]):
            return Outcome(classes, nt, fail="glyph %d text %r expected %r; %s" % (i, g.get_text(), chr(e["code"]), desc()))
        em = [float(v) for v in e["matrix"]]
        if not all(interp.close(a, b) for a, b in zip(g.matrix, em)):
            return Outcome(classes, nt, fail="glyph %d (%r) matrix %r expected %r; %s" % (i, chr(e["code"]), g.matrix, em, desc()))
        if not interp.close(g.adv, float(e["adv"])):
            return Outcome(classes, nt, fail="glyph %d adv %r expected %r; %s" % (i, g.adv, float(e["adv"]), desc()))
        if g.fontname != e["font"]:
            return Outcome(classes, nt, fail="glyph %d font %r expected %r; %s" % (i, g.fontname, e["font"], desc()))
        if g.graphicstate.ncolor != interp.fl(e["ncolor"]):
            return Outcome(classes, nt, fail="glyph %d fill colour %r expected %r; %s" % (
                i, g.graphicstate.ncolor, interp.fl(e["ncolor"]), desc()))
        hb = _hull(e["matrix"], (0, e["rise"], e["adv"], e["rise"] + e["fs"]))
        if not all(interp.close(a, float(b)) for a, b in zip(g.bbox, hb)):
            return Outcome(classes, nt, fail="glyph %d bbox %r expected %r; %s" % (i, g.bbox, [float(v) for v in hb], desc()))
    return Outcome(classes, nt, sample={"content": TM.ser_prog(case["prog"])[:300], "glyphs": len(exp),
                                        "cuts": case.get("cuts"), "forms": sorted(case.get("forms", {}))})


# ---------------------------------------------------------------------------------------------- generators
@functools.lru_cache(maxsize=None)
def nums(regime):
    if regime == "exact":
        small = st.integers(-64, 64).map(lambda k: Fr(k, 4))
        pos = st.integers(0, 800).map(lambda k: Fr(k, 2))
        scal = st.sampled_from([Fr(1), Fr(2), Fr(1, 2), Fr(-1), Fr(0), Fr(3, 2)])
        off = st.sampled_from([Fr(0), Fr(1), Fr(-1, 2), Fr(1, 2), Fr(-1)])
        size = st.sampled_from([Fr(8), Fr(10), Fr(12), Fr(1, 2), Fr(16), Fr(1)])
        tc = st.sampled_from([Fr(0), Fr(1), Fr(-1, 2), Fr(3), Fr(1, 4)])
        tz = st.sampled_from([Fr(100), Fr(50), Fr(200), Fr(25), Fr(100)])
        tj = st.integers(-40, 40).map(lambda k: Fr(k * 25))
        col = st.sampled_from([Fr(0), Fr(1, 2), Fr(1), Fr(1, 4)])
    else:
        small = st.integers(-6400, 6400).map(lambda k: Fr(k, 100))
        pos = st.integers(0, 40000).map(lambda k: Fr(k, 100))
        scal = st.integers(-300, 300).map(lambda k: Fr(k, 100))
        off = st.integers(-100, 100).map(lambda k: Fr(k, 100))
        size = st.integers(1, 3000).map(lambda k: Fr(k, 100))
        tc = st.integers(-300, 300).map(lambda k: Fr(k, 100))
        tz = st.integers(1, 300).map(lambda k: Fr(k))
        tj = st.integers(-2000, 2000).map(lambda k: Fr(k, 10))
        col = st.integers(0, 100).map(lambda k: Fr(k, 100))
    mat = st.tuples(scal, off, off, scal, pos, pos)
    N = dict(small=small, pos=pos, mat=mat, size=size, tc=tc, tz=tz, tj=tj, col=col)
    N["colour_n"] = _colour_op(N, False)
    N["colour_s"] = _colour_op(N, True)
    N["tf"] = st.tuples(st.just("Tf"), st.sampled_from(["F1", "F2", "F3"]), size)
    tjitem = st.one_of(TXT, TXT, tj)
    N["textop"] = st.one_of(
        N["tf"],
        st.tuples(st.just("Tc"), tc), st.tuples(st.just("Tw"), tc), st.tuples(st.just("Tz"), tz),
        st.tuples(st.just("TL"), small), st.tuples(st.just("Ts"), tc),
        st.tuples(st.just("Td"), small, small), st.tuples(st.just("TD"), small, small),
        # TD with ty = 0 sets the leading to 0 like any other value (tx ty TD = -ty TL tx ty Td)
        st.tuples(st.just("TD"), small, st.just(Fr(0))), st.tuples(st.just("T*")),
        st.tuples(st.just("Tm"), mat), st.tuples(st.just("T*")),
        st.tuples(st.just("Tj"), TXT), st.tuples(st.just("Tj"), TXT), st.tuples(st.just("Tj"), TXT),
        st.tuples(st.just("TJ"), st.lists(tjitem, min_size=1, max_size=4)),
        st.tuples(st.just("TJ"), st.lists(tjitem, min_size=1, max_size=4)),
        st.tuples(st.just("'"), TXT), st.tuples(st.just('"'), tc, tc, TXT),
        N["colour_n"], N["colour_s"],
    )
    N["textbody"] = st.lists(N["textop"], min_size=1, max_size=10)
    return N


TXT = st.lists(st.sampled_from([65, 66, 32, 67, 68]), min_size=1, max_size=4).map(bytes)
BADOPERAND = st.sampled_from([b"/Nm", b"[1 2]", b"<< /A 1 >>", b"(xy)"])


def colour_op(N, stroking=False):
    return N["colour_s"] if stroking else N["colour_n"]


def _colour_op(N, stroking=False):
    ks = ("G", "RG", "K") if stroking else ("g", "rg", "k")
    c = N["col"]
    return st.one_of(st.tuples(st.just(ks[0]), c), st.tuples(st.just(ks[1]), c, c, c), st.tuples(st.just(ks[2]), c, c, c, c))


@st.composite
def text_object(draw, N, allow_bad):
    ops = []
    if draw(st.integers(0, 9)) > 0:
        ops.append(draw(N["tf"]))
    body = list(draw(N["textbody"]))
    if draw(st.integers(0, 2)) == 0:
        # the same operator with the same operands once more later in the text object (an identical Tm still resets
        # the line matrix, an identical Tf/Tc/... is harmless), and the identity Tm that equals the matrix BT sets
        i = draw(st.integers(0, len(body) - 1))
        again = body[i] if draw(st.integers(0, 3)) else ("Tm", TM.I6)
        body.insert(draw(st.integers(i + 1, len(body))), again)
    nbad = draw(st.sampled_from([0, 0, 0, 1, 1, 2])) if allow_bad else 0
    for _bad in range(nbad):
        pos = draw(st.integers(0, len(body)))
        kind = draw(st.sampled_from(["Td", "Tc", "Tw", "Tz", "TL", "Ts", "Tm", "rg", "Tj", "TD", "g", "k", "G"]))
        missing = draw(st.booleans())
        bo = draw(BADOPERAND)
        extra = []
        if kind in ("Td", "TD"):
            bad = [b"5", kind.encode()] if missing else [bo, b"3", kind.encode()]
            resync = ("Tm", draw(N["mat"]))
            if kind == "TD":
                extra = [("TL", draw(N["small"]))]  # TD owns the leading as well as the line matrix
        elif kind == "Tm":
            bad = [b"1", b"0", b"0", kind.encode()] if missing else [b"1", b"0", bo, b"1", b"0", b"0", b"Tm"]
            resync = ("Tm", draw(N["mat"]))
        elif kind == "rg":
            bad = [b"0.5", b"rg"] if missing else [b"0.5", bo, b"1", b"rg"]
            resync = ("rg", draw(N["col"]), draw(N["col"]), draw(N["col"]))
        elif kind in ("g", "G"):
            # affects nothing: neither the colour nor the current colour space (a later sc/SC keeps its operand count)
            bad = [kind.encode()] if missing else [bo, kind.encode()]
            resync = None
        elif kind == "k":
            bad = [b"0.1", b"0.2", b"k"] if missing else [b"0.1", bo, b"0.3", b"0.4", b"k"]
            resync = None
        elif kind == "Tj":
            bad = [b"Tj"] if missing else [b"/Nm", b"Tj"]
            resync = None
        else:
            bad = [kind.encode()] if missing else [bo if bo != b"(xy)" else b"/Q", kind.encode()]
            v = draw(N["tz"] if kind == "Tz" else N["tc"])
            resync = (kind, v)
        if missing:
            # an operator short of operands is skipped altogether (it only consumes what is there): nothing to
            # re-establish, and whatever it left behind must not leak into a later short operator
            ins = [("bad", bad)]
        else:
            ins = [("bad", bad)] + ([resync] if resync else []) + extra
        body[pos:pos] = ins
    return ("BT", ops + body)


NCOMP = {"g": 1, "rg": 3, "k": 4}


def _track(cs, ops):
    """cs = [non-stroking, stroking] component counts of the current colour spaces after `ops`."""
    for o in ops:
        if o[0] == "BT":
            _track(cs, o[1])
        elif isinstance(o[0], str) and o[0].lower() in NCOMP and o[0] != "bad":
            cs[0 if o[0].islower() else 1] = NCOMP[o[0].lower()]


@st.composite
def block(draw, N, depth, forms, allow_bad, form_names, cs=None):
    """cs: component counts of the current colour spaces (part of the graphics state: saved by q, restored by Q,
    inherited by a form XObject, restored after it); None = not tracked."""
    out = []
    cs = list(cs) if cs is not None else [None, None]
    n = draw(st.integers(1, 5))
    for _ in range(n):
        k = draw(st.integers(0, 10))
        if k <= 3:
            out.append(draw(text_object(N, allow_bad)))
            _track(cs, out[-1:])
            if allow_bad and cs[0] is not None and any(
                    o[0] == "bad" and o[1][-1:] in ([b"g"], [b"k"], [b"rg"]) for o in out[-1][1]):
                # a broken colour operator is followed by a colour set in the (unchanged) current colour space and by text
                vals = tuple(draw(N["col"]) for _ in range(cs[0]))
                out.append(("sc", vals, draw(st.sampled_from(["sc", "scn"]))))
                out.append(("BT", [draw(N["tf"]), ("Tj", draw(TXT))]))
        elif k == 4:
            out.append(("cm", draw(N["mat"])))
        elif k == 5:
            out.append(draw(colour_op(N, draw(st.booleans()))))
            _track(cs, out[-1:])
        elif k in (6, 7) and depth < 2:
            out.append(("q",))
            out.extend(draw(block(N, depth + 1, forms, allow_bad, form_names, cs)))
            out.append(("Q",))
        elif k == 8 and form_names:
            name = draw(st.sampled_from(form_names))
            need = forms[name].get("need")
            if need is not None:
                # the form sets colours in the colour spaces it inherits (ISO 32000-1 8.10.1): the caller
                # establishes them first
                for i in (0, 1):
                    if cs[i] != need[i]:
                        op = {1: "g", 3: "rg", 4: "k"}[need[i]]
                        out.append((op.upper() if i else op,) + tuple(draw(N["col"]) for _ in range(need[i])))
                        cs[i] = need[i]
            out.append(("Do", name))
        elif k == 9 and allow_bad and draw(st.booleans()):
            # broken cm wrapped in q .. Q
            out.extend([("q",), ("bad", [b"1", b"0", b"/X", b"1", b"0", b"0", b"cm"]), ("Q",)])
        elif k == 10 and cs[0] is not None and cs[1] is not None:
            # colour set in the current colour space, whichever operator established it
            stroking = draw(st.integers(0, 3)) == 0
            vals = tuple(draw(N["col"]) for _ in range(cs[1 if stroking else 0]))
            nm = draw(st.sampled_from(["sc", "scn"]))
            out.append(("SC" if stroking else "sc", vals, nm.upper() if stroking else nm))
        else:
            out.append(draw(text_object(N, allow_bad)))
            _track(cs, out[-1:])
    return out


@st.composite
def cases(draw, max_forms=2):
    regime = draw(st.sampled_from(["exact", "exact", "decimal"]))
    N = nums(regime)
    allow_bad = draw(st.integers(0, 3)) == 0
    nforms = draw(st.integers(0, max_forms))
    forms = {}
    names = []
    # forms are defined innermost first so that a form may only invoke earlier (deeper) ones: no recursion
    for i in range(nforms):
        name = "X%d" % i
        own = draw(st.booleans())
        alt = own and draw(st.booleans())
        # A form without /Resources uses the page's resources (ISO) / its caller's (pdfminer); both coincide as
        # long as it is never invoked from a form whose own /Resources rebind the font names.
        callable_names = [nm for nm in names if forms[nm].get("own")] if alt else list(names)
        # component counts of the (non-stroking, stroking) colour spaces the form relies on inheriting, or None
        need = draw(st.sampled_from([None, None, (1, 3), (3, 1), (3, 4), (4, 1), (1, 1), (4, 3)]))
        ops = draw(block(N, 1, forms, False, callable_names, need))
        if need is None and draw(st.booleans()):
            # self-contained start: the form sets what it uses, so it does not depend on inherited state
            ops = [draw(colour_op(N))] + ops
        forms[name] = {"matrix": draw(st.one_of(st.just(TM.I6), N["mat"])), "ops": ops, "own": own, "alt": alt,
                       "need": need}
        names.append(name)
    prog = draw(block(N, 0, forms, allow_bad, names, [1, 1]))
    natoms = len(TM.prog_atoms(prog))
    cuts = []
    if draw(st.integers(0, 2)) == 0 and natoms > 2:
        cuts = sorted(set(draw(st.lists(st.integers(1, natoms - 1), min_size=1, max_size=4))))
    return {"prog": prog, "forms": forms, "cuts": cuts, "regime": regime}


def plan(tier):
    q = tier == "quick"
    return [{"n": 450 if q else 5000} for _ in range(16)]


def run_shard(spec, ctx):
    return hyp_search(ctx, cases(), run_case, spec["n"])
