"""C16 — painted paths become shapes with the right points, class and graphics state."""
import functools
from fractions import Fraction as Fr

from hypothesis import strategies as st

from vlib import interp
from vlib import pdfwrite as W
from vlib import runner
from vlib import textmodel as TM
from vlib.runner import Outcome, hyp_search

ID = "C16"
LEVEL = "exploration"
RULE = ("Hypothesis builds programs over m l c v y h re / S s f f* B B* b b* n / w d / g G rg RG k K / cs CS each "
        "immediately followed by a matching sc scn SC SCN (DeviceGray/RGB/CMYK and ICCBased N=1/3/4 via resources) / "
        "properly nested q Q cm, with dyadic operands (exact regime), CTMs incl. 90-degree rotations, reflections, "
        "shears and non-uniform scales, several subpaths per painted path (free segments, re, rectangles drawn with "
        "lines in both orientations, explicit return to start, h), shapes inside and after form XObjects.  Oracle: "
        "reference path/graphics-state interpreter (vlib/textmodel.py): per painted subpath one LTLine/LTRect/LTCurve "
        "with class, pts (exact), bbox, stroke/fill/evenodd, linewidth, dashing_style, stroking and non-stroking "
        "colour and original_path (all control points transformed) as in force at painting time.  Non-trivial = >=2 "
        "subpaths in one painted path, or a non-identity CTM, or q/Q with a state change inside, or a path abandoned "
        "with n before a painted one; distinct by case encoding.")
ASSUMPTIONS = ["every subpath starts with m or re and has >= 1 segment; F, W, W*, Pattern colour spaces not generated",
               "exact regime: all products/sums are exactly representable in binary64"]

# resource name -> number of colour components (ISO 32000-1 8.6): ICCBased /N; DeviceN = number of colorant names,
# whatever its alternate space has; Separation and Indexed 1; Lab and CalRGB 3; CalGray 1
CSPACES = {"DeviceGray": 1, "DeviceRGB": 3, "DeviceCMYK": 4, "CS1": 1, "CS3": 3, "CS4": 4,
           "DN3": 3, "DN1": 1, "DN4": 4, "Sep": 1, "Idx": 1, "Lab": 3, "CRGB": 3, "CGray": 1}


# a form with /Resources of its own may bind the same colour space names differently (here: other component counts)
ALT_CSPACES = dict(CSPACES, CS1=3, CS3=4, CS4=1)


def build_pdf(case):
    forms = case.get("forms", {})
    objs = {}
    for i, n in ((30, 1), (31, 3), (32, 4)):
        objs[i] = W.Stream(W.D(N=n), b"\x00" * 8)
    cs = {b"CS1": [W.N("ICCBased"), W.R(30)], b"CS3": [W.N("ICCBased"), W.R(31)], b"CS4": [W.N("ICCBased"), W.R(32)]}
    # a sampled tint transform is not needed for the colour *operands*; type 2 (exponential) functions stand in
    objs[33] = W.D(FunctionType=2, Domain=[0, 1], C0=[0, 0, 0, 0], C1=[1, 1, 1, 1], N=1)
    cs.update({
        b"DN3": [W.N("DeviceN"), [W.N("A"), W.N("B"), W.N("C")], W.N("DeviceCMYK"), W.R(33)],
        b"DN1": [W.N("DeviceN"), [W.N("Spot")], W.N("DeviceRGB"), W.R(33)],
        b"DN4": [W.N("DeviceN"), [W.N("A"), W.N("B"), W.N("C"), W.N("D")], W.N("DeviceGray"), W.R(33)],
        b"Sep": [W.N("Separation"), W.N("Spot"), W.N("DeviceCMYK"), W.R(33)],
        b"Idx": [W.N("Indexed"), W.N("DeviceRGB"), 1, b"\x00\x00\x00\xff\xff\xff"],
        b"Lab": [W.N("Lab"), W.D(WhitePoint=[W.Real("0.9505"), 1, W.Real("1.089")])],
        b"CRGB": [W.N("CalRGB"), W.D(WhitePoint=[W.Real("0.9505"), 1, W.Real("1.089")])],
        b"CGray": [W.N("CalGray"), W.D(WhitePoint=[W.Real("0.9505"), 1, W.Real("1.089")])],
    })
    fobj = {name: 20 + i for i, name in enumerate(forms)}
    xobjs = {name.encode(): W.R(fobj[name]) for name in forms}
    res = {b"ColorSpace": cs}
    if xobjs:
        res[b"XObject"] = xobjs
    for name, f in forms.items():
        d = W.D(Type=W.N("XObject"), Subtype=W.N("Form"), BBox=list(FORM_BBOX0) if f.get("bbox0") else [-1000, -1000, 1000, 1000],
                Matrix=[_nv(v) for v in f["matrix"]])
        if f.get("alt"):
            alt = dict(res)
            alt[b"ColorSpace"] = {**cs, b"CS1": [W.N("ICCBased"), W.R(31)], b"CS3": [W.N("ICCBased"), W.R(32)],
                                  b"CS4": [W.N("ICCBased"), W.R(30)]}
            d[b"Resources"] = alt
        elif f.get("own"):
            d[b"Resources"] = res
        ops = f["ops"]
        if f.get("rebind"):
            # the form's own resources bind its *own* name to the (other) form it invokes: producers number the
            # resources of every stream from zero, so an inner /Fm0 that is not the outer /Fm0 is common
            targets = {o[1] for o in ops if o[0] == "Do"}
            if len(targets) == 1 and name not in targets:
                own_res = dict(res)
                own_res[b"XObject"] = {name.encode(): W.R(fobj[targets.pop()])}
                d[b"Resources"] = own_res
                ops = [("Do", name) if o[0] == "Do" else o for o in ops]
        objs[fobj[name]] = W.Stream(d, TM.ser_prog(ops))
    objs[1] = W.D(Type=W.N("Catalog"), Pages=W.R(2))
    objs[2] = W.D(Type=W.N("Pages"), Kids=[W.R(3)], Count=1)
    objs[4] = W.Stream({}, TM.ser_prog(case["prog"]))
    objs[3] = W.D(Type=W.N("Page"), Parent=W.R(2), MediaBox=[0, 0, 612, 792], Resources=res, Contents=W.R(4))
    if case.get("prepage") is not None:
        # an earlier page that ends with other colour spaces, colours, line width and dash pattern current and with
        # saved states open: every page starts from the initial graphics state (ISO 32000-1 8.4.1)
        objs[6] = W.Stream({}, PREPAGES[case["prepage"]])
        objs[5] = W.D(Type=W.N("Page"), Parent=W.R(2), MediaBox=[0, 0, 612, 792], Resources=res, Contents=W.R(6))
        objs[2] = W.D(Type=W.N("Pages"), Kids=[W.R(5), W.R(3)], Count=2)
    return W.build_pdf(objs)


PREPAGES = [b"/DeviceRGB cs 1 0 0 sc /DeviceCMYK CS 0 0 0 1 SC 3 w [2 1] 0 d 10 10 m 50 50 l S",
            b"0 0 0 1 k 1 0 0 RG q q 7 w 0 0 10 10 re B",
            b"/CS3 cs 0.1 0.2 0.3 sc /CS4 CS 0.1 0.2 0.3 0.4 SC q 2 0 0 2 5 5 cm 0 0 m 9 9 l",
            b"/Sep cs 0.5 scn /DN3 CS 0.1 0.2 0.3 SCN 1 J 2 j 10 10 m"]


FORM_BBOX0 = (0, 0, 900, 700)


def _nv(v):
    v = Fr(v)
    return v.numerator if v.denominator == 1 else W.Real(TM.fnum(v))


def expected_shapes(case, inherit=True, figs=None):
    forms = {name: {"matrix": f["matrix"], "ops": f["ops"]} for name, f in case.get("forms", {}).items()}
    m = TM.Model({}, forms, inherit=inherit)
    items = m.run(case["prog"])
    if figs is not None:
        figs.extend(TM.figures(items))
    return [it[1] for it in TM.flatten(items, "shape")], m.flags


def _pt(p):
    return (float(p[0]), float(p[1]))


def run_case(case):
    from pdfminer.layout import LTCurve, LTLine, LTRect

    figs = []
    exp, flags = expected_shapes(case, True, figs)
    classes = sorted("f:" + f for f in flags) + ["shapes:%s" % ("0" if not exp else "1-3" if len(exp) < 4 else "4+")]
    for e in exp:
        classes.append("cls:" + e["cls"])
    classes = sorted(set(classes))
    nt = bool(flags & {"multi-subpath", "shape-under-ctm", "path-abandoned"}) and bool(exp)
    if "form" in flags:
        fresh, _ = expected_shapes(case, False)
        if fresh != exp:
            classes.append("form-inherits-state")
            if "form-inherits-state" in runner.ACTIVE_KNOWN:
                return Outcome(classes, known="form-inherits-state")
    pdf = build_pdf(case)
    desc = lambda: "content=%r forms=%r" % (  # noqa: E731
        TM.ser_prog(case["prog"])[:700], {k: (v["matrix"], TM.ser_prog(v["ops"])[:200]) for k, v in case.get("forms", {}).items()})
    try:
        page = interp.pages(pdf)[-1]
        got = [c for c in interp.leaves(page) if isinstance(c, LTCurve)]
    except Exception as e:
        return Outcome(classes, nt, fail="interpreter raised %s: %s; %s" % (type(e).__name__, e, desc()))
    if len(got) != len(exp):
        return Outcome(classes, nt, fail="%d shapes, expected %d; %s" % (len(got), len(exp), desc()))
    # ---- the figure of every form invocation: its box is the form's BBox under (form matrix x CTM at the Do).  Only
    # asserted for forms whose BBox starts at the origin (for others LTFigure reads [x0 y0 x1 y1] as x y w h)
    from pdfminer.layout import LTFigure

    def lfigs(item, acc):
        for c in item:
            if isinstance(c, LTFigure):
                acc.append(c)
                lfigs(c, acc)
        return acc

    gfigs = lfigs(page, [])
    if len(gfigs) != len(figs):
        return Outcome(classes, nt, fail="%d figures, expected %d; %s" % (len(gfigs), len(figs), desc()))
    for i, (g, f) in enumerate(zip(gfigs, figs)):
        if not case["forms"][f[1]].get("bbox0"):
            continue
        m = f[3]
        xs, ys = [], []
        for (x, y) in ((FORM_BBOX0[0], FORM_BBOX0[1]), (FORM_BBOX0[2], FORM_BBOX0[1]), (FORM_BBOX0[0], FORM_BBOX0[3]), (FORM_BBOX0[2], FORM_BBOX0[3])):
            xs.append(m[0] * x + m[2] * y + m[4])
            ys.append(m[1] * x + m[3] * y + m[5])
        ebox = (float(min(xs)), float(min(ys)), float(max(xs)), float(max(ys)))
        if any(abs(a - b) > 1e-6 * max(1.0, abs(b)) for a, b in zip(g.bbox, ebox)):
            return Outcome(classes + ["figure-box"], True, fail="figure %d (form %s): box %r, expected %r = BBox %r under %r; %s" % (
                i, f[1], tuple(g.bbox), ebox, FORM_BBOX0, tuple(float(v) for v in m), desc()))
        classes = classes + ["figure-box"]
    for i, (g, e) in enumerate(zip(got, exp)):
        gk = "line" if isinstance(g, LTLine) else "rect" if isinstance(g, LTRect) else "curve"
        if gk != e["cls"]:
            return Outcome(classes, nt, fail="shape %d is a %s, expected %s (pts %r); %s" % (i, gk, e["cls"], g.pts, desc()))
        epts = [_pt(p) for p in e["pts"]]
        gpts = [tuple(p) for p in g.pts]
        if e["cls"] == "rect":
            ok = sorted(set(gpts)) == sorted(set(epts[:4]))
        else:
            ok = gpts == epts
        if not ok:
            return Outcome(classes, nt, fail="shape %d (%s) pts %r expected %r; %s" % (i, gk, gpts, epts, desc()))
        xs = [p[0] for p in epts]
        ys = [p[1] for p in epts]
        if tuple(g.bbox) != (min(xs), min(ys), max(xs), max(ys)):
            return Outcome(classes, nt, fail="shape %d bbox %r expected hull of %r; %s" % (i, g.bbox, epts, desc()))
        if (g.stroke, g.fill, g.evenodd) != (e["stroke"], e["fill"], e["evenodd"]):
            return Outcome(classes, nt, fail="shape %d flags stroke/fill/evenodd %r expected %r; %s" % (
                i, (g.stroke, g.fill, g.evenodd), (e["stroke"], e["fill"], e["evenodd"]), desc()))
        if g.linewidth != float(e["lw"]):
            return Outcome(classes, nt, fail="shape %d linewidth %r expected %r; %s" % (i, g.linewidth, float(e["lw"]), desc()))
        ed = None if e["dash"] is None else (list(e["dash"][0]), e["dash"][1])
        gd = g.dashing_style if g.dashing_style is None else (list(g.dashing_style[0]), g.dashing_style[1])
        if gd != ed:
            return Outcome(classes, nt, fail="shape %d dashing_style %r expected %r; %s" % (i, g.dashing_style, ed, desc()))
        if g.stroking_color != interp.fl(e["scolor"]) or g.non_stroking_color != interp.fl(e["ncolor"]):
            return Outcome(classes, nt, fail="shape %d colours stroking %r / non-stroking %r expected %r / %r; %s" % (
                i, g.stroking_color, g.non_stroking_color, interp.fl(e["scolor"]), interp.fl(e["ncolor"]), desc()))
        eop = [(s[0],) + tuple(_pt(p) for p in s[1:]) for s in e["opath"]]
        gop = [(s[0],) + tuple(tuple(p) for p in s[1:]) for s in (g.original_path or [])]
        if gop != eop:
            return Outcome(classes, nt, fail="shape %d original_path %r expected %r; %s" % (i, gop, eop, desc()))
    return Outcome(classes, nt, sample={"content": TM.ser_prog(case["prog"])[:300], "shapes": [e["cls"] for e in exp]})


# ---------------------------------------------------------------------------------------------- generators
C = st.integers(-40, 160).map(lambda k: Fr(k, 2))
P = st.tuples(C, C)
SC = st.sampled_from([Fr(1), Fr(2), Fr(1, 2), Fr(-1), Fr(0), Fr(3, 2)])
OFF = st.sampled_from([Fr(0), Fr(1), Fr(-1), Fr(1, 2), Fr(-1, 2)])
MAT = st.one_of(
    st.tuples(SC, OFF, OFF, SC, C, C),
    st.sampled_from([(Fr(0), Fr(1), Fr(-1), Fr(0)), (Fr(0), Fr(-1), Fr(1), Fr(0)), (Fr(-1), Fr(0), Fr(0), Fr(1)),
                     (Fr(1), Fr(0), Fr(0), Fr(-1)), (Fr(2), Fr(0), Fr(0), Fr(1, 2)), (Fr(1), Fr(0), Fr(0), Fr(1))]).flatmap(
        lambda m: st.tuples(st.just(m[0]), st.just(m[1]), st.just(m[2]), st.just(m[3]), C, C)),
)
COL = st.sampled_from([Fr(0), Fr(1, 2), Fr(1), Fr(1, 4)])
SEG = st.one_of(
    st.tuples(st.just("l"), C, C), st.tuples(st.just("l"), C, C), st.tuples(st.just("c"), C, C, C, C, C, C),
    st.tuples(st.just("v"), C, C, C, C), st.tuples(st.just("y"), C, C, C, C))


@st.composite
def subpath(draw):
    kind = draw(st.sampled_from(["free", "free", "re", "rectlines", "rectlines-v", "backtostart", "oneline"]))
    if kind == "re":
        return [("re", draw(C), draw(C), draw(C), draw(C))]
    x, y = draw(P)
    if kind in ("rectlines", "rectlines-v"):
        w, h = draw(C), draw(C)
        pts = [(x + w, y), (x + w, y + h), (x, y + h)] if kind == "rectlines" else [(x, y + h), (x + w, y + h), (x + w, y)]
        out = [("m", x, y)] + [("l", a, b) for a, b in pts]
        end = draw(st.sampled_from(["h", "lh", "l", "none"]))
        if end in ("lh", "l"):
            out.append(("l", x, y))
        if end in ("h", "lh"):
            out.append(("h",))
        return out
    if kind == "oneline":
        out = [("m", x, y), ("l", draw(C), draw(C))]
        if draw(st.booleans()):
            out.append(("h",))
        return out
    segs = draw(st.lists(SEG, min_size=1, max_size=4))
    out = [("m", x, y)] + segs
    if kind == "backtostart":
        out.append(("l", x, y))
    if draw(st.booleans()):
        out.append(("h",))
    return out


PAINT = st.sampled_from(["S", "s", "f", "f*", "B", "B*", "b", "b*", "n", "S", "f"])


@st.composite
def colour(draw, cspaces=None):
    cspaces = cspaces or CSPACES
    k = draw(st.integers(0, 9))
    if k < 6:
        op = ["g", "G", "rg", "RG", "k", "K"][k]
        n = {"g": 1, "G": 1, "rg": 3, "RG": 3, "k": 4, "K": 4}[op]
        return (op,) + tuple(draw(COL) for _ in range(n))
    stroking = draw(st.booleans())
    name = draw(st.sampled_from(sorted(cspaces)))
    vals = tuple(draw(COL) for _ in range(cspaces[name]))
    setop = draw(st.sampled_from(["sc", "scn"]))
    return ("CS" if stroking else "cs", name, vals, setop.upper() if stroking else setop)


def _gsop(cspaces):
    return st.one_of(
        st.tuples(st.just("w"), st.sampled_from([Fr(0), Fr(1), Fr(5, 2), Fr(1, 4)])),
        st.tuples(st.just("d"), st.sampled_from([[], [3], [2, 1], [1, 2, 3]]), st.sampled_from([0, 1, 2])),
        colour(cspaces), colour(cspaces),
        st.tuples(st.just("cm"), MAT),
    )


GSOP = _gsop(CSPACES)
GSOP_ALT = _gsop(ALT_CSPACES)


@st.composite
def painted(draw):
    sps = draw(st.lists(subpath(), min_size=1, max_size=3))
    out = []
    for sp in sps:
        if draw(st.integers(0, 5)) == 0:
            # a moveto that the next moveto overrides: no vestige of it remains in the path (ISO 32000-1 Table 59)
            x, y = draw(P)
            out.append(("m", x, y))
        out.extend(sp)
    out.append((draw(PAINT),))
    return out


NCOMP = {"g": 1, "G": 1, "rg": 3, "RG": 3, "k": 4, "K": 4}


@st.composite
def block(draw, depth, form_names, cs=None, alt=False):
    """cs = [non-stroking, stroking] component counts of the current colour spaces as ISO 32000-1 defines them
    (part of the graphics state: saved by q, restored by Q); None = not known here (start of a form)."""
    out = []
    cs = list(cs) if cs is not None else [None, None]
    for _ in range(draw(st.integers(1, 6))):
        k = draw(st.integers(0, 11))
        if k <= 3:
            out.extend(draw(painted()))
        elif k <= 6:
            op = draw(GSOP_ALT if alt else GSOP)
            out.append(op)
            if op[0] in NCOMP:
                cs[0 if op[0].islower() else 1] = NCOMP[op[0]]
            elif op[0] in ("cs", "CS"):
                cs[0 if op[0] == "cs" else 1] = (ALT_CSPACES if alt else CSPACES)[op[1]]
        elif k <= 8 and depth < 2:
            out.append(("q",))
            out.extend(draw(block(depth + 1, form_names, cs, alt)))
            out.append(("Q",))
        elif k == 9 and form_names:
            name, need = draw(st.sampled_from(form_names))
            if need is not None:
                # the form sets colours in the colour spaces it inherits (ISO 32000-1 8.10.1): the caller establishes
                # them first, the two spaces independently of each other
                for i in (0, 1):
                    if cs[i] != need[i]:
                        op = {1: "g", 3: "rg", 4: "k"}[need[i]]
                        out.append((op.upper() if i else op,) + tuple(draw(COL) for _ in range(need[i])))
                        cs[i] = need[i]
            out.append(("Do", name))
        elif k == 11 and depth == 0 and cs[0] is not None and cs[1] is not None:
            # q/Q nested two deep with colour spaces of other component counts selected at each level; after every Q a
            # colour is set in the space that was current at the matching q, and something is painted
            def other(n):
                return draw(st.sampled_from([m for m in (1, 3, 4) if m != n]))

            def setcs(stroking, n):
                op = {1: "g", 3: "rg", 4: "k"}[n]
                return (op.upper() if stroking else op,) + tuple(draw(COL) for _ in range(n))

            def bare(stroking, n):
                name = draw(st.sampled_from(["sc", "scn"]))
                return ("SC" if stroking else "sc", tuple(draw(COL) for _ in range(n)), name.upper() if stroking else name)

            s = draw(st.booleans())
            n0 = cs[1 if s else 0]
            n1 = other(n0)
            n2 = other(n1)
            out.append(("q",))
            out.append(setcs(s, n1))
            out.append(("q",))
            out.append(setcs(s, n2))
            out.extend(draw(painted()))
            out.append(("Q",))
            out.append(bare(s, n1))
            out.extend(draw(painted()))
            out.append(("Q",))
            out.append(bare(s, n0))
            out.extend(draw(painted()))
        elif k == 10:
            # colour set in the *current* colour space, whichever operator established it (g/rg/k/cs, before or
            # after an enclosing q .. Q)
            stroking = draw(st.booleans())
            n = cs[1 if stroking else 0]
            if n is not None:
                vals = tuple(draw(COL) for _ in range(n))
                name = draw(st.sampled_from(["sc", "scn"]))
                out.append(("SC" if stroking else "sc", vals, name.upper() if stroking else name))
        else:
            out.extend(draw(painted()))
    return out


@st.composite
def cases(draw):
    forms = {}
    names = []
    for i in range(draw(st.integers(0, 2))):
        name = "X%d" % i
        # component counts of the (non-stroking, stroking) colour spaces the form relies on inheriting, or None
        need = draw(st.sampled_from([None, None, (1, 3), (3, 1), (3, 4), (4, 1), (1, 1), (4, 3)]))
        own = draw(st.booleans())
        alt = own and draw(st.booleans())
        # a form whose own resources rebind names only invokes forms that have resources of their own (a form without
        # /Resources falls back to the page's in ISO 32000-1 and to its caller's in pdfminer: the two coincide otherwise)
        callable_names = [(nm, nd) for nm, nd in names if forms[nm]["own"]] if alt else list(names)
        ops = draw(block(1, callable_names, need, alt))
        forms[name] = {"matrix": draw(st.one_of(st.just(TM.I6), MAT)), "ops": ops, "own": own, "alt": alt, "bbox0": draw(st.booleans()),
                       "rebind": own and not alt and draw(st.booleans())}
        names.append((name, need))
    pre = draw(st.sampled_from([None, None, 0, 1, 2, 3]))
    return {"prog": draw(block(0, names, [1, 1])), "forms": forms, "prepage": pre}


def plan(tier):
    q = tier == "quick"
    return [{"n": 400 if q else 5000} for _ in range(16)]


def run_shard(spec, ctx):
    return hyp_search(ctx, cases(), run_case, spec["n"])
