"""C03 — stream payloads and filter chains decode to exactly the original bytes."""
import io
import random

from hypothesis import strategies as st

from vlib import filters as F
from vlib import pdfwrite as W
from vlib.runner import Outcome, hyp_search

ID = "C03"
LEVEL = "exploration"
RULE = ("Hypothesis draws a payload (0-1 KiB quick / 4 KiB thorough, weighted with endstream/endobj/stream/EOL/NUL/~>/"
        "long runs; whole rows when a predictor is used), a chain of 0-3 filters from ASCIIHex/ASCII85/LZW/Flate/"
        "RunLength under full or abbreviated names, optional TIFF-2 or PNG 10-15 predictor (colors 1-4, columns 1-40, "
        "bits 8 or 1, per-row PNG filter 0-4) and a container (EOL after `stream`, EOL before `endstream`, direct or "
        "indirect Length/Filter/DecodeParms, Length object before/after, BUFSIZ); the harness's own encoders with "
        "free choices produce the stream.  Oracle: getobj(n).get_data() == payload; plus direct decoder/predictor "
        "round-trips incl. LZW payloads crossing all code widths and a table reset.  Non-trivial = chain >= 2, or "
        "predictor with colors>1 / bits=1 / first-row filter >= 2, or payload with delimiter keyword/EOL at a "
        "boundary, or indirect Length.  Distinct by file bytes.")
ASSUMPTIONS = ["harness encoders are validated at start-up against independent decoders (zlib, base64.a85decode, "
               "binascii, a textbook LZW decoder)", "white space inside ASCII filters limited to SP/HT/LF/CR"]


def selfcheck():
    F.selfcheck()
    F.selfcheck_lzw()


SPECIAL = [b"endstream", b"endobj", b"stream", b"\r", b"\n", b"\r\n", b"\x00", b"~>", b">", b"\nendstream\n",
           b"obj", b"1 0 obj", b"\x00" * 40, b"\xff" * 130, b"ab" * 20, b"trailer", b"%%EOF", b"z", b"\x00\x00\x00\x00"]


MARKER_BYTES = [0, 1, 127, 128, 129, 254, 255, 10, 13, 0x7a, 0x7e, 0x75, 0x21, 0x3e, 0x3c]


def payloads(max_size):
    return st.one_of(
        st.binary(max_size=max_size),
        st.lists(st.one_of(st.sampled_from(SPECIAL), st.binary(max_size=12)), max_size=30).map(
            lambda l: b"".join(l)[:max_size]),
        st.builds(lambda b, n: (b * n)[:max_size], st.binary(min_size=1, max_size=3), st.integers(1, 400)),
        # runs of single bytes, with the bytes that the codecs use as markers over-represented (RunLength EOD 128 and
        # the length bytes around it, ASCII85 z ~ u !, hex >, EOLs, 0 and 255)
        st.lists(st.tuples(st.one_of(st.sampled_from(MARKER_BYTES), st.integers(0, 255)),
                           st.sampled_from([1, 1, 2, 2, 3, 4, 5, 127, 128, 129, 130, 257])), max_size=12).map(
            lambda l: b"".join(bytes([b]) * n for b, n in l)[:max_size]),
    )


def _decode_direct(name, data):
    from pdfminer.ascii85 import ascii85decode, asciihexdecode
    from pdfminer.lzw import lzwdecode
    from pdfminer.runlength import rldecode
    import zlib

    return {"ASCIIHexDecode": asciihexdecode, "ASCII85Decode": ascii85decode, "LZWDecode": lzwdecode,
            "RunLengthDecode": rldecode, "FlateDecode": zlib.decompress}[name](data)


def run_case(case):
    from pdfminer.psparser import PSBaseParser

    mode = case["mode"]
    payload = case["payload"]
    classes = ["mode:" + mode] + list(case.get("classes", []))
    nt = bool(case.get("nt"))
    try:
        if mode == "direct":
            got = _decode_direct(case["filter"], case["encoded"])
        elif mode == "pred":
            from pdfminer.utils import apply_png_predictor, apply_tiff_predictor

            p = case["params"]
            if p["pred"] == 2:
                got = apply_tiff_predictor(p["colors"], p["columns"], p["bits"], case["encoded"])
            else:
                got = apply_png_predictor(p["pred"], p["colors"], p["columns"], p["bits"], case["encoded"])
        else:
            from pdfminer.pdfdocument import PDFDocument
            from pdfminer.pdfparser import PDFParser
            from pdfminer.pdftypes import PDFStream

            old = PSBaseParser.BUFSIZ
            PSBaseParser.BUFSIZ = case["bufsiz"]
            try:
                doc = PDFDocument(PDFParser(io.BytesIO(case["pdf"])))
                obj = doc.getobj(case["objid"])
                if not isinstance(obj, PDFStream):
                    return Outcome(classes, nt, fail="object %d is %r, not a stream; desc=%r" % (case["objid"], obj, case["desc"]))
                got = obj.get_data()
            finally:
                PSBaseParser.BUFSIZ = old
    except Exception as e:
        return Outcome(classes, nt, fail="raised %s: %s; desc=%r payload=%r" % (
            type(e).__name__, e, case.get("desc"), payload[:80]))
    if got != payload:
        i = next((k for k in range(min(len(got), len(payload))) if got[k] != payload[k]), min(len(got), len(payload)))
        return Outcome(classes, nt, fail="decoded %d bytes, expected %d; first difference at %d (%r vs %r); desc=%r" % (
            len(got), len(payload), i, got[i:i + 12], payload[i:i + 12], case.get("desc")))
    return Outcome(classes, nt, sample={"desc": case.get("desc"), "payload_len": len(payload)})


FNAMES = list(F.FILTERS)


@st.composite
def pred_params(draw, single_row_len=None):
    kind = draw(st.sampled_from(["tiff", "png", "png", "png"]))
    if single_row_len is not None:
        if kind == "tiff":
            return {"pred": 2, "colors": 1, "columns": single_row_len, "bits": 8, "rows": 1}
        return {"pred": draw(st.integers(10, 15)), "colors": 1, "columns": single_row_len, "bits": 8, "rows": 1,
                "row_filters": [draw(st.integers(0, 4))]}
    colors = draw(st.integers(1, 4))
    columns = draw(st.integers(1, 40))
    rows = draw(st.integers(1, 6))
    if kind == "tiff":
        return {"pred": 2, "colors": colors, "columns": columns, "bits": 8, "rows": rows}
    bits = draw(st.sampled_from([8, 8, 1]))
    rf = draw(st.lists(st.integers(0, 4), min_size=rows, max_size=rows))
    return {"pred": draw(st.integers(10, 15)), "colors": colors, "columns": columns, "bits": bits, "rows": rows,
            "row_filters": rf}


def _forward(p, data):
    if p["pred"] == 2:
        return F.tiff2_forward(data, p["colors"], p["columns"])
    return F.png_forward(data, p["colors"], p["columns"], p["bits"], p["row_filters"])


def _parms_dict(p, draw):
    d = {b"Predictor": p["pred"]}
    if p["colors"] != 1 or draw(st.booleans()):
        d[b"Colors"] = p["colors"]
    if p["columns"] != 1 or draw(st.booleans()):
        d[b"Columns"] = p["columns"]
    if p["bits"] != 8 or draw(st.booleans()):
        d[b"BitsPerComponent"] = p["bits"]
    return d


@st.composite
def doc_cases(draw, max_size):
    rnd = random.Random(draw(st.integers(0, 2 ** 32)))  # encoder free choices: pure function of a drawn seed
    chain = draw(st.lists(st.sampled_from(FNAMES), min_size=0, max_size=3))
    classes = ["chain%d" % len(chain)]
    nt = len(chain) >= 2
    # predictor on the innermost LZW/Flate entry (wraps the payload directly)
    preds = [None] * len(chain)
    p = None
    if chain and chain[-1] in ("LZWDecode", "FlateDecode") and draw(st.integers(0, 2)) > 0:
        p = draw(pred_params())
        preds[-1] = p
        nbytes = F.row_bytes(p["colors"], p["columns"], p["bits"]) * p["rows"]
        payload = draw(st.one_of(st.binary(min_size=nbytes, max_size=nbytes),
                                 st.builds(lambda a, b: bytes((a + (i * b)) & 255 for i in range(nbytes)),
                                           st.integers(0, 255), st.integers(0, 7))))
        classes.append("pred:%s" % ("tiff" if p["pred"] == 2 else "png-bits%d" % p["bits"]))
        if p["colors"] > 1 or p["bits"] == 1 or (p["pred"] >= 10 and p["row_filters"][0] >= 2):
            nt = True
            classes.append("pred-nt")
    else:
        payload = draw(payloads(max_size))
    data = payload
    for i in range(len(chain) - 1, -1, -1):
        name = chain[i]
        if preds[i] is None and i != len(chain) - 1 and name in ("LZWDecode", "FlateDecode") and 1 <= len(data) <= 2000 \
                and draw(st.integers(0, 4)) == 0:
            preds[i] = draw(pred_params(single_row_len=len(data)))
            classes.append("pred-outer")
        if preds[i] is not None:
            data = _forward(preds[i], data)
        data = F.FILTERS[name][0](data, rnd)
    # ---- dictionary
    d = {}
    extra = {}  # extra indirect objects
    nxt = [20]

    def maybe_indirect(v):
        if draw(st.integers(0, 3)) == 0:
            n = nxt[0]
            nxt[0] += 1
            extra[n] = v
            classes.append("indirect-entry")
            return W.R(n)
        return v

    names = [W.N(F.FILTERS[f][1] if draw(st.integers(0, 2)) == 0 else f) for f in chain]
    if chain:
        if len(chain) == 1 and draw(st.booleans()):
            d[b"Filter"] = maybe_indirect(names[0])
        else:
            d[b"Filter"] = maybe_indirect([maybe_indirect(x) if draw(st.integers(0, 5)) == 0 else x for x in names])
        if any(preds):
            parms = [(_parms_dict(q, draw) if q else None) for q in preds]
            if len(chain) == 1 and draw(st.booleans()):
                d[b"DecodeParms"] = maybe_indirect(parms[0])
            else:
                d[b"DecodeParms"] = maybe_indirect([maybe_indirect(x) if (x and draw(st.integers(0, 5)) == 0) else x
                                                    for x in parms])
        elif draw(st.integers(0, 5)) == 0:
            d[b"DecodeParms"] = [None] * len(chain) if len(chain) > 1 or draw(st.booleans()) else {}
    length_indirect = draw(st.integers(0, 2)) == 0
    length_after = draw(st.booleans())
    if length_indirect:
        nt = True
        classes.append("length-indirect-" + ("after" if length_after else "before"))
    stream_eol = draw(st.sampled_from([b"\n", b"\r\n"]))
    end_eol = draw(st.sampled_from([b"\n", b"\r\n", b"\r", b""]))
    if any(k in payload for k in (b"endstream", b"endobj")) or payload[:1] in (b"\n", b"\r") or payload[-1:] in (b"\n", b"\r"):
        if not chain:
            nt = True
            classes.append("raw-delimiter-in-payload")
    # ---- assemble file
    sid = 7
    len_id = 5 if not length_after else 9
    d[b"Length"] = W.R(len_id) if length_indirect else len(data)
    objs = {1: W.D(Type=W.N("Catalog"), Pages=W.R(2)), 2: W.D(Type=W.N("Pages"), Kids=[], Count=0)}
    for n, v in extra.items():
        objs[n] = v
    if length_indirect:
        objs[len_id] = len(data)
    out = bytearray(b"%PDF-1.7\n")
    offs = {}
    order = [n for n in sorted(objs) if n != len_id or not length_indirect]
    order.insert(draw(st.integers(0, len(order))), sid)
    if length_indirect:
        order.insert(order.index(sid) + (1 if length_after else 0), len_id)
    for n in order:
        offs[n] = len(out)
        if n == sid:
            out += W.obj_bytes(sid, 0, W.Stream(d, data), stream_eol=stream_eol, end_eol=end_eol)
        else:
            out += W.obj_bytes(n, 0, objs[n])
    x = len(out)
    mx = max(offs) + 1
    ent = {0: (0, 65535, "f")}
    for n in range(1, mx):
        ent[n] = (offs[n], 0, "n") if n in offs else (0, 65535, "f")
    out += W.xref_table(ent)
    out += b"trailer\n" + W.ser({b"Size": mx, b"Root": W.R(1)}) + b"\nstartxref\n%d\n%%%%EOF\n" % x
    desc = {"chain": chain, "preds": [({k: v for k, v in q.items()} if q else None) for q in preds],
            "stream_eol": stream_eol, "end_eol": end_eol, "length_indirect": length_indirect,
            "dict": W.ser(d)[:200]}
    return {"mode": "doc", "pdf": bytes(out), "objid": sid, "payload": payload, "desc": desc,
            "bufsiz": draw(st.sampled_from([4096, 4096, 64, 16, 7])), "classes": sorted(set(classes)), "nt": nt}


@st.composite
def direct_cases(draw, max_size, big=False):
    rnd = random.Random(draw(st.integers(0, 2 ** 32)))  # encoder free choices: pure function of a drawn seed
    name = draw(st.sampled_from(FNAMES)) if not big else "LZWDecode"
    if big:
        n = draw(st.integers(5000, 14000))
        alpha = draw(st.sampled_from([2, 3, 256, 256]))
        seed = draw(st.integers(0, 2 ** 32))
        import random as _r

        r2 = _r.Random(seed)
        payload = bytes(r2.randrange(alpha) for _ in range(n))
    else:
        payload = draw(payloads(max_size))
    enc = F.FILTERS[name][0](payload, rnd)
    return {"mode": "direct", "filter": name, "encoded": enc, "payload": payload,
            "desc": {"filter": name, "encoded_head": enc[:60]}, "classes": ["direct:" + name] + (["lzw-big"] if big else []),
            "nt": big or len(payload) > 300}


@st.composite
def pred_cases(draw):
    p = draw(pred_params())
    nbytes = F.row_bytes(p["colors"], p["columns"], p["bits"]) * p["rows"]
    payload = draw(st.binary(min_size=nbytes, max_size=nbytes))
    nt = p["colors"] > 1 or p["bits"] == 1 or (p["pred"] >= 10 and p["row_filters"][0] >= 2)
    return {"mode": "pred", "params": p, "encoded": _forward(p, payload), "payload": payload, "desc": p,
            "classes": ["pred-direct"], "nt": nt}


def plan(tier):
    q = tier == "quick"
    specs = [{"kind": "doc", "n": 1200 if q else 12000, "max": 1024 if q else 4096} for _ in range(16)]
    specs += [{"kind": "direct", "n": 1200 if q else 12000, "max": 1024 if q else 4096} for _ in range(4)]
    specs += [{"kind": "pred", "n": 1500 if q else 15000} for _ in range(4)]
    specs += [{"kind": "big", "n": 6 if q else 80} for _ in range(4)]
    specs += [{"kind": "lzwfull", "n": 16 if q else 60}]
    return specs


def lzwfull_cases(seed, n):
    """LZW data from an encoder that fills the code table to entry 4095 and keeps using the full table before it
    clears it: tens of kilobytes over a small alphabet, so that the last entries are used as well."""
    rnd = random.Random(seed)
    for _ in range(n):
        k = rnd.choice([2, 3, 4, 6])
        data = bytes(rnd.randrange(k) + 65 for _ in range(rnd.choice([30000, 45000, 60000])))
        codes = F.lzw_codes_full(data, rnd.choice([0, 100, 1500, 10 ** 9]))
        yield {"kind": "lzwfull", "data": data, "raw": F.lzw_pack(codes), "uses4095": 4095 in codes, "uses4094": 4094 in codes,
               "filter": rnd.choice(["LZWDecode", "LZW"])}


def run_lzwfull(case):
    from pdfminer.pdftypes import PDFStream
    from pdfminer.psparser import LIT

    classes = ["lzw-full-table", "uses-code-4095" if case["uses4095"] else "code-4095-unused"]
    assert F._ref_lzw_decode(case["raw"]) == case["data"], "harness: full-table LZW encoder"
    try:
        got = PDFStream({"Filter": LIT(case["filter"])}, case["raw"]).get_data()
    except Exception as e:
        return Outcome(classes, True, fail="LZW data with a full code table (%d bytes): raised %s: %s" % (len(case["data"]), type(e).__name__, e))
    if got != case["data"]:
        i = next((j for j in range(min(len(got), len(case["data"]))) if got[j] != case["data"][j]), min(len(got), len(case["data"])))
        return Outcome(classes, True, fail="LZW data with a full code table: %d bytes decoded, %d written, first difference at %d "
                       "(code 4095 used: %r)" % (len(got), len(case["data"]), i, case["uses4095"]))
    return Outcome(classes, case["uses4095"], sample={"bytes": len(case["data"]), "uses4095": case["uses4095"]})


def run_shard(spec, ctx):
    k = spec["kind"]
    if k == "lzwfull":
        from vlib.runner import enum_search

        return enum_search(ctx, lzwfull_cases(ctx.hseed("lzwfull"), spec["n"]), run_lzwfull)
    if k == "doc":
        return hyp_search(ctx, doc_cases(spec["max"]), run_case, spec["n"])
    if k == "direct":
        return hyp_search(ctx, direct_cases(spec["max"]), run_case, spec["n"])
    if k == "pred":
        return hyp_search(ctx, pred_cases(), run_case, spec["n"])
    return hyp_search(ctx, direct_cases(0, big=True), run_case, spec["n"])
