"""C14 — tokenizer total, progressing, buffer-size independent on all byte strings.

Bounded exhaustive enumeration over a lexical-class alphabet + Hypothesis fragment strings.
"""
import io
import itertools

from hypothesis import strategies as st

from vlib.runner import Outcome, ShardResult, enum_search, fingerprint, hyp_search
from vlib.workmeter import METER, WorkBudgetExceeded

ID = "C14"
LEVEL = "exploration"
RULE = ("Exhaustive: every byte string up to length L over a 26-symbol alphabet with one representative per "
        "lexical class (quick: L<=4 full + L=5 over a 14-symbol core; thorough: L<=5 full + L=6 core), each "
        "tokenised with BUFSIZ in {1..len+1, 4096}; plus Hypothesis strings of token fragments up to 300 bytes "
        "with BUFSIZ in {1,2,3,5,7,16,4096}; plus long runs (1100..9000 repetitions of every fragment / alphabet "
        "byte, bare, after `1 ` and inside a string) with BUFSIZ in {7,1024,2048,4096,8192}; thorough: atheris. Oracle: nexttoken() loop ends with PSEOF within 20*len+50 calls, "
        "raises nothing else, positions non-decreasing within [0,len), (pos,token) sequence identical for all "
        "BUFSIZ. Non-trivial = at least one token whose lexeme is >= 2 bytes (so a refill falls inside it at "
        "BUFSIZ=1); distinct by input string.")
ASSUMPTIONS = ["PSBaseParser.BUFSIZ is the only buffer-size knob (public class attribute)",
               "the 26-symbol alphabet has one representative of every byte class the scanners distinguish"]

FULL = [b" ", b"\n", b"\r", b"\x00", b"(", b")", b"<", b">", b"[", b"]", b"{", b"}", b"/", b"%", b"#", b"\\",
        b"0", b"7", b"8", b"a", b"n", b"x", b"+", b"-", b".", b"\x80"]
CORE = [b" ", b"\r", b"(", b")", b"<", b">", b"/", b"%", b"#", b"\\", b"7", b"8", b"a", b"."]
assert len(FULL) == 26 and len(CORE) == 14


def exhaustive(tier):
    return True


def _canon(tok):
    from pdfminer.psparser import PSKeyword, PSLiteral

    if isinstance(tok, PSLiteral):
        return ("L", tok.name)
    if isinstance(tok, PSKeyword):
        return ("K", tok.name)
    if isinstance(tok, bool):
        return ("B", tok)
    if isinstance(tok, int):
        return ("I", tok)
    if isinstance(tok, float):
        return ("F", repr(tok))
    if isinstance(tok, bytes):
        return ("S", tok)
    return ("?", repr(tok))


def _lexeme_ge2(t):
    k, v = t
    if k in ("S", "F", "B"):
        return True
    if k == "L":
        return len(v) >= 1
    if k == "K":
        return len(v) >= 2
    if k == "I":
        return v >= 10 or v < 0
    return False


def tokenize(data, bufsiz):
    """Returns (tokens, error message or None)."""
    from pdfminer.psparser import PSEOF, PSBaseParser

    old = PSBaseParser.BUFSIZ
    PSBaseParser.BUFSIZ = bufsiz
    toks = []
    # a single nexttoken() call that never returns is caught by the event budget (no wall clock involved)
    METER.arm(400 * len(data) + 20000)
    try:
        p = PSBaseParser(io.BytesIO(data))
        limit = 20 * len(data) + 50
        n = 0
        last = 0
        while True:
            n += 1
            if n > limit:
                return toks, "no termination within %d nexttoken() calls" % limit
            try:
                pos, tok = p.nexttoken()
            except PSEOF:
                break
            except WorkBudgetExceeded:
                return toks, "no termination: nexttoken() exceeded %d interpreter events on %d bytes" % (
                    400 * len(data) + 20000, len(data))
            except BaseException as e:  # noqa
                return toks, "nexttoken raised %s: %s" % (type(e).__name__, e)
            if not isinstance(pos, int) or pos < last or pos < 0 or pos >= max(len(data), 1):
                return toks, "token position %r out of order/range (previous %r, len %d)" % (pos, last, len(data))
            last = pos
            toks.append((pos, _canon(tok)))
        return toks, None
    finally:
        METER.disarm()
        PSBaseParser.BUFSIZ = old


def run_case(case):
    data = case["data"]
    sizes = case.get("bufsizes") or (list(range(1, len(data) + 2)) + [4096])
    ref, err = tokenize(data, 4096)
    if err:
        return Outcome(fail="BUFSIZ=4096 data=%r: %s" % (data, err))
    for b in sizes:
        if b == 4096:
            continue
        got, err = tokenize(data, b)
        if err:
            return Outcome(fail="BUFSIZ=%d data=%r: %s" % (b, data, err))
        if got != ref:
            return Outcome(fail="data=%r: tokens differ between BUFSIZ=%d %r and BUFSIZ=4096 %r" % (data, b, got, ref))
    nt = any(_lexeme_ge2(t) for _, t in ref)
    cls = ["tokens>0"] if ref else ["no-token"]
    if case.get("long"):
        cls.append("long-run")
        nt = True
    return Outcome(classes=cls, nontrivial=nt, fp=fingerprint(data))


# ---------------------------------------------------------------------------
def _spaces(tier):
    # (alphabet name, length)
    if tier == "quick":
        return [("full", 0), ("full", 1), ("full", 2), ("full", 3), ("full", 4), ("core", 5)]
    return [("full", 0), ("full", 1), ("full", 2), ("full", 3), ("full", 4), ("full", 5), ("core", 6)]


def plan(tier):
    specs = []
    for name, L in _spaces(tier):
        alpha = FULL if name == "full" else CORE
        total = len(alpha) ** L
        chunk = 40000 if tier == "quick" else 250000
        for lo in range(0, total, chunk):
            specs.append({"kind": "enum", "alpha": name, "L": L, "lo": lo, "hi": min(total, lo + chunk)})
    # long runs of one atom inside one read buffer (work or stack depth proportional to the run must stay bounded)
    nl = len(_long_atoms())
    for lo in range(0, nl, 24 if tier == "quick" else 8):
        specs.append({"kind": "long", "lo": lo, "hi": min(nl, lo + (24 if tier == "quick" else 8)),
                      "lengths": [1100, 4200] if tier == "quick" else [300, 1100, 2100, 4200, 9000]})
    nh = 16
    per = 1500 if tier == "quick" else 40000
    for i in range(nh):
        specs.append({"kind": "hyp", "n": per})
    if tier == "thorough":
        # empty corpus and a fragment corpus behave differently: run both
        for i in range(4):
            specs.append({"kind": "atheris", "runs": 150000, "seed_corpus": i % 2 == 1})
    return specs


def _enum_cases(alpha, L, lo, hi):
    k = len(alpha)
    for idx in range(lo, hi):
        x = idx
        parts = []
        for _ in range(L):
            parts.append(alpha[x % k])
            x //= k
        yield {"data": b"".join(reversed(parts))}


FRAGS = [b"(", b")", b"\\", b"\\\r", b"\\\n", b"\\\r\n", b"\r\n", b"\\1", b"\\12", b"\\123", b"\\400", b"\\777",
         b"\\8", b"\\n", b"\\(", b"<", b">", b"<<", b">>", b"[", b"]", b"{", b"}", b"/", b"/Name", b"#", b"#4",
         b"#41", b"#4g", b"%", b"%c\n", b"%c\r", b" ", b"\n", b"\r", b"\t", b"\x0c", b"\x00", b"0", b"12", b"+", b"-",
         b".", b"1.5", b"-.5", b"1.2.3", b"true", b"false", b"null", b"obj", b"R", b"ab", b"A", b"f", b"9", b"\x80",
         b"\xff", b"e", b"1e5", b"--1", b"+-", b"0x", b"<4>", b"<4 1>", b"<4g>"]


def _frag_strategy():
    atom = st.one_of(st.sampled_from(FRAGS), st.binary(min_size=1, max_size=3))
    return st.builds(
        lambda parts, sizes: {"data": b"".join(parts)[:300], "bufsizes": sorted(set(sizes))},
        st.lists(atom, min_size=0, max_size=40),
        st.lists(st.sampled_from([1, 2, 3, 5, 7, 16]), min_size=2, max_size=4),
    )


def run_atheris(spec, ctx):
    """Coverage-guided campaign (thorough tier): libFuzzer over raw bytes, the oracle runs inside the target."""
    import glob
    import os
    import re
    import shutil
    import subprocess
    import sys
    import tempfile

    res = ShardResult()
    here = os.path.dirname(os.path.abspath(__file__))
    tmp = tempfile.mkdtemp(prefix="c14fuzz")
    try:
        art = os.path.join(tmp, "art")
        corp = os.path.join(tmp, "corpus")
        os.mkdir(art)
        os.mkdir(corp)
        if spec.get("seed_corpus"):
            for i, frag in enumerate(FRAGS):
                with open(os.path.join(corp, "f%d" % i), "wb") as f:
                    f.write(frag + b" " + FRAGS[(i * 7) % len(FRAGS)])
        env = dict(os.environ)
        env["PYTHONHASHSEED"] = "0"
        seed = (ctx.hseed("atheris") % (2 ** 31 - 1)) + 1
        r = subprocess.run([sys.executable, os.path.join(here, "c14_fuzz.py"), art, "-runs=%d" % spec["runs"],
                            "-seed=%d" % seed, "-max_len=300", corp], capture_output=True, env=env)
        out = (r.stderr + r.stdout).decode("latin-1")
        m = re.search(r"Done (\d+) runs", out)
        cov = re.findall(r"cov: (\d+)", out)
        crashes = glob.glob(os.path.join(art, "crash-*"))
        if crashes:
            data = open(crashes[0], "rb").read()
            case = {"data": data, "bufsizes": [1, 2, 3, 7, 16]}
            o = run_case(case)
            res.evaluations += 1
            if o.fail:
                res.failures.append((case, "atheris campaign: " + o.fail))
            else:
                res.harness_errors.append("atheris crash does not reproduce through run_case: %r\n%s" % (data, out[-1500:]))
        elif r.returncode != 0 or not m:
            if "No module named 'atheris'" in out:
                res.notes.append("atheris not installed: campaign skipped")
            else:
                res.harness_errors.append("atheris campaign failed (rc=%d): %s" % (r.returncode, out[-1500:]))
        if m:
            res.evaluations += int(m.group(1))
            res.extra["atheris_runs"] = int(m.group(1))
            res.classes["atheris-campaign"] += 1
            if cov:
                res.notes.append("atheris seed=%d corpus=%s runs=%s final cov=%s" % (
                    seed, "fragments" if spec.get("seed_corpus") else "empty", m.group(1), cov[-1]))
    finally:
        shutil.rmtree(tmp, ignore_errors=True)
    return res


def _long_atoms():
    return sorted(set(FRAGS) | set(FULL))


def _long_cases(spec):
    atoms = _long_atoms()[spec["lo"]:spec["hi"]]
    for a in atoms:
        for n in spec["lengths"]:
            for pre in (b"", b"1 ", b"("):
                for suf in (b"", b" 2)"):
                    yield {"data": pre + a * n + suf, "bufsizes": [7, 1024, 2048, 8192], "long": True}


def run_shard(spec, ctx):
    if spec["kind"] == "atheris":
        return run_atheris(spec, ctx)
    if spec["kind"] == "long":
        return enum_search(ctx, _long_cases(spec), run_case)
    if spec["kind"] == "enum":
        alpha = FULL if spec["alpha"] == "full" else CORE
        res = enum_search(ctx, _enum_cases(alpha, spec["L"], spec["lo"], spec["hi"]), run_case)
        res.extra["enumerated_strings"] = spec["hi"] - spec["lo"]
        return res
    return hyp_search(ctx, _frag_strategy(), run_case, spec["n"])
