"""C07 — composite fonts: segmentation, CID, Unicode follow CMap, ToUnicode, W/DW (W2/DW2)."""
import io
import os
import random
import struct

from hypothesis import strategies as st

from vlib import cidfonts as C
from vlib import fonts as FS
from vlib import pdfwrite as W
from vlib import runner as RUN
from vlib.runner import Outcome, ShardResult, enum_search, hyp_search

ID = "C07"
LEVEL = "exploration"
RULE = (
    "doc cases: Hypothesis draws a Type0 font (Encoding = Identity-H/V, OneByteIdentityH/V, DLIdent-H/V as a name or as "
    "an embedded CMap stream carrying /CMapName, or a predefined CJK CMap name), a descendant CIDFontType0/2 with "
    "CIDSystemInfo Adobe-Identity/UCS/Japan1/GB1/CNS1/Korea1, a text source (ToUnicode CMap from the grammar bfchar / "
    "bfrange increment incl. low-byte carry and surrogate-pair targets / bfrange array / multi-character targets, "
    "1- or 2-byte source codes; embedded TrueType with an injective cmap format 0 or 4 with free segment choices and "
    "an ignorable Mac subtable; character collection; none), /W in both syntaxes interleaved + /DW (horizontal) or "
    "/W2 + /DW2 (vertical), font size, and 1-3 shown strings of arbitrary bytes incl. odd lengths (identity CMaps) or "
    "codec-encoded mixed ASCII+CJK text (predefined CMaps).  Oracle: harness models of segmentation, ToUnicode, "
    "TrueType cmap inverse, W/DW, W2/DW2, compared with LTChar.get_text()/adv/matrix/bbox (tolerance 1e-6).  "
    "decode cases: CMapDB.get_cmap(identity name).decode(arbitrary bytes).  cjk cases: for 52 predefined CMaps x "
    "platform codec, EVERY code point of kana 3040-30FF, hangul AC00-D7A3, unified ideographs 4E00-9FFF that the codec "
    "encodes and the CMap maps must come back unchanged through CMap.decode + collection unicode map.  "
    "Non-trivial = bfrange carry reached by a shown code, odd-length string, mixed-width legacy/UTF-8 string, W in "
    "both syntaxes, vertical font, or TrueType-cmap fallback; for cjk cases = at least one mapped character.  "
    "Distinct by case bytes (PDF file / code-point block).")
ASSUMPTIONS = [
    "ToUnicode bfrange increment = integer increment of the last <=4 bytes of the UTF-16BE target (only well-formed "
    "targets are generated); source ranges keep the same high byte and never overlap",
    "embedded encoding-CMap streams are only generated for the identity names (their program is the identity mapping); "
    "pdfminer does not interpret embedded CMap programs, custom CMaps are outside the stated domain",
    "vertical bounding box uses pdfminer's public convention (x0 = x - vx*size/1000, top = y + (1000 - vy)*size/1000); "
    "the default vx (no W2 entry) is asserted only when the font has no /W or /DW (w0/2 = 500)",
    "text of a code that a present ToUnicode CMap does not cover is accepted as '(cid:N)' or the fallback source's value",
    "'(cid:N)' is the public convention for a code without Unicode value; CID 0 (.notdef) is not asserted for TrueType",
    "codec-vs-Adobe table differences are listed with reasons in DOC_EXCEPTIONS and counted, not hidden",
    "Tz=100, Tc=Tw=0, rise 0, identity CTM and text matrix up to a translation (text-state interplay belongs to C05)",
]

K_TU_CID = "tounicode-keyed-by-cid"
K_ALIAS = "cid2unichr-alias"
K_MISSING = "cid2unichr-missing"
K_VCODES = "vertical-cmap-missing-codes"

IDENT = {  # name -> (bytes per code, vertical)
    "Identity-H": (2, False), "Identity-V": (2, True), "DLIdent-H": (2, False), "DLIdent-V": (2, True),
    "OneByteIdentityH": (1, False), "OneByteIdentityV": (1, True),
}
CJK_COLLS = ["Adobe-Japan1", "Adobe-GB1", "Adobe-CNS1", "Adobe-Korea1"]
# collections without a character-collection table: the Unicode source is ToUnicode or the embedded TrueType cmap
IDENT_COLLS = ("Adobe-Identity", "Adobe-UCS")

# (CMap base name, platform codec, collection)
PAIRS = [
    ("90ms-RKSJ", "cp932", "Adobe-Japan1"), ("90msp-RKSJ", "cp932", "Adobe-Japan1"), ("EUC", "euc_jp", "Adobe-Japan1"),
    ("GBK-EUC", "gbk", "Adobe-GB1"), ("GB-EUC", "gb2312", "Adobe-GB1"),
    ("ETen-B5", "big5", "Adobe-CNS1"), ("B5pc", "big5", "Adobe-CNS1"),
    ("KSC-EUC", "euc_kr", "Adobe-Korea1"), ("KSCms-UHC", "cp949", "Adobe-Korea1"),
]
for _coll, _pre in [("Adobe-Japan1", "UniJIS"), ("Adobe-GB1", "UniGB"), ("Adobe-CNS1", "UniCNS"), ("Adobe-Korea1", "UniKS")]:
    for _suf, _codec in [("UCS2", "utf-16-be"), ("UTF16", "utf-16-be"), ("UTF8", "utf-8"), ("UTF32", "utf-32-be")]:
        PAIRS.append(("%s-%s" % (_pre, _suf), _codec, _coll))
# supplementary pair: the ETen layout of the kana rows is what Python's big5hkscs implements (see DOC_EXCEPTIONS)
EXTRA_PAIRS = [("ETen-B5", "big5hkscs", "Adobe-CNS1")]
CLASSES = {"kana": (0x3040, 0x3100), "hangul": (0xAC00, 0xD7A4), "cjk": (0x4E00, 0xA000)}
UTF16_OF = {"Adobe-Japan1": "UniJIS-UTF16", "Adobe-GB1": "UniGB-UTF16", "Adobe-CNS1": "UniCNS-UTF16",
            "Adobe-Korea1": "UniKS-UTF16"}
UTF32_OF = {k: v.replace("UTF16", "UTF32") for k, v in UTF16_OF.items()}


def cls_of(cp):
    for k, (lo, hi) in CLASSES.items():
        if lo <= cp < hi:
            return k
    return None


# Documented codec-vs-Adobe table differences (NOT pdfminer defects).  Each entry: predicate -> reason.
def doc_exception(base, codec, cp):
    if codec == "big5" and 0x3040 <= cp < 0x3100:
        # Python's big5 (and cp950) codec follows the Unicode Consortium's BIG5.TXT, which puts the ETen kana at
        # 0xC6A5-0xC7F2 contiguous from 0xC6A1; the real ETen extension (followed by Adobe's ETen-B5-H, see
        # cid2code_Adobe_CNS1.txt CID 506 = <c6a1> = U+2460, CID 13761 = <c6e7> = U+3041, and by Python's big5hkscs)
        # has circled digits / radicals at 0xC6A1-0xC6E6 and kana from 0xC6E7.  Checked instead with big5hkscs.
        return "big5-codec-kana-layout"
    if base in ("90ms-RKSJ", "90msp-RKSJ") and cp == 0x663B:
        # cp932 0xEDB4/0xFAD0 = U+663B; Adobe maps both (and 0x8D56) to CID 1993 = U+6602 (cid2code_Adobe_Japan1.txt
        # row 1993, columns 90ms-RKSJ `8d56,edb4,fad0`): Adobe-Japan1 unifies the two forms.
        return "cp932-EDB4-unified-with-8D56"
    if base.endswith("-UCS2") and (base, cp) in UCS2_VS_UTF16:
        # cid2code.txt: "These two CMap files are no longer being maintained".  For these characters the UCS2 CMap
        # sends the character to the CID that the maintained UTF-16/UTF-32 CMaps reach from a different character.
        return "adobe-ucs2-differs-from-utf16"
    return None


UCS2_VS_UTF16 = {("UniGB-UCS2", 0x30F8), ("UniGB-UCS2", 0x30F9), ("UniCNS-UCS2", 0x60B3), ("UniCNS-UCS2", 0x8480),
                 ("UniJIS-UCS2", 0x6C3A), ("UniJIS-UCS2", 0x9C6A)}


def selfcheck():
    C.selfcheck(random.Random(7))
    assert "あ".encode("cp932") == b"\x82\xa0" and "ぁ".encode("big5hkscs") == b"\xc6\xe7"


# --------------------------------------------------------------------------
# helpers around pdfminer's public API
# --------------------------------------------------------------------------
def _close(a, b):
    return abs(a - b) <= 1e-6 * max(1.0, abs(a), abs(b))


def _chars(pdf):
    from pdfminer.converter import PDFPageAggregator
    from pdfminer.layout import LTChar
    from pdfminer.pdfinterp import PDFPageInterpreter, PDFResourceManager
    from pdfminer.pdfpage import PDFPage

    rm = PDFResourceManager()
    dev = PDFPageAggregator(rm, laparams=None)
    it = PDFPageInterpreter(rm, dev)
    out = []
    for p in PDFPage.get_pages(io.BytesIO(pdf)):
        it.process_page(p)
        out += [c for c in dev.get_result() if isinstance(c, LTChar)]
    return out


def _lookup_single(cm, b):
    """CID when the byte string b is exactly one code of the predefined CMap, else None (harness-side walk of
    the public code2cid trie; the decode() API itself is checked against it in cjk cases)."""
    d = cm.code2cid
    for i, c in enumerate(b):
        if c not in d:
            return None
        d = d[c]
        if isinstance(d, int):
            return d if i == len(b) - 1 else None
    return None


_INV = {}


def _preimages(name):
    """cid -> set of characters, for a Unicode-encoded CMap (harness-side inversion, cached per process)."""
    if name not in _INV:
        from pdfminer.cmapdb import CMapDB

        out = {}
        codec = {"UTF16": "utf-16-be", "UTF32": "utf-32-be", "UCS2": "utf-16-be"}[name.split("-")[1]]

        def walk(d, pre):
            for k, v in d.items():
                if isinstance(v, int):
                    try:
                        ch = bytes(pre + [k]).decode(codec)
                    except UnicodeDecodeError:
                        continue
                    if len(ch) == 1:
                        out.setdefault(v, set()).add(ch)
                else:
                    walk(v, pre + [k])

        walk(CMapDB.get_cmap(name + "-H").code2cid, [])
        _INV[name] = out
    return _INV[name]


def _unichr(coll, vertical, cid):
    from pdfminer.cmapdb import CMapDB

    try:
        return CMapDB.get_unicode_map(coll, vertical).get_unichr(cid)
    except KeyError:
        return None


# --------------------------------------------------------------------------
# cjk agreement (exhaustive blocks)
# --------------------------------------------------------------------------
def _cjk_eval(case):
    """Returns (Outcome, counts dict)."""
    from pdfminer.cmapdb import CMapDB

    name, codec, coll = case["cmap"], case["codec"], case["coll"]
    base, wm = name.rsplit("-", 1)
    vertical = wm == "V"
    vforms = bool(case.get("vforms"))
    cps = case["cps"] if "cps" in case else range(case["lo"], case["hi"])
    counts = {}
    bad, known_alias, known_missing, exc = [], [], [], []

    def cnt(k):
        counts[k] = counts.get(k, 0) + 1

    try:
        cm = CMapDB.get_cmap(name)
        if bool(cm.is_vertical()) != vertical:
            return Outcome(["cjk"], True, fail="CMap %s: is_vertical() = %r" % (name, cm.is_vertical())), counts
        um = CMapDB.get_unicode_map(coll, vertical)
    except Exception as e:
        return Outcome(["cjk"], True, fail="loading %s / %s raised %s: %s" % (name, coll, type(e).__name__, e)), counts
    buf = bytearray()
    seq = []
    if vforms:
        # characters whose code the vertical CMap sends to another CID than the horizontal CMap (vertical
        # presentation forms) and which extract correctly through the horizontal pair: the vertical pair
        # (CMap-V, vertical collection map) must give the same character
        try:
            cmh = CMapDB.get_cmap(base + "-H")
            umh = CMapDB.get_unicode_map(coll, False)
        except Exception as e:
            return Outcome(["cjk"], True, fail="loading %s-H raised %s: %s" % (base, type(e).__name__, e)), counts
        sel = []
        for cp in cps:
            if 0xD800 <= cp < 0xE000:
                continue
            try:
                b = chr(cp).encode(codec)
            except UnicodeEncodeError:
                continue
            ch_, cv = _lookup_single(cmh, b), _lookup_single(cm, b)
            if ch_ is None or cv is None or ch_ == cv:
                continue
            try:
                if umh.get_unichr(ch_) != chr(cp):
                    continue
            except KeyError:
                continue
            sel.append(cp)
        cps = sel
    for cp in cps:
        ch = chr(cp)
        k = "vform" if vforms else cls_of(cp)
        try:
            b = ch.encode(codec)
        except UnicodeEncodeError:
            cnt("%s:not-in-codec" % k)
            continue
        cid = _lookup_single(cm, b)
        if cid is None:
            cnt("%s:not-in-cmap" % k)
            continue
        buf += b
        seq.append((cp, cid))
        try:
            u = um.get_unichr(cid)
        except KeyError:
            u = None
        except Exception as e:
            return Outcome(["cjk"], True, fail="get_unichr(%d) raised %s: %s" % (cid, type(e).__name__, e)), counts
        if u == ch:
            cnt("%s:agree" % k)
            continue
        why = doc_exception(base, codec, cp)
        item = "U+%04X<%s>->cid %d->%s" % (cp, b.hex(), cid, "none" if u is None else "U+%04X" % ord(u[0]) if len(u) == 1 else repr(u))
        if why:
            cnt("%s:exception:%s" % (k, why))
            exc.append(item)
        elif u is None:
            cnt("%s:known:%s" % (k, K_MISSING))
            known_missing.append(item)
        elif len(u) == 1 and any(ch in _preimages(n).get(cid, ()) and u in _preimages(n).get(cid, ())
                                 for n in (UTF32_OF[coll], UTF16_OF[coll].replace("UTF16", "UCS2"))):
            cnt("%s:known:%s" % (k, K_ALIAS))
            known_alias.append(item)
        else:
            cnt("%s:DISAGREE" % k)
            bad.append(item)
    # the decode() API must segment the concatenation of all mapped codes into exactly these CIDs
    try:
        got = list(cm.decode(bytes(buf)))
    except Exception as e:
        return Outcome(["cjk"], True, fail="%s.decode raised %s: %s" % (name, type(e).__name__, e)), counts
    classes = ["cjk", "cjk:" + base]
    nt = bool(seq)
    sample = {"cmap": name, "codec": codec, "block": "%04X-%04X" % (cps[0], cps[-1]) if len(cps) else "", "mapped": len(seq)}
    if got != [cid for _, cid in seq]:
        i = next((i for i, (a, b) in enumerate(zip(got, seq)) if a != b[1]), min(len(got), len(seq)))
        return Outcome(classes, nt, fail="%s.decode of %d concatenated %s codes gives %d CIDs; first difference at index %d "
                       "(U+%04X)" % (name, len(seq), codec, len(got), i, seq[i][0] if i < len(seq) else -1)), counts
    if bad:
        return Outcome(classes, nt, fail="%s vs codec %s: %d unexplained disagreements: %s" % (
            name, codec, len(bad), " ".join(bad[:12]))), counts
    for key, items in ((K_ALIAS, known_alias), (K_MISSING, known_missing)):
        if items:
            msg = "%s vs codec %s [%s]: %s" % (name, codec, key, " ".join(items[:40]))
            if key in RUN.ACTIVE_KNOWN:
                return Outcome(classes + ["cjk-known:" + key], nt, known=key, fail=msg), counts
            return Outcome(classes, nt, fail=msg), counts
    return Outcome(classes + (["cjk-exception-block"] if exc else []), nt, sample=sample), counts


# --------------------------------------------------------------------------
# code -> CID tables of every predefined CMap against Adobe's cid2code.txt (shipped in <repo>/cmaprsrc)
# --------------------------------------------------------------------------
_C2C = {}


def _cid2code(coll):
    """{column: [(cid, [plain codes], [codes marked 'v'])]} parsed independently of tools/conv_cmap.py.
    File format (its own header): tab-separated, first column CID, one column per CMap family, '*' = not
    encoded, several codes comma-separated, suffix 'v' = the code as found in the -V CMap (the -V CMap is the
    -H CMap with those codes overridden: Adobe's -V files are `/X-H usecmap` plus the overrides)."""
    if coll not in _C2C:
        import pdfminer

        root = os.path.dirname(os.path.dirname(os.path.abspath(pdfminer.__file__)))
        path = os.path.join(root, "cmaprsrc", "cid2code_%s.txt" % coll.replace("-", "_"))
        cols = None
        out = {}
        with open(path, encoding="latin-1") as f:
            for line in f:
                line = line.split("#", 1)[0].rstrip("\r\n")
                if not line.strip():
                    continue
                v = line.split("\t")
                if cols is None:
                    if v[0] != "CID":
                        raise ValueError("unexpected header in %s" % path)
                    cols = v
                    for c in cols[1:]:
                        out[c] = []
                    continue
                cid = int(v[0])
                for c, val in zip(cols[1:], v[1:]):
                    if val == "*":
                        continue
                    plain, vert = [], []
                    for code in val.split(","):
                        dst = plain
                        if code.endswith("v"):
                            code, dst = code[:-1], vert
                        if len(code) % 2:
                            code = "0" + code
                        dst.append(bytes.fromhex(code))
                    out[c].append((cid, plain, vert))
        _C2C[coll] = out
    return _C2C[coll]


def _c2c_names(column):
    if column.endswith("-H"):
        return [(column, "H")]
    if column == "H":
        return [("H", "H"), ("V", "V")]
    return [(column + "-H", "H"), (column + "-V", "V")]


def _run_cid2code(case):
    from pdfminer.cmapdb import CMapDB

    coll, column, name, wm = case["coll"], case["column"], case["name"], case["wm"]
    rows = _cid2code(coll)[column]
    classes = ["cid2code", "cid2code:" + wm]
    exp = {}
    for cid, plain, vert in rows:
        for code in plain:
            exp[code] = cid
    allowed_missing = set()
    if wm == "V":
        for cid, plain, vert in rows:
            if vert:
                allowed_missing.update(plain)
        for cid, plain, vert in rows:
            for code in vert:
                exp[code] = cid
                allowed_missing.discard(code)
    try:
        cm = CMapDB.get_cmap(name)
        vflag = bool(cm.is_vertical())
        got = {}

        def walk(d, pre):
            for k, v in d.items():
                if isinstance(v, int):
                    got[bytes(pre + [k])] = v
                else:
                    walk(v, pre + [k])

        walk(cm.code2cid, [])
    except Exception as e:
        return Outcome(classes, True, fail="get_cmap(%r) raised %s: %s" % (name, type(e).__name__, e))
    if vflag != (wm == "V"):
        return Outcome(classes, True, fail="get_cmap(%r).is_vertical() = %r" % (name, vflag))
    extra = sorted(k for k in got if k not in exp)
    diff = sorted(k for k in exp if k in got and got[k] != exp[k])
    miss = sorted(k for k in exp if k not in got)
    if extra or diff:
        return Outcome(classes, True, fail="%s vs cid2code column %s: %d codes not in Adobe's table %s, %d with another CID %s" % (
            name, column, len(extra), [k.hex() for k in extra[:5]], len(diff),
            [(k.hex(), got[k], exp[k]) for k in diff[:5]]))
    bad = [k for k in miss if k not in allowed_missing]
    if bad:
        return Outcome(classes, True, fail="%s lacks %d codes of cid2code column %s: %s" % (
            name, len(bad), column, [(k.hex(), exp[k]) for k in bad[:8]]))
    if miss:
        msg = "%s lacks %d codes that Adobe's %s maps (inherited unchanged from -H in rows that also list a 'v' code): %s" % (
            name, len(miss), name, " ".join("<%s>->%d" % (k.hex(), exp[k]) for k in miss[:30]))
        if K_VCODES in RUN.ACTIVE_KNOWN:
            return Outcome(classes + ["known:" + K_VCODES], True, known=K_VCODES, fail=msg)
        return Outcome(classes, True, fail=msg)
    return Outcome(classes, True, sample={"cmap": name, "codes": len(exp)})


# --------------------------------------------------------------------------
# the oracle
# --------------------------------------------------------------------------
def _segment(font, data, text=None):
    """[(code, nbytes)] per the encoding CMap, harness side."""
    if font["kind"] == "ident":
        n = font["nbytes"]
        return [int.from_bytes(data[i:i + n], "big") for i in range(0, len(data) - n + 1, n)]
    # predefined CMap: the independent platform codec says where each character's code ends
    codes = []
    for ch in text:
        b = ch.encode(font["codec"])
        codes.append(int.from_bytes(b, "big"))
    return codes


def _expected_text(font, code, cid):
    """-> (mode, value): ('eq', str) | ('oneof', [str]) | ('any', None); and a tag for known-finding triage"""
    notdef = "(cid:%d)" % cid
    src = font["src"]
    fallback = []
    if font.get("ttf_inv") is not None:
        if cid == 0:
            fallback.append(None)
        else:
            t = font["ttf_inv"].get(cid)
            fallback.append(chr(t) if t is not None else notdef)
    elif font["coll"] not in IDENT_COLLS:
        u = _unichr(font["coll"], font["vertical"], cid)
        fallback.append(u if u is not None else notdef)
    if src == "tu":
        if code in font["tu"]:
            return ("eq", font["tu"][code]), "tu"
        if None in fallback:
            return ("any", None), "tu-miss"
        return ("oneof", [notdef] + fallback), "tu-miss"
    if src == "ttf":
        if cid == 0:
            return ("any", None), "ttf"
        return ("eq", fallback[0]), "ttf"
    if src == "coll":
        return ("eq", fallback[0]), "coll"
    return ("eq", notdef), "none"


def run_case(case):
    mode = case["mode"]
    if mode == "cjk":
        return _cjk_eval(case)[0]
    if mode == "decode":
        return _run_decode(case)
    if mode == "cid2code":
        return _run_cid2code(case)
    return _run_doc(case)


def _run_decode(case):
    from pdfminer.cmapdb import CMapDB

    name, data = case["name"], case["data"]
    n, vertical = IDENT[name][0], IDENT[name][1]
    classes = ["decode", "decode:%d-byte" % n]
    odd = n == 2 and len(data) % 2 == 1
    if odd:
        classes.append("decode-odd")
    exp = [int.from_bytes(data[i:i + n], "big") for i in range(0, len(data) - n + 1, n)]
    try:
        cm = CMapDB.get_cmap(name)
        got = list(cm.decode(data))
        v = bool(cm.is_vertical())
    except Exception as e:
        return Outcome(classes, odd, fail="get_cmap(%r).decode(%r) raised %s: %s" % (name, data, type(e).__name__, e))
    if got != exp:
        return Outcome(classes, odd, fail="get_cmap(%r).decode(%r) = %r, expected %r" % (name, data, got[:20], exp[:20]))
    if v != vertical:
        return Outcome(classes, odd, fail="get_cmap(%r).is_vertical() = %r" % (name, v))
    return Outcome(classes, odd or len(data) > 2, sample={"name": name, "data": data})


def _run_doc(case):
    from pdfminer.cmapdb import CMapDB

    font = case["font"]
    classes = ["doc"] + list(case.get("classes", []))
    nt = bool(case.get("nt"))
    size = float(case["size"])
    vertical = font["vertical"]
    inv = case.get("inv")
    if inv:
        t = case["texts"][0]
        a, b = t[:inv["pos"]].encode(font["codec"]), t[inv["pos"]:].encode(font["codec"])
        try:
            cm = CMapDB.get_cmap(font["enc"])
            ca, cb, call = list(cm.decode(a)), list(cm.decode(b)), list(cm.decode(a + inv["pair"] + b))
        except Exception as e:
            return Outcome(classes, nt, fail="get_cmap(%r).decode raised %s: %s" % (font["enc"], type(e).__name__, e))
        # the undefined character may be reported as CID 0 (notdef) or not at all
        if call != ca + cb and call != ca + [0] + cb:
            return Outcome(classes, nt, fail="%s: invalid pair %r between %r and %r: CIDs %r, expected %r + [notdef] + %r" % (
                font["enc"], inv["pair"], a, b, call, ca, cb))
        nt = True
    # ---- expected glyph list
    exp = []
    pending = 0  # TJ adjustment(s) standing before the next glyph, in thousandths of text space
    for si, data in enumerate(case["strings"]):
        if si and case.get("tj"):
            pending += case["tj"][si - 1]
        if font["kind"] == "ident":
            codes = _segment(font, data)
            cids = codes
        else:
            text = case["texts"][si]
            codes = _segment(font, data, text)
            try:
                cids = list(CMapDB.get_cmap(font["enc"]).decode(data))
            except Exception as e:
                return Outcome(classes, nt, fail="get_cmap(%r).decode raised %s: %s" % (font["enc"], type(e).__name__, e))
            if len(cids) != len(text):
                return Outcome(classes, nt, fail="%s: %r (%s of %r) decodes to %d CIDs, expected %d characters" % (
                    font["enc"], data, font["codec"], text, len(cids), len(text)))
        for k, (code, cid) in enumerate(zip(codes, cids)):
            if font["kind"] == "ident":
                te, tag = _expected_text(font, code, cid)
            elif font["src"] == "tu":
                te, tag = _expected_text(font, code, cid)
                tag = "tu-predef"  # covered or not: a CID-keyed lookup can also hit another code's entry
            else:
                te, tag = ("eq", case["texts"][si][k]), "codec"
            if vertical:
                w2 = font["W2"].get(cid)
                if w2 is not None:
                    w, vx, vy = (C.numval(x) for x in w2)
                else:
                    vy, w = (C.numval(x) for x in font["DW2"]) if font["DW2"] is not None else (880, -1000)
                    vx = None
                exp.append((te, tag, w, vx, vy, cid, code, pending))
                pending = 0
            else:
                w = font["W"].get(cid)
                w = C.numval(w) if w is not None else (C.numval(font["DW"]) if font["DW"] is not None else 1000)
                exp.append((te, tag, w, None, None, cid, code, pending))
                pending = 0
    # ---- observed
    try:
        got = _chars(case["pdf"])
    except Exception as e:
        return Outcome(classes, nt, fail="extraction raised %s: %s; desc=%r" % (type(e).__name__, e, case.get("desc")))
    if len(got) != len(exp):
        return Outcome(classes, nt, fail="%d glyphs, expected %d (strings %r); desc=%r" % (
            len(got), len(exp), [bytes(s) for s in case["strings"]], case.get("desc")))
    x, y = float(case["x"]), float(case["y"])
    other, tu_predef = [], []
    for i, (c, (te, tag, w, vx, vy, cid, code, pre)) in enumerate(zip(got, exp)):
        # a number in a TJ array moves the next glyph back along the writing direction (ISO 32000-1 9.4.3): x in
        # horizontal, y in vertical writing mode
        if vertical:
            y -= pre * size / 1000.0
        else:
            x -= pre * size / 1000.0
        t = c.get_text()
        ok = te[0] == "any" or (te[0] == "eq" and t == te[1]) or (te[0] == "oneof" and t in te[1])
        if not ok:
            msg = "glyph %d (code %#x, cid %d, text source %s): text %r, expected %r" % (i, code, cid, tag, t, te[1])
            (tu_predef if tag == "tu-predef" else other).append(msg)
        adv = w * size / 1000.0
        if not _close(c.adv, adv):
            other.append("glyph %d (cid %d): adv %r, expected %r (width %r x size %r)" % (i, cid, c.adv, adv, w, size))
        m = c.matrix
        if not (m[:4] == (1, 0, 0, 1) and _close(m[4], x) and _close(m[5], y)):
            other.append("glyph %d (cid %d): matrix %r, expected translation (%r, %r)" % (i, cid, m, x, y))
        if vertical:
            top = y + (1000 - vy) * size / 1000.0
            ys = sorted([top, top + adv])
            if not (_close(c.y0, ys[0]) and _close(c.y1, ys[1])):
                other.append("glyph %d (cid %d): vertical extent (%r, %r), expected %r" % (i, cid, c.y0, c.y1, ys))
            if vx is not None or not font["has_w"]:
                ex0 = x - (vx if vx is not None else 500) * size / 1000.0
                if not (_close(c.x0, ex0) and _close(c.x1, ex0 + size)):
                    other.append("glyph %d (cid %d): horizontal extent (%r, %r), expected (%r, %r) for vx=%r" % (
                        i, cid, c.x0, c.x1, ex0, ex0 + size, vx))
            y += adv
        else:
            xs = sorted([x, x + adv])
            if not (_close(c.x0, xs[0]) and _close(c.x1, xs[1])):
                other.append("glyph %d (cid %d): horizontal extent (%r, %r), expected %r" % (i, cid, c.x0, c.x1, xs))
            x += adv
    if other:
        return Outcome(classes, nt, fail="%s; desc=%r" % ("; ".join(other[:4]), case.get("desc")))
    if tu_predef:
        msg = "%s; desc=%r" % ("; ".join(tu_predef[:4]), case.get("desc"))
        if K_TU_CID in RUN.ACTIVE_KNOWN:
            return Outcome(classes + ["known:" + K_TU_CID], nt, known=K_TU_CID, fail=msg)
        return Outcome(classes, nt, fail=msg)
    return Outcome(classes, nt, sample={"desc": case.get("desc"), "strings": [bytes(s) for s in case["strings"]],
                                        "glyphs": len(exp)})


# --------------------------------------------------------------------------
# generators
# --------------------------------------------------------------------------
def _s(arr):
    return W.ser(arr)[:160].decode("latin-1") if arr is not None else None


SIZES = ["1", "8", "10", "12", "0.5", "24", "9.5", "100"]


def _code_lists(nbytes, small_top, lo=0):
    if nbytes == 1:
        return st.lists(st.integers(0, 255), min_size=lo, max_size=14)
    return st.lists(st.one_of(st.integers(0, 300), st.integers(0, small_top), st.integers(0, 65535),
                              st.sampled_from([0, 0xFF, 0x100, 0xFFFF, 0x20, 0xFEFF, 0x2028])), min_size=lo, max_size=12)


def _build_doc(font_model, enc_value, enc_stream, subtype, rnd, strings, size, x, y, tu_entries, ttf_subtables,
               w_arr, w2_arr, tw=None, tj=None):
    extra = {}
    ttf_ref = None
    if ttf_subtables is not None:
        data = C.build_ttf(ttf_subtables, rnd)
        extra[22] = W.Stream(W.D(Length1=len(data)), data)
        ttf_ref = W.R(22)
    # a /MissingWidth in the descriptor (in a third of the documents) never replaces /DW or its default 1000
    r2 = random.Random(repr((strings, size, x, y)))
    extra[21] = C.font_descriptor(fontfile2=ttf_ref, missing_width=r2.choice([250, 600, 1234]) if r2.random() < 0.33 else None)
    extra[20] = C.descendant(subtype, font_model["coll"], W.R(21), W=w_arr, DW=C._num(font_model["DW"]) if font_model["DW"] is not None else None,
                             W2=w2_arr, DW2=[C._num(v) for v in font_model["DW2"]] if font_model["DW2"] is not None else None,
                             cidtogid=W.N("Identity") if (subtype == "CIDFontType2" and rnd.random() < 0.5) else None)
    # the metrics entries of the CIDFont may be indirect objects
    for k, (key, num) in enumerate(((b"DW", 40), (b"DW2", 41), (b"W", 42), (b"W2", 43))):
        if extra[20].get(key) is not None and rnd.random() < 0.2:
            extra[num] = extra[20][key]
            extra[20][key] = W.R(num)
    tu_ref = None
    if tu_entries is not None:
        prog = C.emit_tounicode(tu_entries, font_model["tu_nbytes"], rnd, codespaces=font_model.get("tu_codespaces"))
        extra[23] = W.Stream({}, prog)
        tu_ref = W.R(23)
    if enc_stream is not None:
        extra[24] = enc_stream
        enc_value = W.R(24)
    f = C.type0(enc_value, W.R(20), tu_ref)
    ops = [b"BT", b"/F1 %s Tf" % size.encode(), b"%s %s Td" % (x.encode(), y.encode())]
    if tw is not None:
        ops.append(b"%s Tw" % tw.encode())
    if tj:
        parts = []
        for k, s in enumerate(strings):
            if k:
                parts.append(b"%d" % tj[k - 1])
            parts.append(b"<" + s.hex().encode() + b">" if rnd.random() < 0.7 else W.ser(s))
        ops.append(b"[" + b" ".join(parts) + b"] TJ")
    else:
        for s in strings:
            if rnd.random() < 0.7:
                ops.append(b"<" + s.hex().encode() + b"> Tj")
            else:
                ops.append(W.ser(s) + b" Tj")
    ops.append(b"ET")
    fonts = {"F1": f}
    if rnd.random() < 0.5:
        # a second composite font that is never shown shares the descendant CIDFont object and has its own
        # encoding and ToUnicode map; it is instantiated first and must not influence F1
        decoy_tu, _ = FS.tounicode_cmap({c: "#" for c in range(0, 96)}, codelen=2)
        extra[25] = W.Stream({}, decoy_tu)
        fonts = {"F0": C.type0(W.N("Identity-H"), W.R(20), W.R(25)), "F1": f}
    # the font shown may be a direct dictionary (after an indirect entry, when there is a decoy)
    direct = ("F1",) if rnd.random() < 0.3 else ()
    return W.page_doc(b"\n".join(ops), fonts=fonts, extra=extra, direct_fonts=direct)


def _widths(rnd, font, cids, classes):
    """Draw W/DW or W2/DW2 for the font model; returns (w_arr, w2_arr, nontrivial)"""
    nt = False
    w_arr = w2_arr = None
    font["W"], font["DW"], font["W2"], font["DW2"], font["has_w"] = {}, None, {}, None, False
    maxcid = 255 if font.get("nbytes") == 1 else 65535
    if font["vertical"]:
        if rnd.random() < 0.85:
            runs = C.random_w_runs(rnd, cids, maxcid=maxcid, gen=C.random_w2)
            w2_arr, syn = C.emit_w2(runs, rnd)
            font["W2"] = {k: list(v) for k, v in C.w_model(runs).items()}
            classes.append("W2:" + "+".join(sorted(syn)) if syn else "W2:empty")
        if rnd.random() < 0.6:
            font["DW2"] = [C.random_width(rnd, 0, 1200), C.random_width(rnd, -1500, 300)]
            classes.append("DW2")
        if rnd.random() < 0.3:  # horizontal metrics are also present in real vertical fonts; they must not be used
            runs = C.random_w_runs(rnd, cids, maxcid=maxcid)
            w_arr, _ = C.emit_w(runs, rnd)
            font["has_w"] = True
            if rnd.random() < 0.5:
                font["DW"] = C.random_width(rnd)
            classes.append("vertical+W")
        nt = True
        classes.append("vertical")
    else:
        if rnd.random() < 0.85:
            runs = C.random_w_runs(rnd, cids, maxcid=maxcid)
            w_arr, syn = C.emit_w(runs, rnd)
            font["W"] = C.w_model(runs)
            classes.append("W:" + "+".join(sorted(syn)) if syn else "W:empty")
            if len(syn) == 2:
                nt = True
                classes.append("W-both-syntaxes")
            if any(c in font["W"] for c in cids):
                classes.append("W-hit")
            if any(c not in font["W"] for c in cids):
                classes.append("W-miss")
        if rnd.random() < 0.6:
            font["DW"] = C.random_width(rnd)
            classes.append("DW")
        else:
            classes.append("DW-default")
        if rnd.random() < 0.15:  # vertical metrics in a horizontal font must not be used
            runs = C.random_w_runs(rnd, cids, maxcid=maxcid, gen=C.random_w2)
            w2_arr, _ = C.emit_w2(runs, rnd)
            classes.append("horizontal+W2")
    return w_arr, w2_arr, nt


@st.composite
def ident_cases(draw):
    rnd = random.Random(draw(st.integers(0, 2 ** 32)))
    enc = draw(st.sampled_from(list(IDENT)))
    nbytes, vertical = IDENT[enc]
    coll = draw(st.sampled_from(["Adobe-Identity", "Adobe-Identity", "Adobe-UCS"] + CJK_COLLS))
    if coll in IDENT_COLLS:
        src = draw(st.sampled_from(["tu", "tu", "ttf", "ttf", "tu+ttf", "none"]))
    else:
        src = draw(st.sampled_from(["coll", "coll", "tu"]))
    classes = ["enc:" + enc, "coll:" + coll, "src:" + src]
    nt = False
    # ---- shown strings
    nstr = draw(st.integers(1, 3))
    strings = []
    small_top = 23000 if coll not in IDENT_COLLS else 3000
    for k in range(nstr):
        codes = draw(_code_lists(nbytes, small_top, 1 if k == 0 else 0))
        if nbytes == 2 and draw(st.integers(0, 3)) == 0:
            # the two-byte code <0020>: word spacing never applies to a multi-byte code (ISO 32000-1 9.3.3)
            codes = list(codes)
            codes.insert(draw(st.integers(0, len(codes))), 32)
        if nbytes == 2 and draw(st.integers(0, 5)) == 0:
            # the last code of the two-byte space (the last member of a range over the whole space)
            codes = list(codes)
            codes.insert(draw(st.integers(0, len(codes))), 0xFFFF)
        b = b"".join(c.to_bytes(nbytes, "big") for c in codes)
        if nbytes == 2 and draw(st.integers(0, 2)) == 0:
            b += bytes([draw(st.integers(0, 255))])
            classes.append("odd-length")
            nt = True
        strings.append(b)
    all_codes = []
    for s in strings:
        all_codes += [int.from_bytes(s[i:i + nbytes], "big") for i in range(0, len(s) - nbytes + 1, nbytes)]
    classes.append("glyphs:%s" % ("0" if not all_codes else "1-5" if len(all_codes) <= 5 else "6+"))
    font = {"kind": "ident", "enc": enc, "nbytes": nbytes, "vertical": vertical, "coll": coll,
            "src": "tu" if src == "tu+ttf" else src, "tu": None, "ttf_inv": None, "tu_nbytes": nbytes}
    # ---- text source
    tu_entries = None
    ttf_subtables = None
    if src in ("tu", "tu+ttf"):
        tu_entries, feats = C.random_tounicode(rnd, nbytes, all_codes)
        font["tu"] = C.tounicode_model(tu_entries)
        classes += ["tu:" + f for f in sorted(feats)]
        if "incr-carry-shown" in feats:
            nt = True
        if any(c in font["tu"] for c in all_codes):
            classes.append("tu-hit")
        if any(c not in font["tu"] for c in all_codes):
            classes.append("tu-miss")
    if src in ("ttf", "tu+ttf"):
        fmt = 0 if rnd.random() < (0.6 if nbytes == 1 else 0.15) else (2 if rnd.random() < 0.3 else 4)
        m = C.random_injective_map(rnd, fmt, all_codes)
        # platform 0 is Unicode whatever its encoding id (0 = 1.0, 1 = 1.1, 2 = ISO 10646, 3 = 2.0 BMP, 4 = 2.0 full)
        pid, eid = rnd.choice([(0, 3), (3, 1), (0, 4), (3, 1), (0, 0), (0, 1), (0, 2)])
        ttf_subtables = [(pid, eid, fmt, m)]
        if rnd.random() < 0.4:
            # a Macintosh-Roman subtable holds Mac codes, not Unicode: it does not define Unicode values
            decoy = {c: g for c, g in ((rnd.randrange(1, 256), rnd.randrange(1, 256)) for _ in range(12))}
            ttf_subtables.insert(rnd.randrange(2), (1, 0, 0, decoy))
            classes.append("ttf-mac-decoy")
        font["ttf_inv"] = {g: c for c, g in m.items()}
        classes.append("ttf-format%d" % fmt)
        if src == "ttf":
            nt = True
            if any(c in font["ttf_inv"] for c in all_codes):
                classes.append("ttf-hit")
    subtype = "CIDFontType2" if ttf_subtables is not None else draw(st.sampled_from(["CIDFontType0", "CIDFontType2"]))
    classes.append(subtype)
    w_arr, w2_arr, wnt = _widths(rnd, font, all_codes, classes)
    nt = nt or wnt
    # ---- encoding as a name or an embedded CMap stream with /CMapName
    enc_stream = None
    if draw(st.integers(0, 2)) == 0:
        enc_stream = C.encoding_cmap_stream(enc, coll, 1 if vertical else 0, nbytes)
        classes.append("enc-stream")
    size = draw(st.sampled_from(SIZES))
    x, y = draw(st.sampled_from(["0", "100", "72.5", "-20"])), draw(st.sampled_from(["0", "700", "300.25"]))
    tw = None
    if nbytes == 2 and draw(st.integers(0, 2)) == 0:
        tw = draw(st.sampled_from(["5", "-3.5", "100", "0.25"]))
        classes.append("Tw-set")
        if 32 in all_codes:
            classes.append("Tw-set+code-0020")
            nt = True
    tj = None
    if len(strings) > 1 and draw(st.integers(0, 2)) == 0:
        # the strings are shown by one TJ operator with a number between them
        tj = [draw(st.sampled_from([100, -250, 1000, 35, -1])) for _ in strings[1:]]
        classes.append("TJ-adjustment" + ("-vertical" if vertical else ""))
    pdf = _build_doc(font, W.N(enc), enc_stream, subtype, rnd, strings, size, x, y, tu_entries, ttf_subtables, w_arr, w2_arr,
                     tw=tw, tj=tj)
    desc = {"enc": enc, "coll": coll, "src": src, "size": size, "Tw": tw, "TJ": tj, "tu": tu_entries if tu_entries is None else tu_entries[:6],
            "W": _s(w_arr), "W2": _s(w2_arr),
            "DW": font["DW"], "DW2": font["DW2"]}
    return {"mode": "doc", "pdf": pdf, "font": font, "strings": strings, "size": size, "x": x, "y": y, "tj": tj,
            "classes": sorted(set(classes)), "nt": nt, "desc": desc}


_AGREE = {}


def _agree_chars(name, codec, coll):
    """Characters (ASCII letters/digits/space + the three CJK classes) for which the predefined CMap and the codec
    agree — the alphabet of the document-level predefined-CMap cases.  Generator-side only."""
    key = (name, codec)
    if key not in _AGREE:
        from pdfminer.cmapdb import CMapDB

        cm = CMapDB.get_cmap(name)
        vertical = name.endswith("-V")
        asc, cjk = [], []
        cand = [ord(c) for c in "ABCXYZabcxyz0189 "] + [cp for lo, hi in CLASSES.values() for cp in range(lo, hi)]
        for cp in cand:
            ch = chr(cp)
            try:
                b = ch.encode(codec)
            except UnicodeEncodeError:
                continue
            cid = _lookup_single(cm, b)
            if cid is None or _unichr(coll, vertical, cid) != ch:
                continue
            (asc if cp < 128 else cjk).append(ch)
        _AGREE[key] = (asc, cjk)
    return _AGREE[key]


@st.composite
def predef_cases(draw, base, codec, coll):
    from pdfminer.cmapdb import CMapDB

    rnd = random.Random(draw(st.integers(0, 2 ** 32)))
    wm = draw(st.sampled_from(["H", "V"]))
    name = "%s-%s" % (base, wm)
    vertical = wm == "V"
    asc, cjk = _agree_chars(name, codec, coll)
    classes = ["enc:predef", "predef:" + base, "coll:" + coll]
    nt = False
    nstr = draw(st.integers(1, 2))
    texts, strings = [], []
    widths = set()
    for _ in range(nstr):
        n = draw(st.integers(0, 10))
        t = ""
        for _ in range(n):
            if asc and rnd.random() < 0.35:
                t += rnd.choice(asc)
            else:
                t += rnd.choice(cjk)
        texts.append(t)
        strings.append(t.encode(codec))
        widths |= {len(ch.encode(codec)) for ch in t}
    if len(widths) > 1:
        nt = True
        classes.append("mixed-width")
    font = {"kind": "predef", "enc": name, "codec": codec, "vertical": vertical, "coll": coll, "src": "coll",
            "tu": None, "ttf_inv": None}
    cids = []
    for s in strings:
        cids += list(CMapDB.get_cmap(name).decode(s))
    tu_entries = None
    if draw(st.integers(0, 9)) == 0:
        # ToUnicode is keyed by character code (ISO 32000-1 9.10.3), whatever the encoding CMap
        codes = [int.from_bytes(ch.encode(codec), "big") for t in texts for ch in t]
        lens = sorted({len(ch.encode(codec)) for t in texts for ch in t})
        if len(lens) == 1:
            font["tu_nbytes"] = lens[0]
            top = 256 ** lens[0] - 1
            font["tu_codespaces"] = [(0, top, lens[0])]
            ents = []
            for c in dict.fromkeys(codes):
                if rnd.random() < 0.8:
                    ents.append(["char", c, C._rand_text(rnd)])
            tu_entries = ents
            font["tu"] = C.tounicode_model(ents)
            font["src"] = "tu"
            classes.append("predef+tounicode")
    w_arr, w2_arr, wnt = _widths(rnd, font, cids, classes)
    nt = nt or wnt
    subtype = draw(st.sampled_from(["CIDFontType0", "CIDFontType2"]))
    size = draw(st.sampled_from(SIZES))
    x, y = draw(st.sampled_from(["0", "100", "72.5"])), draw(st.sampled_from(["0", "700"]))
    pdf = _build_doc(font, W.N(name), None, subtype, rnd, strings, size, x, y, tu_entries, None, w_arr, w2_arr)
    desc = {"enc": name, "codec": codec, "texts": texts, "size": size, "tu": tu_entries,
            "W": _s(w_arr), "W2": _s(w2_arr),
            "DW": font["DW"], "DW2": font["DW2"]}
    # An invalid code between valid ones (ISO 32000-1 9.7.6.3): the lead byte of a two-byte character followed by a
    # byte below 0x40, which is a trail byte in none of the legacy double-byte encodings.  The first byte matches a
    # two-byte codespace range only, so two bytes are consumed (as an undefined character) and segmentation of the rest
    # goes on as if the pair were not there.
    inv = None
    if codec not in ("utf-16-be", "utf-8", "utf-32-be") and draw(st.integers(0, 2)) == 0:
        two = [ch for t in texts for ch in t if len(ch.encode(codec)) == 2]
        if two and texts[0]:
            lead = rnd.choice(two).encode(codec)[0]
            pos = rnd.randint(0, len(texts[0]))
            inv = {"pos": pos, "pair": bytes([lead, rnd.choice([0x20, 0x0A, 0x30, 0x39, 0x3F, 0x00])])}
            classes.append("predef-invalid-pair")
    return {"mode": "doc", "pdf": pdf, "font": font, "strings": strings, "texts": texts, "size": size, "x": x, "y": y,
            "classes": sorted(set(classes)), "nt": nt, "desc": desc, "inv": inv}


@st.composite
def decode_cases(draw):
    name = draw(st.sampled_from(["Identity-H", "Identity-V", "OneByteIdentityH", "OneByteIdentityV"]))
    data = draw(st.one_of(st.binary(max_size=9), st.binary(max_size=64)))
    return {"mode": "decode", "name": name, "data": data}


# --------------------------------------------------------------------------
def _blocks(step=256):
    out = []
    for k, (lo, hi) in CLASSES.items():
        a = lo
        while a < hi:
            out.append((a, min(hi, a + step)))
            a += step
    return out


def plan(tier):
    q = tier == "quick"
    specs = [{"kind": "ident", "n": 170 if q else 8000} for _ in range(12)]
    for base, codec, coll in PAIRS:
        specs.append({"kind": "predef", "base": base, "codec": codec, "coll": coll, "n": 25 if q else 1200})
    for base, codec, coll in EXTRA_PAIRS:
        specs.append({"kind": "predef", "base": base, "codec": codec, "coll": coll, "n": 0, "only": "kana"})
    specs += [{"kind": "decode", "n": 1500 if q else 50000} for _ in range(2)]
    specs += [{"kind": "cid2code", "coll": c} for c in CJK_COLLS]
    return specs


def run_shard(spec, ctx):
    k = spec["kind"]
    if k == "ident":
        return hyp_search(ctx, ident_cases(), run_case, spec["n"])
    if k == "decode":
        return hyp_search(ctx, decode_cases(), run_case, spec["n"])
    if k == "cid2code":
        cases = [{"mode": "cid2code", "coll": spec["coll"], "column": col, "name": name, "wm": wm}
                 for col in _cid2code(spec["coll"]) for name, wm in _c2c_names(col)]
        res = enum_search(ctx, cases, run_case, stop_after=3)
        res.extra["cid2code_exhaustive"] = "every code of every CMap column of cmaprsrc/cid2code_*.txt (all predefined CMaps)"
        return res
    # predefined CMap shard: exhaustive class blocks for -H and -V, then document-level cases
    res = ShardResult()
    base, codec, coll = spec["base"], spec["codec"], spec["coll"]
    for wm in ("H", "V"):
        for lo, hi in _blocks():
            if spec.get("only") and cls_of(lo) != spec["only"]:
                continue
            case = {"mode": "cjk", "cmap": "%s-%s" % (base, wm), "codec": codec, "coll": coll, "lo": lo, "hi": hi}
            out, counts = _cjk_eval(case)
            res.record(case, out)
            for ck, v in counts.items():
                key = "cjk[%s/%s] %s" % (base, codec, ck)
                res.extra[key] = res.extra.get(key, 0) + v
            if out.fail and not out.known:
                res.failures.append((case, out.fail))
                return res
    if not base.endswith("-UCS2") and not spec.get("only"):
        case = {"mode": "cjk", "cmap": base + "-V", "codec": codec, "coll": coll, "lo": 0x20, "hi": 0x10000, "vforms": 1}
        out, counts = _cjk_eval(case)
        res.record(case, out)
        for ck, v in counts.items():
            key = "cjk[%s/%s] %s" % (base, codec, ck)
            res.extra[key] = res.extra.get(key, 0) + v
        if out.fail and not out.known:
            res.failures.append((case, out.fail))
            return res
    res.extra["cjk_exhaustive"] = ("every code point of kana 3040-30FF, hangul AC00-D7A3, unified ideographs 4E00-9FFF x "
                                   "each listed CMap (-H and -V) x its codec, in both tiers")
    if spec["n"]:
        hyp_search(ctx, predef_cases(base, codec, coll), run_case, spec["n"], res=res)
    return res
