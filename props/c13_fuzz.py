#!/venv/bin/python
"""Coverage-guided campaign for C13 (atheris / libFuzzer) over whole damaged files, same oracle as props/c13.py.
usage: c13_fuzz.py <artifact dir> -runs=N -seed=S <corpus dir>       (run by props/c13.py in the thorough tier)"""
import os
import sys

HERE = os.path.dirname(os.path.dirname(os.path.abspath(__file__)))
repo = os.environ.get("VERIF_REPO", "/repo")
sys.path[:0] = [repo, HERE]
sys.path.append(os.path.join(HERE, ".deps"))

import atheris  # noqa: E402

with atheris.instrument_imports(include=["pdfminer"]):
    import pdfminer.high_level  # noqa: F401

import logging  # noqa: E402

logging.getLogger("pdfminer").setLevel(logging.CRITICAL)
from props import c13  # noqa: E402
from vlib import runner  # noqa: E402

ART = sys.argv[1]
runner.ACTIVE_KNOWN = set(filter(None, os.environ.get("VERIF_KNOWN", "").split(",")))


def TestOneInput(data):
    if len(data) > 20000:
        return
    out = c13.run_case({"seed": "raw", "data": bytes(data), "fault": {"t": "raw"}})
    if out.fail:
        with open(os.path.join(ART, "violation.txt"), "w") as f:
            f.write(out.fail)
        raise RuntimeError(out.fail)


if __name__ == "__main__":
    argv = [sys.argv[0], "-artifact_prefix=" + ART + "/"] + sys.argv[2:]
    atheris.Setup(argv, TestOneInput)
    atheris.Fuzz()
