"""C20 — geometry helpers obey affine algebra; Plane equals brute-force search."""
from fractions import Fraction as Fr

from hypothesis import strategies as st

from vlib.runner import Outcome, hyp_search

ID = "C20"
LEVEL = "exploration"
RULE = ("(a) Law cases: three matrices, a point and a rectangle with Fraction/int components (dyadic and thirds); "
        "all helper results must equal an independent 3x3 row-vector reference and satisfy associativity, identity, "
        "composition, translate_matrix == mult((1,0,0,1,v),m), norm == pt - pt(0), rect == hull of 4 corners, exactly. "
        "(b) Model-based histories: op lists add/remove/re-add of a removed object/add of a live object/find/iter/len/in on utils.Plane (drawn bounds incl. negative "
        "and fractional origins, grid 50/7/1, boxes on/across/outside grid lines and bounds) against a list model: "
        "find returns no duplicates, only live properly-overlapping objects, and every live properly-overlapping "
        "object when object and query both reach into the index bounds; iteration = live objects in insertion order. "
        "Non-trivial (b) = a find after a removal that would have matched the removed object, or an edge exactly on a "
        "grid line/bound; non-trivial (a) = all three matrices non-identity with non-zero off-diagonal terms. "
        "Distinct by case encoding.")
ASSUMPTIONS = ["add inserts a fresh object, one that was removed before, or one that is live (then nothing changes: the index is documented as set-like); remove targets a live one",
               "completeness of find is claimed only when query and object both intersect the index bounds "
               "(the index is declared to cover its bbox only)"]


# ------------------------------------------------------------------ laws
def _ref_mat(m):
    a, b, c, d, e, f = m
    return [[a, b, 0], [c, d, 0], [e, f, 1]]


def _ref_mul(A, B):
    return [[sum(A[i][k] * B[k][j] for k in range(3)) for j in range(3)] for i in range(3)]


def _ref_six(M):
    return (M[0][0], M[0][1], M[1][0], M[1][1], M[2][0], M[2][1])


def _ref_pt(m, p):
    M = _ref_mat(m)
    v = [p[0], p[1], 1]
    r = [sum(v[k] * M[k][j] for k in range(3)) for j in range(3)]
    return (r[0], r[1])


def run_law(case):
    from pdfminer import utils as U

    m1, m2, m3, p, rect = case["m1"], case["m2"], case["m3"], case["p"], case["rect"]
    I = (1, 0, 0, 1, 0, 0)
    try:
        chk = []
        chk.append(("mult_matrix vs reference", U.mult_matrix(m1, m2), _ref_six(_ref_mul(_ref_mat(m1), _ref_mat(m2)))))
        chk.append(("associativity", U.mult_matrix(U.mult_matrix(m1, m2), m3), U.mult_matrix(m1, U.mult_matrix(m2, m3))))
        chk.append(("left identity", U.mult_matrix(I, m1), tuple(m1)))
        chk.append(("right identity", U.mult_matrix(m1, I), tuple(m1)))
        chk.append(("apply_matrix_pt vs reference", U.apply_matrix_pt(m1, p), _ref_pt(m1, p)))
        chk.append(("composition", U.apply_matrix_pt(U.mult_matrix(m1, m2), p),
                    U.apply_matrix_pt(m2, U.apply_matrix_pt(m1, p))))
        chk.append(("translate_matrix", U.translate_matrix(m1, p), U.mult_matrix((1, 0, 0, 1, p[0], p[1]), m1)))
        a = U.apply_matrix_pt(m1, p)
        o = U.apply_matrix_pt(m1, (0, 0))
        chk.append(("apply_matrix_norm", U.apply_matrix_norm(m1, p), (a[0] - o[0], a[1] - o[1])))
        x0, y0, x1, y1 = rect
        cs = [_ref_pt(m1, c) for c in ((x0, y0), (x1, y0), (x1, y1), (x0, y1))]
        hull = (min(c[0] for c in cs), min(c[1] for c in cs), max(c[0] for c in cs), max(c[1] for c in cs))
        chk.append(("apply_matrix_rect", U.apply_matrix_rect(m1, rect), hull))
    except Exception as e:
        return Outcome(["law"], fail="helper raised %s: %s on %r" % (type(e).__name__, e, case))
    for name, got, exp in chk:
        if tuple(got) != tuple(exp):
            return Outcome(["law"], fail="%s: got %r expected %r (case %r)" % (name, got, exp, case))
    nt = all(m[1] != 0 and m[2] != 0 and tuple(m) != I for m in (m1, m2, m3))
    return Outcome(["law", "law-nt" if nt else "law-simple"], nt)


def _num():
    return st.one_of(
        st.integers(-8, 8),
        st.builds(lambda k, j: Fr(k, 2 ** j), st.integers(-4096, 4096), st.integers(0, 4)),
        st.builds(lambda k, d: Fr(k, d), st.integers(-50, 50), st.sampled_from([3, 5, 7, 10])),
        # far beyond and far below the size of a page (the helpers are plain affine arithmetic at every magnitude)
        st.builds(lambda k, j: Fr(k) * 2 ** j, st.integers(-9, 9), st.integers(18, 40)),
        st.builds(lambda k, j: Fr(k, 2 ** j), st.integers(-9, 9), st.integers(18, 40)),
    )


def _matrix():
    return st.one_of(
        st.tuples(*[_num()] * 6),
        st.sampled_from([(1, 0, 0, 1, 0, 0), (0, 1, -1, 0, 0, 0), (-1, 0, 0, -1, 5, 7), (0, -1, 1, 0, 3, 0),
                         (2, 0, 0, 3, 0, 0), (1, 1, 0, 1, 0, 0), (0, 0, 0, 0, 1, 1)]),
    )


def law_cases():
    return st.fixed_dictionaries({
        "kind": st.just("law"), "m1": _matrix(), "m2": _matrix(), "m3": _matrix(),
        "p": st.tuples(_num(), _num()),
        "rect": st.tuples(_num(), _num(), _num(), _num()).map(
            lambda r: (min(r[0], r[2]), min(r[1], r[3]), max(r[0], r[2]), max(r[1], r[3]))),
    })


# ------------------------------------------------------------------ Plane histories
class Box:
    __slots__ = ("x0", "y0", "x1", "y1", "id")

    def __init__(self, b, i):
        self.x0, self.y0, self.x1, self.y1 = b
        self.id = i

    def __repr__(self):
        return "Box%d(%s,%s,%s,%s)" % (self.id, self.x0, self.y0, self.x1, self.y1)


def _overlap(o, q):
    return not (o[2] <= q[0] or q[2] <= o[0] or o[3] <= q[1] or q[3] <= o[1])


def _reaches(b, bounds):
    return not (b[2] <= bounds[0] or bounds[2] <= b[0] or b[3] <= bounds[1] or bounds[3] <= b[1])


def run_hist(case):
    from pdfminer.utils import Plane

    bounds, grid, ops = case["bounds"], case["grid"], case["ops"]
    classes = ["hist"] + (["long-history"] if case.get("long") else [])
    nt = bool(case.get("long"))
    plane = Plane(tuple(bounds), grid)
    seq = []  # model: insertion-ordered (Box, live flag)
    removed_boxes = []

    def on_line(b):
        for v, lo in ((b[0], bounds[0]), (b[2], bounds[0]), (b[1], bounds[1]), (b[3], bounds[1])):
            if v % grid == 0:
                return True
        return b[0] in (bounds[0], bounds[2]) or b[2] in (bounds[0], bounds[2]) or b[1] in (bounds[1], bounds[3]) \
            or b[3] in (bounds[1], bounds[3])

    try:
        for step, op in enumerate(ops):
            k = op[0]
            if k == "add":
                bx = Box(op[1], len(seq))
                if len(op) > 2 and op[2]:
                    plane.extend(iter([bx]))
                else:
                    plane.add(bx)
                seq.append([bx, True, tuple(op[1])])
                if on_line(op[1]):
                    nt = True
            elif k == "remove":
                live = [e for e in seq if e[1]]
                if not live:
                    continue
                e = live[op[1] % len(live)]
                plane.remove(e[0])
                e[1] = False
                removed_boxes.append(e[2])
                classes.append("remove")
            elif k == "addlive":
                # placing an object that is already placed changes nothing (the index is set-like)
                live = [e for e in seq if e[1]]
                if not live:
                    continue
                e = live[op[1] % len(live)]
                if len(op) > 2 and op[2]:
                    plane.extend([e[0]])
                else:
                    plane.add(e[0])
                classes.append("add-of-live-object")
                nt = True
            elif k == "readd":
                # an object that was removed is inserted again: live once more, and the most recently inserted
                dead = [e for e in seq if not e[1]]
                if not dead:
                    continue
                e = dead[op[1] % len(dead)]
                if len(op) > 2 and op[2]:
                    plane.extend([e[0]])  # the bulk form of add
                    classes.append("re-add-via-extend")
                else:
                    plane.add(e[0])
                seq.remove(e)
                e[1] = True
                seq.append(e)
                if e[2] in removed_boxes:
                    removed_boxes.remove(e[2])
                classes.append("re-add")
                nt = True
            elif k in ("find", "findtouch"):
                if k == "findtouch":
                    # a query box that shares one whole edge with a live object (they touch, they do not overlap) and
                    # extends a, b, c grid units around / away from it
                    live = [e for e in seq if e[1]]
                    if not live:
                        continue
                    (x0, y0, x1, y1) = live[op[1] % len(live)][2]
                    a, b, c = (v * grid for v in op[3])
                    q = {"top": (x0 - a, y1, x1 + b, y1 + c), "bottom": (x0 - a, y0 - c, x1 + b, y0),
                         "right": (x1, y0 - a, x1 + c, y1 + b), "left": (x0 - c, y0 - a, x0, y1 + b)}[op[2]]
                    classes.append("find-touching")
                    nt = True
                else:
                    q = tuple(op[1])
                got = list(plane.find(q))
                ids = [g.id for g in got]
                if len(set(ids)) != len(ids):
                    return Outcome(classes, nt, fail="step %d find%r returned duplicates %r" % (step, q, got))
                may = {e[0].id for e in seq if e[1] and _overlap(e[2], q)}
                must = {e[0].id for e in seq if e[1] and _overlap(e[2], q) and _reaches(e[2], bounds)
                        and _reaches(q, bounds)}
                extra = set(ids) - may
                if extra:
                    return Outcome(classes, nt, fail="step %d find%r returned %r which are removed or do not overlap "
                                   "(bounds %r grid %r)" % (step, q, sorted(extra), bounds, grid))
                missing = must - set(ids)
                if missing:
                    miss = [e for e in seq if e[0].id in missing]
                    return Outcome(classes, nt, fail="step %d find%r missed live overlapping %r (bounds %r grid %r)" % (
                        step, q, [m[0] for m in miss], bounds, grid))
                if any(_overlap(r, q) and _reaches(r, bounds) and _reaches(q, bounds) for r in removed_boxes):
                    nt = True
                    classes.append("find-after-matching-removal")
                if on_line(q):
                    nt = True
            elif k == "iter":
                got = [g.id for g in plane]
                exp = [e[0].id for e in seq if e[1]]
                if got != exp:
                    return Outcome(classes, nt, fail="step %d iteration %r != live objects in insertion order %r" % (
                        step, got, exp))
            elif k == "len":
                if len(plane) != sum(1 for e in seq if e[1]):
                    return Outcome(classes, nt, fail="step %d len %d != %d" % (step, len(plane), sum(1 for e in seq if e[1])))
            elif k == "in":
                if not seq:
                    continue
                e = seq[op[1] % len(seq)]
                if (e[0] in plane) != e[1]:
                    return Outcome(classes, nt, fail="step %d `in` says %r for %r (live=%r)" % (step, e[0] in plane, e[0], e[1]))
    except Exception as e:
        return Outcome(classes, nt, fail="Plane raised %s: %s (case %r)" % (type(e).__name__, e, case))
    return Outcome(sorted(set(classes)), nt)


@st.composite
def hist_cases(draw, steps):
    grid = draw(st.sampled_from([50, 50, 7, 1]))
    frac = st.sampled_from([Fr(0), Fr(1, 2), Fr(-1, 2), Fr(1, 4), Fr(1), Fr(-1), Fr(3, 10), Fr(-7, 10)])
    org = st.one_of(st.just(0), st.integers(-3, 3).map(lambda k: k * grid), st.integers(-120, 120))
    bx0 = draw(org) + draw(frac)
    by0 = draw(org) + draw(frac)
    w = draw(st.integers(1, 6)) * grid + draw(frac) + 1
    h = draw(st.integers(1, 6)) * grid + draw(frac) + 1
    bounds = (bx0, by0, bx0 + w, by0 + h)
    xs = st.one_of(
        st.builds(lambda k, f: k * grid + f, st.integers(-4, 9), frac),
        st.sampled_from([bounds[0], bounds[2], 0]).flatmap(lambda v: frac.map(lambda f: v + f)),
        st.builds(lambda k: Fr(k, 4), st.integers(-8 * grid, 40 * grid)),
    )
    ys = st.one_of(
        st.builds(lambda k, f: k * grid + f, st.integers(-4, 9), frac),
        st.sampled_from([bounds[1], bounds[3], 0]).flatmap(lambda v: frac.map(lambda f: v + f)),
        st.builds(lambda k: Fr(k, 4), st.integers(-8 * grid, 40 * grid)),
    )
    box = st.tuples(xs, ys, xs, ys).map(lambda r: (min(r[0], r[2]), min(r[1], r[3]), max(r[0], r[2]), max(r[1], r[3])))
    op = st.one_of(
        st.tuples(st.just("add"), box), st.tuples(st.just("add"), box, st.booleans()),
        st.tuples(st.just("remove"), st.integers(0, 1000)), st.tuples(st.just("readd"), st.integers(0, 1000), st.booleans()),
        st.tuples(st.just("addlive"), st.integers(0, 1000), st.booleans()),
        st.tuples(st.just("find"), box), st.tuples(st.just("find"), box),
        st.tuples(st.just("findtouch"), st.integers(0, 1000), st.sampled_from(["top", "bottom", "left", "right"]),
                  st.tuples(st.integers(0, 3), st.integers(0, 3), st.integers(1, 3))),
        st.tuples(st.just("iter")), st.tuples(st.just("len")), st.tuples(st.just("in"), st.integers(0, 1000)),
    )
    if draw(st.integers(0, 7)) == 0:
        # a plane of 40 x 40 cells and boxes covering 1, 2, 4, 8, 16 or 32 cells per side (4 .. 1024 cells in all): cell
        # counts at and around the powers of two that an implementation might treat specially
        g = draw(st.sampled_from([1, 7, 50]))
        big = (Fr(0), Fr(0), Fr(40 * g), Fr(40 * g))
        side = st.sampled_from([1, 2, 4, 8, 16, 32, 15, 17])

        def cellbox(i, j, kx, ky):
            x0, y0 = Fr(i * g) + Fr(g, 2), Fr(j * g) + Fr(g, 2)
            return (x0, y0, x0 + (kx - 1) * g + Fr(g, 4), y0 + (ky - 1) * g + Fr(g, 4))

        cb = st.builds(cellbox, st.integers(0, 7), st.integers(0, 7), side, side)
        ops = []
        for _ in range(draw(st.integers(2, 6))):
            ops.append(("add", draw(cb)))
        ops.append(("find", big))
        for _ in range(draw(st.integers(1, 4))):
            ops.append(("remove", draw(st.integers(0, 1000))))
            ops.append(("find", draw(cb)))
            ops.append(("find", big))
        ops += [("iter",), ("len",)]
        return {"kind": "hist", "bounds": big, "grid": g, "ops": ops, "long": True}
    if draw(st.integers(0, 5)) == 0:
        # a long history: dozens of insertions, then more removals than survivors, then iteration and queries (state
        # that only changes after many operations)
        n = draw(st.integers(36, 90))
        m = draw(st.integers(33, n - 2))
        ops = [("add", draw(box)) for _ in range(n)]
        ops += [("remove", draw(st.integers(0, 1000))) for _ in range(m)]
        ops += [("iter",), ("find", draw(box)), ("add", draw(box)), ("iter",), ("len",)]
        ops += draw(st.lists(op, max_size=6))
        ops.append(("iter",))
        return {"kind": "hist", "bounds": bounds, "grid": grid, "ops": ops, "long": True}
    ops = draw(st.lists(op, min_size=1, max_size=steps))
    return {"kind": "hist", "bounds": bounds, "grid": grid, "ops": ops}


def run_case(case):
    return run_law(case) if case["kind"] == "law" else run_hist(case)


def plan(tier):
    q = tier == "quick"
    specs = [{"kind": "law", "n": 1500 if q else 40000} for _ in range(8)]
    specs += [{"kind": "hist", "n": 250 if q else 8000, "steps": 30 if q else 60} for _ in range(16)]
    return specs


def run_shard(spec, ctx):
    if spec["kind"] == "law":
        return hyp_search(ctx, law_cases(), run_case, spec["n"])
    return hyp_search(ctx, hist_cases(spec["steps"]), run_case, spec["n"])
