"""C18 — Images: exported files and inline image data reproduce the samples exactly."""
import html
import io
import os
import random
import re
import shutil
import tempfile
from collections import Counter

from hypothesis import strategies as st

from vlib import bmpread as B
from vlib import filters as F
from vlib import pdfwrite as W
from vlib.runner import Outcome, hyp_search

ID = "C18"
LEVEL = "exploration"
RULE = ("Hypothesis draws one- or two-page documents.  mode=export: 1-4 images (DeviceGray 8-bit, DeviceRGB 8-bit, "
        "1-bit DeviceGray; width/height 1-40 weighted to 1,3,5,7,8,9,31,32,33,40; samples random/ramp/sparse with junk "
        "pad bits) stored unfiltered, behind 1-2 lossless filters (ASCIIHex/ASCII85/LZW/Flate/RunLength, harness "
        "encoders with free choices) or as /DCTDecode with an arbitrary-byte payload optionally behind an ASCII "
        "filter; painted 1-6 times with `Do` from the page and from (nested) form XObjects under resource names "
        "from a small pool so that equal names for different images and repeated paintings occur, and as inline "
        "images (BI .. ID <1 ws byte> data EOL EI).  extract_text_to_fp(output_dir=tmp) must write exactly one file "
        "per painting; the multiset of files (every .bmp decoded by vlib/bmpread.py, a strict reader written from "
        "the BMP format: headers, sizes, palette, bottom-up rows, 4-byte stride, BGR; .jpg compared byte for byte) "
        "must equal the multiset of painted images (pixels as RGB triples: gray v -> (v,v,v), 1-bit s -> 255*s).  "
        "mode=inline: 1-3 inline images (abbreviated or full keys in shuffled order, /G /RGB, 1- or 8-bit; data of "
        "the declared size made of random bytes with E, I, EI<non-ws>, CR, LF, CRLF, BI, ID, ~>, parentheses patched "
        "in and first/last byte forced to CR/LF/E/I, never containing EI followed by white space; unfiltered or "
        "behind AHx/A85/Fl/LZW/RL) interleaved with BT /F1 n Tf x y Td (..) Tj ET blocks (at least one after the "
        "last image), on the page (in one content stream or divided over a /Contents array between items) or inside a form.  extract_pages: the LTImage sequence has one item per inline "
        "image with get_data() = data (+ at most the writer's EOL when unfiltered; exact when filtered), srcsize, "
        "bits, colorspace as written, and the LTChar sequence (text, bbox, font, size) equals that of the same "
        "program with the inline images removed.  PSBaseParser.BUFSIZ drawn from {4096,64,16,7,5} in both modes.  "
        "Non-trivial = some image with width*bits not a multiple of 32, >= 2 rows, unfiltered or 2-filter chain, two "
        "paintings sharing a resource name, or inline data containing E/I/EOL bytes or ending in CR/LF.  "
        "Distinct by file bytes + BUFSIZ.")
ASSUMPTIONS = [
    "vlib/bmpread.py implements the BMP layout (BITMAPFILEHEADER/BITMAPINFOHEADER, BI_RGB, 1/8/24 bpp) and is "
    "validated at start-up against a published 2x2 example file and an independent reference writer",
    "harness filter encoders are validated at start-up against independent decoders (vlib/filters.py)",
    "inline images: exactly one white-space byte (SP/LF/CR/HT/FF) after ID; an EOL (LF, CR or CRLF) between data and "
    "EI; white space after EI; data never contains EI followed by a PDF white-space byte or VT",
    "a bare LF is not used as the EOL after unfiltered inline data that ends in CR: the bytes `..CR LF EI` are also "
    "the spelling of the data without the CR followed by a CRLF end-of-line, so no reader can tell them apart",
    "DCT images declare 8-bit DeviceGray/DeviceRGB (DeviceCMYK JPEG export needs Pillow and is outside the statement)",
]

SIZES = [1, 1, 2, 3, 3, 4, 5, 7, 8, 9, 12, 15, 16, 17, 24, 31, 32, 33, 40]
BUFS = [4096, 4096, 64, 16, 7, 5]
LOSSLESS = list(F.FILTERS)  # full names
NAME_POOL = ["Im0", "Im0", "Im1", "X", "Im0.0", "img-2", "A.b"]
WS_AFTER_ID = [b" ", b" ", b"\n", b"\r", b"\t", b"\x0c"]
EOLS = [b"\n", b"\n", b"\r", b"\r\n"]
END_MARK = re.compile(rb"EI[\x00\t\n\x0b\x0c\r ]")


def selfcheck():
    B.selfcheck()
    F.selfcheck()
    F.selfcheck_lzw()
    # sample <-> pixel conversion against a hand-written example
    assert expected_rgb("gray1", 10, 1, bytes([0b10100000, 0b01111111])) == \
        bytes([255] * 3 + [0] * 3 + [255] * 3 + [0] * 15 + [0] * 3 + [255] * 3)
    assert expected_rgb("gray8", 2, 1, bytes([7, 9])) == bytes([7, 7, 7, 9, 9, 9])
    assert expected_rgb("rgb8", 1, 2, bytes([1, 2, 3, 4, 5, 6])) == bytes([1, 2, 3, 4, 5, 6])
    assert sanitize_inline(b"aEI bEI", b"\n") == b"aEIxbEJ"
    assert sanitize_inline(b"EI\x00", b"\r\n") == b"EIx"


# --------------------------------------------------------------------------
# samples
# --------------------------------------------------------------------------
def row_bytes(kind, w):
    return {"gray8": w, "rgb8": 3 * w, "gray1": (w + 7) // 8}[kind]


def kind_bits(kind):
    return 1 if kind == "gray1" else 8


def kind_bmp_bits(kind):
    return {"gray8": 8, "rgb8": 24, "gray1": 1}[kind]


def expected_rgb(kind, w, h, data):
    """Stored PDF samples -> the picture as flattened RGB triples, top row first."""
    rb = row_bytes(kind, w)
    assert len(data) == rb * h, (kind, w, h, len(data))
    out = bytearray()
    for y in range(h):
        row = data[y * rb:(y + 1) * rb]
        if kind == "rgb8":
            out += row
        elif kind == "gray8":
            for v in row:
                out += bytes((v, v, v))
        else:
            for x in range(w):
                s = (row[x >> 3] >> (7 - (x & 7))) & 1
                out += bytes((255 * s,)) * 3
    return bytes(out)


def sanitize_inline(data, eol):
    """Make `data` free of the end marker: no `EI` followed by white space inside data + eol."""
    data = bytearray(data)
    while True:
        m = END_MARK.search(bytes(data) + eol)
        if not m:
            return bytes(data)
        k = m.start() + 2
        if k < len(data):
            data[k] = 0x78  # the white-space byte -> 'x'
        else:
            data[m.start() + 1] = 0x4A  # data ends in EI: -> 'EJ'


# --------------------------------------------------------------------------
# document writer
# --------------------------------------------------------------------------
FONT_OBJS = {
    5: W.D(Type=W.N("Font"), Subtype=W.N("Type1"), BaseFont=W.N("Foo"), FirstChar=32, LastChar=126,
           Widths=[500] * 95, Encoding=W.N("WinAnsiEncoding"), FontDescriptor=W.R(6)),
    6: W.D(Type=W.N("FontDescriptor"), FontName=W.N("Foo"), Flags=32, FontBBox=[0, -200, 1000, 800], ItalicAngle=0,
           Ascent=800, Descent=-200, CapHeight=700, StemV=80),
}


def build_doc(pages, xobjs):
    """pages: list of (content bytes, {xobject name(str): object number}); xobjs: {object number: Stream value}."""
    objs = {1: W.D(Type=W.N("Catalog"), Pages=W.R(2))}
    kids = []
    for i, (content, names) in enumerate(pages):
        pn, cn = 10 + 2 * i, 11 + 2 * i
        res = {b"Font": {b"F1": W.R(5)}}
        if names:
            res[b"XObject"] = {k.encode("latin-1"): W.R(v) for k, v in names.items()}
        if isinstance(content, list):
            # the page's content divided over several streams (ISO 32000-1 7.8.2: at token boundaries)
            refs = []
            for j, part in enumerate(content):
                objs[200 + 20 * i + j] = W.Stream({}, part)
                refs.append(W.R(200 + 20 * i + j))
            objs[pn] = W.D(Type=W.N("Page"), Parent=W.R(2), MediaBox=[0, 0, 612, 792], Resources=res, Contents=refs)
        else:
            objs[pn] = W.D(Type=W.N("Page"), Parent=W.R(2), MediaBox=[0, 0, 612, 792], Resources=res, Contents=W.R(cn))
            objs[cn] = W.Stream({}, content)
        kids.append(W.R(pn))
    objs[2] = W.D(Type=W.N("Pages"), Kids=kids, Count=len(kids))
    objs.update(FONT_OBJS)
    objs.update(xobjs)
    return W.build_pdf(objs)


def image_xobject(im):
    d = W.D(Type=W.N("XObject"), Subtype=W.N("Image"), Width=im["w"], Height=im["h"],
            ColorSpace=W.N("DeviceRGB" if im["kind"] == "rgb8" else "DeviceGray"), BitsPerComponent=kind_bits(im["kind"]))
    chain = im["chain"]
    if chain:
        d[b"Filter"] = W.N(chain[0]) if len(chain) == 1 and im["single_name"] else [W.N(f) for f in chain]
    return W.Stream(d, im["encoded"])


def form_xobject(content, names):
    d = W.D(Type=W.N("XObject"), Subtype=W.N("Form"), BBox=[0, 0, 100, 100])
    res = {}
    if names:
        res[b"XObject"] = {k.encode("latin-1"): W.R(v) for k, v in names.items()}
    d[b"Resources"] = res if res else {b"ProcSet": [W.N("PDF")]}
    return W.Stream(d, content)


ABBR_KEY = {"Width": "W", "Height": "H", "BitsPerComponent": "BPC", "ColorSpace": "CS", "Filter": "F", "ImageMask": "IM"}
ABBR_CS = {"DeviceGray": "G", "DeviceRGB": "RGB"}
ABBR_FILTER = {"ASCIIHexDecode": "AHx", "ASCII85Decode": "A85", "LZWDecode": "LZW", "FlateDecode": "Fl",
               "RunLengthDecode": "RL", "DCTDecode": "DCT"}


def inline_image_bytes(im, rnd):
    """`BI <pairs> ID<ws><data><eol>EI` for an inline image description (see inline_defs)."""
    abbr = im["abbr"]
    pairs = [("Width", b"%d" % im["w"]), ("Height", b"%d" % im["h"]), ("BitsPerComponent", b"%d" % kind_bits(im["kind"])),
             ("ColorSpace", b"/" + im["cs_written"].encode())]
    if im.get("mask"):
        pairs = pairs[:2] + ([pairs[2]] if im["mask"] == "bpc" else []) + [("ImageMask", b"true")]
    if im["chain"]:
        names = [b"/" + (ABBR_FILTER[f] if im["abbr_filter"] else f).encode() for f in im["chain"]]
        pairs.append(("Filter", names[0] if len(names) == 1 and im["single_name"] else b"[" + b" ".join(names) + b"]"))
    rnd.shuffle(pairs)
    out = bytearray(b"BI")
    for k, v in pairs:
        out += rnd.choice([b" ", b" ", b"\n", b"  ", b"\r\n"])
        out += b"/" + (ABBR_KEY[k] if abbr else k).encode()
        out += rnd.choice([b" ", b" ", b"\n", b""]) if v[:1] in b"/[" else rnd.choice([b" ", b"\n"])
        out += v
    out += rnd.choice([b" ", b"\n", b"\r\n"]) + b"ID" + im["ws_after_id"] + im["encoded"] + im["eol"] + b"EI"
    return bytes(out)


def text_block(rnd):
    s = "".join(rnd.choice("abcdefghijklmnopqrstuvwxyzEI0123456789") for _ in range(rnd.randint(1, 5)))
    return b"BT /F1 %d Tf %d %d Td (%s) Tj ET" % (rnd.choice([12, 12, 9, 20]), rnd.randint(0, 500), rnd.randint(0, 700),
                                                 s.encode())


# --------------------------------------------------------------------------
# oracle
# --------------------------------------------------------------------------
def _with_bufsiz(b, fn):
    from pdfminer.psparser import PSBaseParser

    old = PSBaseParser.BUFSIZ
    PSBaseParser.BUFSIZ = b
    try:
        return fn()
    finally:
        PSBaseParser.BUFSIZ = old


def _export(pdf):
    from pdfminer.high_level import extract_text_to_fp

    base = tempfile.mkdtemp(prefix="c18-")
    try:
        out = os.path.join(base, "img")
        extract_text_to_fp(io.BytesIO(pdf), io.StringIO(), output_dir=out)
        files = {}
        if os.path.isdir(out):
            for fn in sorted(os.listdir(out)):
                with open(os.path.join(out, fn), "rb") as f:
                    files[fn] = f.read()
        # second run through the XML converter: the names it reports must identify the files
        out2 = os.path.join(base, "img2")
        fp = io.StringIO()
        extract_text_to_fp(io.BytesIO(pdf), fp, output_type="xml", codec=None, output_dir=out2)
        srcs = [html.unescape(m) for m in re.findall(r'<image src="([^"]*)"', fp.getvalue())]
        files2 = {}
        if os.path.isdir(out2):
            for fn in sorted(os.listdir(out2)):
                with open(os.path.join(out2, fn), "rb") as f:
                    files2[fn] = f.read()
        files["\0xml"] = (srcs, files2)
        return files
    finally:
        shutil.rmtree(base, ignore_errors=True)


def _walk(pdf):
    """-> (LTChar list, LTImage list) in tree order over all pages."""
    from pdfminer.high_level import extract_pages
    from pdfminer.layout import LTChar, LTContainer, LTImage

    chars, images = [], []

    def rec(o):
        if isinstance(o, LTImage):
            images.append(o)
        elif isinstance(o, LTChar):
            chars.append((o.get_text(), tuple(o.bbox), o.fontname, o.size))
        elif isinstance(o, LTContainer):
            for x in o:
                rec(x)

    for page in extract_pages(io.BytesIO(pdf)):
        rec(page)
    return chars, images


def _describe(e):
    if e["fmt"] == "jpg":
        return "jpg payload of %d bytes (chain %s, %s)" % (len(e["data"]), e["chain"], e["where"])
    return "%s %dx%d (chain %s, %s)" % (e["kind"], e["w"], e["h"], e["chain"] or "none", e["where"])


def _check_export(case, classes, nt):
    expect = case["expect"]
    try:
        files = _with_bufsiz(case["bufsiz"], lambda: _export(case["pdf"]))
    except Exception as e:
        import traceback

        tb = traceback.extract_tb(e.__traceback__)[-1]
        return Outcome(classes, nt, fail="export raised %s: %s at %s:%d (%s); images: %s" % (
            type(e).__name__, e, os.path.basename(tb.filename), tb.lineno, tb.line,
            "; ".join(_describe(x) for x in expect)))
    srcs, files2 = files.pop("\0xml")
    if len(srcs) != len(expect) or len(set(srcs)) != len(srcs) or any(n not in files2 for n in srcs):
        return Outcome(classes, nt, fail="XML output names the exported images %r; files written: %r; %d distinct images were "
                       "painted: %s" % (srcs, sorted(files2), len(expect), "; ".join(_describe(x) for x in expect)))
    for src, e in zip(srcs, expect):
        data = files2[src]
        if e["fmt"] == "jpg":
            ok = data == e["data"]
        else:
            try:
                bm = B.read_bmp(data)
                ok = (bm.width, bm.height) == (e["w"], e["h"]) and b"".join(bytes(p) for row in bm.pixels for p in row) == \
                    expected_rgb(e["kind"], e["w"], e["h"], e["data"])
            except B.BMPError:
                ok = False
        if not ok:
            return Outcome(classes, nt, fail="the file %r that the XML output names for image #%d does not hold that image (%s); "
                           "names=%r" % (src, srcs.index(src), _describe(e), srcs))
    want = Counter()
    for e in expect:
        if e["fmt"] == "jpg":
            want[("jpg", e["data"])] += 1
        else:
            want[("bmp", e["w"], e["h"], expected_rgb(e["kind"], e["w"], e["h"], e["data"]))] += 1
    got = Counter()
    decoded = {}
    for fn, data in files.items():
        ext = fn.rsplit(".", 1)[-1].lower()
        if ext == "bmp":
            try:
                bm = B.read_bmp(data)
            except B.BMPError as err:
                return Outcome(classes, nt, fail="exported %s (%d bytes) is not a well-formed BMP: %s; images: %s" % (
                    fn, len(data), err, "; ".join(_describe(x) for x in expect)))
            key = ("bmp", bm.width, bm.height, b"".join(bytes(p) for row in bm.pixels for p in row))
            decoded[fn] = (bm, key)
        elif ext == "jpg":
            key = ("jpg", data)
        else:
            return Outcome(classes, nt, fail="unexpected export %s (%d bytes) for images: %s" % (
                fn, len(data), "; ".join(_describe(x) for x in expect)))
        got[key] += 1
    if len(files) != len(expect):
        return Outcome(classes, nt, fail="%d image paintings but %d files written (%s); images: %s" % (
            len(expect), len(files), sorted(files), "; ".join(_describe(x) for x in expect)))
    if got != want:
        missing = list((want - got).elements())
        extra = list((got - want).elements())
        m = missing[0]
        msg = "no exported file reproduces %s" % next(
            _describe(e) for e in expect
            if (e["fmt"] == "jpg" and m == ("jpg", e["data"])) or
            (e["fmt"] == "bmp" and m[0] == "bmp" and m[1:3] == (e["w"], e["h"]) and
             m[3] == expected_rgb(e["kind"], e["w"], e["h"], e["data"])))
        # closest candidate among the unmatched files
        for x in extra:
            if x[0] == m[0] == "bmp" and x[1:3] == m[1:3]:
                i = next(k for k in range(len(m[3])) if m[3][k] != x[3][k])
                px = i // 3
                msg += "; a %dx%d BMP differs first at pixel (x=%d, y=%d): file has RGB %r, samples say %r" % (
                    x[1], x[2], px % x[1], px // x[1], tuple(x[3][3 * px:3 * px + 3]), tuple(m[3][3 * px:3 * px + 3]))
                break
            if x[0] == m[0] == "jpg":
                msg += "; a .jpg has %d bytes %r.., payload has %d bytes %r.." % (len(x[1]), x[1][:20], len(m[1]), m[1][:20])
                break
        else:
            msg += "; unmatched files: %s" % [(x[0],) + (x[1:3] if x[0] == "bmp" else (len(x[1]),)) for x in extra]
        return Outcome(classes, nt, fail=msg + "; files=%s" % sorted(files))
    return Outcome(classes, nt, sample=case.get("desc"))


def _check_inline(case, classes, nt):
    from pdfminer.psparser import literal_name

    b = case["bufsiz"]
    try:
        chars, images = _with_bufsiz(b, lambda: _walk(case["pdf"]))
        datas = [im.stream.get_data() for im in images]
        chars0, images0 = _with_bufsiz(b, lambda: _walk(case["pdf_plain"]))
    except Exception as e:
        return Outcome(classes, nt, fail="extract_pages raised %s: %s; content=%r" % (type(e).__name__, e, case["content"][:400]))
    if images0:
        raise AssertionError("harness: the program without inline images produced images")
    inl = case["inline"]
    if len(images) != len(inl):
        return Outcome(classes, nt, fail="%d inline images written, %d LTImage items found; content=%r" % (
            len(inl), len(images), case["content"][:400]))
    for k, (w, im, got) in enumerate(zip(inl, images, datas)):
        where = "inline image %d (%s %dx%d, eol %r, chain %s)" % (k, w["kind"], w["w"], w["h"], w["eol"], w["chain"] or "none")
        data = w["data"]
        if w["chain"]:
            ok = got == data
        else:
            ok = got.startswith(data) and (data + w["eol"]).startswith(got)
        if not ok:
            i = next((j for j in range(min(len(got), len(data))) if got[j] != data[j]), min(len(got), len(data)))
            return Outcome(classes, nt, fail="%s: get_data() returned %d bytes, written %d; first difference at %d: got %r, "
                                             "written %r" % (where, len(got), len(data), i, got[max(0, i - 4):i + 8],
                                                             data[max(0, i - 4):i + 8]))
        try:
            attrs = (tuple(im.srcsize), im.bits, [literal_name(c) for c in im.colorspace])
        except Exception as e:
            return Outcome(classes, nt, fail="%s: attributes unreadable: %s: %s" % (where, type(e).__name__, e))
        exp = ((w["w"], w["h"]), kind_bits(w["kind"]), [w["cs_written"]])
        if w.get("mask"):
            if not im.imagemask:
                return Outcome(classes, nt, fail="%s: written as a stencil mask, LTImage.imagemask is %r" % (where, im.imagemask))
            attrs, exp = attrs[:2], exp[:2]
        if attrs != exp:
            return Outcome(classes, nt, fail="%s: (srcsize, bits, colorspace) = %r, written %r" % (where, attrs, exp))
    if chars != chars0:
        i = next((j for j in range(min(len(chars), len(chars0))) if chars[j] != chars0[j]), min(len(chars), len(chars0)))
        return Outcome(classes, nt, fail="glyphs differ from the program without the inline images: %d vs %d glyphs, first "
                                         "difference at %d: %r vs %r; content=%r" % (
                                             len(chars), len(chars0), i, chars[i:i + 1], chars0[i:i + 1], case["content"][:400]))
    if len(chars0) != case["nglyphs"]:
        return Outcome(classes, nt, fail="program shows %d glyphs, %d were extracted (also without images)" % (
            case["nglyphs"], len(chars0)))
    return Outcome(classes, nt, sample=case.get("desc"))


def run_case(case):
    classes = ["mode:" + case["mode"], "bufsiz:%d" % case["bufsiz"]] + list(case.get("classes", []))
    nt = bool(case.get("nt"))
    if case["mode"] == "export":
        return _check_export(case, classes, nt)
    return _check_inline(case, classes, nt)


# --------------------------------------------------------------------------
# generation
# --------------------------------------------------------------------------
def _dim(draw, small=False):
    if small:
        return draw(st.one_of(st.integers(1, 6), st.sampled_from(SIZES)))
    return draw(st.one_of(st.sampled_from(SIZES), st.integers(1, 40)))


def _samples(rnd, kind, w, h, style):
    rb = row_bytes(kind, w)
    n = rb * h
    if style == 0:
        return bytes(rnd.randrange(256) for _ in range(n))
    if style == 1:
        a, s = rnd.randrange(256), rnd.choice([1, 3, 7, 17, 85])
        return bytes((a + i * s) & 255 for i in range(n))
    if style == 2:  # each row constant, rows different
        # (runs of the byte values that are lengths / markers in the run-length, LZW and ASCII encodings)
        return b"".join(bytes([rnd.choice([rnd.randrange(256), rnd.randrange(256), 0x80, 0x80, 0x7F, 0x81, 0xFF, 0x00])]) * rb
                        for _ in range(h))
    d = bytearray(n)  # sparse
    for _ in range(1 + n // 8):
        d[rnd.randrange(n)] = rnd.choice([1, 255, 0x80, 0x45, 0x49, 10, 13])
    return bytes(d)


def _encode_chain(chain, data, rnd):
    for name in reversed(chain):
        data = F.FILTERS[name][0](data, rnd)
    return data


def _inline_safe(encoded, eol):
    """True if no reader scanning for the end of the inline data (EI delimited by white space) can stop early."""
    return END_MARK.search(encoded + eol) is None


@st.composite
def image_def(draw, rnd, inline, adversarial=False):
    """One image: samples + storage.  `inline`: to be written as BI..ID..EI; `adversarial`: patch scanner-relevant bytes."""
    kind = draw(st.sampled_from(["gray8", "rgb8", "gray1"]))
    w = _dim(draw)
    h = _dim(draw, small=True)
    storage = draw(st.sampled_from(["raw", "raw", "chain", "chain", "dct"] if not adversarial else
                                   ["raw", "raw", "raw", "chain"]))
    im = {"kind": kind, "w": w, "h": h, "chain": [], "single_name": draw(st.booleans()), "fmt": "bmp", "inline": inline}
    if storage == "dct":
        if kind == "gray1":
            im["kind"] = kind = draw(st.sampled_from(["gray8", "rgb8"]))
        n = draw(st.one_of(st.integers(0, 40), st.integers(0, 300)))
        payload = bytes(rnd.randrange(256) for _ in range(n))
        if draw(st.booleans()):
            payload = (b"\xff\xd8\xff\xe0\x00\x10JFIF\x00" + payload)[:max(n, 4)] + b"\xff\xd9"
        # bytes a careless pass-through could drop or alter
        payload += draw(st.sampled_from([b"", b"", b"\n", b"\r", b"\r\n", b"\x00", b" ", b">", b"~>"]))
        data = payload
        im["fmt"] = "jpg"
        pre = draw(st.sampled_from([None, None, "ASCIIHexDecode", "ASCII85Decode"]))
        im["chain"] = ([pre] if pre else []) + ["DCTDecode"]
    else:
        data = _samples(rnd, kind, w, h, draw(st.integers(0, 3)))
        if storage == "chain":
            im["chain"] = draw(st.lists(st.sampled_from(LOSSLESS), min_size=1, max_size=2))
    im["eol"] = b""
    if inline:
        im["abbr"] = draw(st.integers(0, 5)) > 0  # ISO 32000-1 8.9.7: abbreviations MAY replace the full keys
        im["abbr_filter"] = draw(st.booleans()) if draw(st.booleans()) else im["abbr"]  # Table 94 value abbreviations
        im["abbr_cs"] = draw(st.booleans()) if draw(st.booleans()) else im["abbr"]
        im["ws_after_id"] = draw(st.sampled_from(WS_AFTER_ID))
        if kind == "gray1" and draw(st.integers(0, 2)) == 0:
            # a stencil mask: /ImageMask (IM) true, no colour space, /BitsPerComponent optional (1 by definition)
            im["mask"] = draw(st.sampled_from(["bpc", "nobpc", "nobpc"]))
        eol = draw(st.sampled_from(EOLS))
        if adversarial and im["fmt"] == "bmp":
            d = bytearray(data)
            for _ in range(draw(st.integers(0, 4))):
                snip = draw(st.sampled_from([b"E", b"I", b"EI", b"EIE", b"EIEI", b"\nEI", b"E\nI", b"\r", b"\n", b"\r\n",
                                             b"EIQ", b" EI", b"~>", b"BI", b"ID ", b"ET", b"BT", b")", b"(", b"\\",
                                             b"EI\x00", b"EI ", b"\nEI\n", b"EE", b"EEI"]))
                pos = rnd.randrange(len(d))
                d[pos:pos + len(snip)] = snip
                del d[len(data):]
            last = draw(st.sampled_from([None, None, b"\r", b"\n", b"E", b"I", b"\r\n", b"\n\n", b"EI", b" "]))
            if last:
                d[-len(last):] = last
                del d[:len(d) - len(data)]
            first = draw(st.sampled_from([None, None, None, b"\n", b"\r", b" ", b"E"]))
            if first:
                d[0:1] = first
            data = bytes(d)
            assert len(data) == row_bytes(kind, w) * h
        if not im["chain"]:
            if data[-1:] == b"\r" and eol == b"\n":
                eol = draw(st.sampled_from([b"\r\n", b"\r"]))  # see ASSUMPTIONS (CR LF ambiguity)
            data = sanitize_inline(data, eol)
        elif im["chain"] == ["DCTDecode"]:
            if data[-1:] == b"\r" and eol == b"\n":
                eol = b"\r\n"
            data = sanitize_inline(data, eol)
        im["eol"] = eol
    im["data"] = data
    enc = _encode_chain([f for f in im["chain"] if f != "DCTDecode"], data, rnd)
    if inline and im["chain"] and im["chain"] != ["DCTDecode"]:
        lossless = [f for f in im["chain"] if f != "DCTDecode"]
        tries = 0
        while not _inline_safe(enc, im["eol"]) and tries < 50:  # other free choices of the encoders
            enc = _encode_chain(lossless, data, rnd)
            tries += 1
        if not _inline_safe(enc, im["eol"]):
            # the encoded bytes keep containing the marker: put an ASCIIHex layer outside (hex text has no 'I')
            im["chain"] = ["ASCIIHexDecode"] + (["DCTDecode"] if im["fmt"] == "jpg" else im["chain"][:1])
            enc = _encode_chain([f for f in im["chain"] if f != "DCTDecode"], data, rnd)
            assert _inline_safe(enc, im["eol"])
        # encoded bytes ending in CR before a bare LF would be ambiguous in the same way as raw data
        if enc[-1:] == b"\r" and im["eol"] == b"\n":
            im["eol"] = b"\r\n"
    if inline and im["chain"][:1] == ["ASCII85Decode"] and rnd.random() < 0.5:
        # ASCII85 data ends at its own EOD marker `~>`: the characters E I followed by white space inside it are
        # ordinary digits (white space is ignored), not the end of the image
        i = enc.find(b"EI", 0, max(0, len(enc) - 2))
        if i < 0 and im["chain"] == ["ASCII85Decode"] and len(data) >= 4:
            # the four bytes whose group starts with the digits E I
            v = (36 * 85 + 40) * 85 ** 3 + rnd.randrange(85 ** 3)
            data = v.to_bytes(4, "big") + data[4:]
            im["data"] = data
            enc = F.a85_encode(data, None)
            i = enc.find(b"EI", 0, len(enc) - 2)
        if i >= 0:
            enc = enc[:i + 2] + rnd.choice([b"\n", b" ", b"\r\n"]) + enc[i + 2:]
            im["a85_ei"] = True
    im["encoded"] = enc
    cs = "DeviceRGB" if kind == "rgb8" else "DeviceGray"
    im["cs_written"] = (ABBR_CS[cs] if im.get("abbr_cs") else cs) if inline else cs
    return im


def _image_classes(im, classes):
    classes.add("kind:" + im["kind"] if im["fmt"] == "bmp" else "kind:dct")
    ch = im["chain"]
    if im["fmt"] == "jpg":
        classes.add("storage:dct-ascii" if len(ch) > 1 else "storage:dct")
    else:
        classes.add("storage:raw" if not ch else "storage:chain%d" % len(ch))
    nt = False
    if im["fmt"] == "bmp":
        if (im["w"] * kind_bmp_bits(im["kind"])) % 32:
            classes.add("stride-padded")
            nt = True
        if (im["w"] * kind_bits(im["kind"]) * (3 if im["kind"] == "rgb8" else 1)) % 8:
            classes.add("row-bit-padded")
        if im["h"] >= 2:
            classes.add("rows>=2")
            nt = True
        if not ch or len(ch) >= 2:
            nt = True
    if im.get("a85_ei"):
        classes.add("inline-a85-contains-EI-ws")
        nt = True
    if im["inline"]:
        classes.add("inline")
        classes.add("inline-keys:" + ("abbr" if im["abbr"] else "full"))
        d = im["data"]
        if not ch:
            if d[-1:] == b"\r":
                classes.add("inline-ends-cr")
                nt = True
            if d[-1:] == b"\n":
                classes.add("inline-ends-lf")
                nt = True
            if b"E" in d or b"I" in d:
                classes.add("inline-has-E/I")
                nt = True
            if b"EI" in d:
                classes.add("inline-has-EI")
            if b"\r" in d or b"\n" in d:
                classes.add("inline-has-eol")
                nt = True
        classes.add("inline-eol:%s" % {b"\n": "lf", b"\r": "cr", b"\r\n": "crlf"}[im["eol"]])
    return nt


def _expect_entry(im, where, idx):
    return {"img": idx, "fmt": im["fmt"], "kind": im["kind"], "w": im["w"], "h": im["h"], "data": im["data"], "chain": im["chain"],
            "where": where}


def _cm(rnd, im):
    return b"%d 0 0 %d %d %d cm" % (rnd.choice([1, im["w"], 10 * im["w"]]), rnd.choice([1, im["h"], 10 * im["h"]]),
                                   rnd.randint(0, 400), rnd.randint(0, 600))


@st.composite
def export_cases(draw):
    rnd = random.Random(draw(st.integers(0, 2 ** 32)))
    nimg = draw(st.integers(1, 4))
    allow_inline = draw(st.integers(0, 2)) > 0
    images = []
    for _ in range(nimg):
        inline = allow_inline and draw(st.integers(0, 3)) == 0
        images.append(draw(image_def(rnd, inline)))
    classes = set()
    nt = False
    xobjs = {}
    num = {}
    nxt = 30
    for i, im in enumerate(images):
        if not im["inline"]:
            num[i] = nxt
            xobjs[nxt] = image_xobject(im)
            nxt += 1
    npages = draw(st.sampled_from([1, 1, 1, 2]))
    expect = []
    used_names = Counter()
    pages = []
    nforms = 0

    def scope(depth, where):
        """-> (content bytes, {name: objnum}) for one content stream; appends to `expect` in painting order."""
        nonlocal nxt, nforms
        names = {}
        byimg = {}
        parts = []
        nitems = draw(st.integers(1, 3 if depth == 0 else 2))
        for _ in range(nitems):
            kindsel = draw(st.integers(0, 9))
            if kindsel == 0 and depth == 0:  # forms here carry no font resources
                parts.append(text_block(rnd))
                continue
            if kindsel <= 2 and depth < 2 and nforms < 3:
                nforms += 1
                fname = "Fm%d" % nforms
                fnum = nxt
                nxt += 1
                fcontent, fnames = scope(depth + 1, where + ">" + fname)
                xobjs[fnum] = form_xobject(fcontent, fnames)
                names[fname] = fnum
                parts.append(b"q 1 0 0 1 %d %d cm /%s Do Q" % (rnd.randint(0, 50), rnd.randint(0, 50), fname.encode()))
                classes.add("form-depth%d" % (depth + 1))
                continue
            i = draw(st.integers(0, nimg - 1))
            im = images[i]
            if im["inline"]:
                parts.append(b"q " + _cm(rnd, im) + b" " + inline_image_bytes(im, rnd) +
                             rnd.choice([b"\n", b" ", b"\r\n", b"\r", b"\t"]) + b"Q")
                expect.append(_expect_entry(im, where + ":inline", i))
                continue
            if i in byimg:
                name = byimg[i]
            else:
                name = draw(st.sampled_from(NAME_POOL))
                k = 0
                while name in names:  # same name in one resource dictionary must be one object
                    k += 1
                    name = "%s_%d" % (name, k)
                names[name] = num[i]
                byimg[i] = name
            used_names[name] += 1
            parts.append(b"q " + _cm(rnd, im) + b" /" + name.encode() + b" Do Q")
            expect.append(_expect_entry(im, where + ":" + name, i))
        sep = rnd.choice([b"\n", b" ", b"\r\n"])
        return sep.join(parts) + rnd.choice([b"", b"\n"]), names

    for p in range(npages):
        pages.append(scope(0, "page%d" % (p + 1)))
    if not expect:  # make sure something is painted
        content, names = pages[0]
        im = images[0]
        if im["inline"]:
            content += b"\nq " + inline_image_bytes(im, rnd) + b"\nQ\n"
            expect.append(_expect_entry(im, "page1:inline", 0))
        else:
            nm = "Im0"
            k = 0
            while nm in names:
                k += 1
                nm = "Im0_%d" % k
            names[nm] = num[0]
            used_names[nm] += 1
            content += b"\nq /" + nm.encode() + b" Do Q\n"
            expect.append(_expect_entry(im, "page1:" + nm, 0))
        pages[0] = (content, names)
    for i in sorted(set(e["img"] for e in expect)):
        nt = _image_classes(images[i], classes) or nt
    if any(v >= 2 for v in used_names.values()):
        classes.add("shared-name")
        nt = True
    distinct_same_name = {}
    for e in expect:
        nm = e["where"].rsplit(":", 1)[1]
        if nm != "inline":
            distinct_same_name.setdefault(nm, set()).add(e["img"])
    if any(len(v) >= 2 for v in distinct_same_name.values()):
        classes.add("shared-name-different-images")
    classes.add("paintings:%d" % min(len(expect), 6))
    if npages > 1:
        classes.add("two-pages")
    pdf = build_doc(pages, xobjs)
    desc = {"images": [_describe(e) for e in expect], "page1": repr(pages[0][0][:300])}
    return {"mode": "export", "pdf": pdf, "bufsiz": draw(st.sampled_from(BUFS)), "expect": expect,
            "classes": sorted(classes), "nt": nt, "desc": desc}


@st.composite
def inline_cases(draw):
    rnd = random.Random(draw(st.integers(0, 2 ** 32)))
    nimg = draw(st.integers(1, 3))
    images = [draw(image_def(rnd, True, adversarial=True)) for _ in range(nimg)]
    classes = set()
    nt = False
    for im in images:
        nt = _image_classes(im, classes) or nt
    # program: items are ("t", bytes) or ("i", bytes); at least one text block after the last image
    items = []
    for im in images:
        for _ in range(draw(st.integers(0, 2))):
            items.append(("t", text_block(rnd)))
        wrap = draw(st.integers(0, 2))
        body = inline_image_bytes(im, rnd) + rnd.choice([b"\n", b" ", b"\r\n", b"\r", b"\t"])
        if wrap:
            items.append(("t", b"q " + _cm(rnd, im)))
        items.append(("i", body))
        if wrap:
            items.append(("t", b"Q"))
    for _ in range(draw(st.integers(1, 2))):
        items.append(("t", text_block(rnd)))
    if draw(st.integers(0, 3)) == 0:
        items[-1] = ("t", b"BT /F1 12 Tf 10 10 Td (abc) Tj ET")
    sep = rnd.choice([b"\n", b" ", b"\r\n"])
    # white space must separate EI from the next operator; image bodies already end in white space
    content = b"".join((x + (sep if k == "t" else b"")) for k, x in items)
    plain = b"".join((x + sep) for k, x in items if k == "t")
    nglyphs = sum(len(m) for m in re.findall(rb"\(([a-zA-Z0-9]*)\) Tj", plain))
    in_form = draw(st.integers(0, 3)) == 0
    bufsiz = draw(st.sampled_from(BUFS))
    if in_form:
        classes.add("in-form")

        def doc(c):
            fd = W.D(Type=W.N("XObject"), Subtype=W.N("Form"), BBox=[0, 0, 612, 792],
                     Resources={b"Font": {b"F1": W.R(5)}})
            return build_doc([(b"q /Fm1 Do Q\n", {"Fm1": 30})], {30: W.Stream(fd, c)})
    else:
        def doc(c):
            return build_doc([(c, {})], {})
    parts = None
    if not in_form and len(items) > 1 and draw(st.integers(0, 2)) == 0:
        # the same program divided over several content streams, cut between items (each item ends in white space)
        chunks = [(x + (sep if k == "t" else b"")) for k, x in items]
        cuts = sorted(set(draw(st.lists(st.integers(1, len(chunks) - 1), min_size=1, max_size=3))))
        parts = [b"".join(chunks[a:b]) for a, b in zip([0] + cuts, cuts + [len(chunks)])]
        classes.add("contents-array")
        if any(k == "i" for k, _ in items[cuts[0]:]):
            classes.add("inline-image-in-later-stream")
            nt = True
    inl = [{"kind": im["kind"], "w": im["w"], "h": im["h"], "data": im["data"], "eol": im["eol"], "chain": im["chain"],
            "cs_written": im["cs_written"], "mask": im.get("mask")} for im in images]
    if any(im.get("mask") for im in images):
        classes.add("inline-stencil-mask")
    classes.add("inline-images:%d" % nimg)
    return {"mode": "inline", "pdf": doc(parts if parts is not None else content), "pdf_plain": doc(plain), "content": content, "inline": inl,
            "nglyphs": nglyphs, "bufsiz": bufsiz, "classes": sorted(classes), "nt": nt,
            "desc": {"content": repr(content[:300]), "in_form": in_form}}


# --------------------------------------------------------------------------
def plan(tier):
    q = tier == "quick"
    specs = [{"kind": "export", "n": 500 if q else 6000} for _ in range(10)]
    specs += [{"kind": "inline", "n": 500 if q else 6000} for _ in range(6)]
    return specs


def run_shard(spec, ctx):
    from vlib.runner import brief

    best = []  # evidence samples: the passing cases with the most classes instead of Hypothesis's first (minimal) ones

    def oracle(case):
        out = run_case(case)
        if out.nontrivial and not out.fail and out.sample is not None:
            best.append((len(out.classes), len(best), out.sample))
            best.sort(key=lambda t: (-t[0], t[1]))
            del best[2:]
        return out

    res = hyp_search(ctx, export_cases() if spec["kind"] == "export" else inline_cases(), oracle, spec["n"])
    if best:
        res.samples = [brief(x[2]) for x in best]
    return res
