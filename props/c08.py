"""C08 — layout analysis conserves content and keeps its hierarchy well-formed."""
from hypothesis import strategies as st

from vlib import layoutgen as G
from vlib.runner import Outcome, hyp_search
from vlib.workmeter import METER, WorkBudgetExceeded

ID = "C08"
LEVEL = "exploration"
RULE = ("Hypothesis draws an LTPage built directly from 0-60 LTChar (real constructor, stub font): positions incl. "
        "negative and off-page up to +-2^20, sizes incl. 0 and sub-unit, rotated/reflected matrices, horizontal and "
        "vertical glyphs, text from letters, blanks, empty string, NBSP; arranged as free glyphs and as runs/lines/"
        "columns so that lines, multi-line boxes and groups arise; plus LTRect/LTLine/LTCurve/LTImage items and "
        "LTFigures containing chars; also pages that the interpreter produces from generated documents (text in a "
        "horizontal and a vertical font, shapes, images, nested forms), analysed vs unanalysed; LAParams from {0, tiny, typical, 1e3} margins, boxes_flow in [-1,1] or None, "
        "detect_vertical, all_texts.  Oracle (validity predicate after analyze): every input leaf occurs exactly once; "
        "bbox of every line/box/group == exact union of its members; lines are of one class matching their box, end "
        "in exactly one LTAnno('\\n'), consecutive glyphs of a horizontal (vertical) line overlap vertically "
        "(horizontally); lines in a box ordered by non-increasing y1 (x1 for vertical); text boxes numbered 0..n-1 in "
        "output order; get_text of a container == concatenation of its members'; group tree leaves == the text "
        "boxes, each once.  Non-trivial = >=2 lines in one box, or >=3 boxes grouped, or an empty line, or a vertical "
        "line, or an off-page glyph; distinct by case encoding.")
ASSUMPTIONS = ["coordinates finite, |c| < 2^31 (the code's declared INF); page box <= 2000 units"]


def _ids(objs):
    return sorted(id(o) for o in objs)


def check_container(cont, inputs, la, path="page"):
    """Returns (error message or None, stats dict)."""
    from pdfminer.layout import (LTAnno, LTChar, LTFigure, LTTextBox, LTTextBoxHorizontal, LTTextBoxVertical, LTTextGroup,
                                 LTTextLine, LTTextLineHorizontal, LTTextLineVertical)

    stats = {"boxes": 0, "multiline": 0, "empties": 0, "vlines": 0, "grouped": 0}
    in_chars = [o for o in inputs if isinstance(o, LTChar)]
    in_other = [o for o in inputs if not isinstance(o, LTChar)]
    children = list(cont)
    if isinstance(cont, LTFigure) and not la.all_texts:
        if [id(c) for c in children] != [id(o) for o in inputs]:
            return "%s: figure content changed although all_texts is off" % path, stats
        return None, stats
    found_chars = []
    found_other = []
    boxes = []
    for ch in children:
        if isinstance(ch, LTTextBox):
            boxes.append(ch)
            lines = list(ch)
            if not lines:
                return "%s: empty text box" % path, stats
            want_line = LTTextLineHorizontal if isinstance(ch, LTTextBoxHorizontal) else LTTextLineVertical
            if not isinstance(ch, (LTTextBoxHorizontal, LTTextBoxVertical)):
                return "%s: text box of unknown class %r" % (path, type(ch)), stats
            for ln in lines:
                if not isinstance(ln, want_line):
                    return "%s: %s contains a %s" % (path, type(ch).__name__, type(ln).__name__), stats
                err = check_line(ln, found_chars, path)
                if err:
                    return err, stats
                if isinstance(ln, LTTextLineVertical):
                    stats["vlines"] += 1
            if tuple(ch.bbox) != G.union(ln.bbox for ln in lines):
                return "%s: box bbox %r != union of its lines %r" % (path, ch.bbox, G.union(ln.bbox for ln in lines)), stats
            key = (lambda ln: ln.y1) if isinstance(ch, LTTextBoxHorizontal) else (lambda ln: ln.x1)
            ks = [key(ln) for ln in lines]
            if any(ks[i] < ks[i + 1] for i in range(len(ks) - 1)):
                return "%s: lines of a %s not ordered: %r" % (path, type(ch).__name__, ks), stats
            if ch.get_text() != "".join(ln.get_text() for ln in lines):
                return "%s: box text is not the concatenation of its lines" % path, stats
            if len(lines) >= 2:
                stats["multiline"] += 1
        elif isinstance(ch, LTTextLine):
            err = check_line(ch, found_chars, path)
            if err:
                return err, stats
            if not ch.is_empty():
                return "%s: non-empty text line outside any text box: %r" % (path, ch.get_text()), stats
            stats["empties"] += 1
        elif isinstance(ch, (LTChar, LTAnno)):
            if in_chars and isinstance(ch, LTChar):
                return "%s: bare LTChar left at container level after analysis" % path, stats
            found_chars.append(ch)
        else:
            found_other.append(ch)
    if _ids(found_chars) != _ids(in_chars):
        n_in, n_out = len(in_chars), len(found_chars)
        dup = len(found_chars) - len(set(id(c) for c in found_chars))
        lost = len(set(id(c) for c in in_chars) - set(id(c) for c in found_chars))
        return "%s: glyphs not conserved: %d in, %d out (%d duplicated, %d lost)" % (path, n_in, n_out, dup, lost), stats
    if _ids(found_other) != _ids(in_other):
        return "%s: non-text items not conserved: %d in, %d out" % (path, len(in_other), len(found_other)), stats
    idx = [b.index for b in boxes]
    if idx != list(range(len(boxes))):
        return "%s: text boxes numbered %r, expected 0..%d in output order (boxes_flow=%r)" % (
            path, idx, len(boxes) - 1, la.boxes_flow), stats
    stats["boxes"] = len(boxes)
    # group hierarchy
    groups = getattr(cont, "groups", None)
    if la.boxes_flow is not None and in_chars and boxes:
        if not groups:
            return "%s: no groups although there are %d text boxes" % (path, len(boxes)), stats
        leaves = []

        def walk(g):
            members = list(g)
            if not members:
                return "%s: empty text group" % path
            if tuple(g.bbox) != G.union(m.bbox for m in members):
                return "%s: group bbox %r != union of members %r" % (path, g.bbox, G.union(m.bbox for m in members))
            if g.get_text() != "".join(m.get_text() for m in members):
                return "%s: group text is not the concatenation of its members" % path
            for m in members:
                if isinstance(m, LTTextGroup):
                    e = walk(m)
                    if e:
                        return e
                elif isinstance(m, LTTextBox):
                    leaves.append(m)
                else:
                    return "%s: group member of class %s" % (path, type(m).__name__)
            return None

        for g in groups:
            if isinstance(g, LTTextGroup):
                e = walk(g)
                if e:
                    return e, stats
            else:
                leaves.append(g)
        if _ids(leaves) != _ids(boxes):
            return "%s: group tree holds %d boxes, page has %d" % (path, len(leaves), len(boxes)), stats
        if len(boxes) >= 3:
            stats["grouped"] += 1
    # figures
    for o in in_other:
        if isinstance(o, LTFigure):
            sub_in = getattr(o, "_verif_inputs")
            err, st2 = check_container(o, sub_in, la, path + "/figure")
            if err:
                return err, stats
            for k in stats:
                stats[k] += st2[k]
    return None, stats


def check_line(ln, found_chars, path):
    from pdfminer.layout import LTAnno, LTChar, LTTextLineHorizontal

    elems = list(ln)
    if not elems or not isinstance(elems[-1], LTAnno) or elems[-1].get_text() != "\n":
        return "%s: text line does not end in a line break: %r" % (path, [e.get_text() for e in elems][-3:])
    chars = []
    for e in elems[:-1]:
        if isinstance(e, LTAnno):
            if "\n" in e.get_text():
                return "%s: extra line break inside a text line" % path
        elif isinstance(e, LTChar):
            chars.append(e)
        else:
            return "%s: text line holds a %s" % (path, type(e).__name__)
    if not chars:
        return "%s: text line without glyphs" % path
    if tuple(ln.bbox) != G.union(c.bbox for c in chars):
        return "%s: line bbox %r != union of its glyphs %r" % (path, ln.bbox, G.union(c.bbox for c in chars))
    for a, b in zip(chars, chars[1:]):
        if isinstance(ln, LTTextLineHorizontal):
            if not (b.y0 <= a.y1 and a.y0 <= b.y1):
                return "%s: consecutive glyphs of a horizontal line do not overlap vertically: %r %r" % (path, a.bbox, b.bbox)
        elif not (b.x0 <= a.x1 and a.x0 <= b.x1):
            return "%s: consecutive glyphs of a vertical line do not overlap horizontally: %r %r" % (path, a.bbox, b.bbox)
    if ln.get_text() != "".join(e.get_text() for e in elems):
        return "%s: line text is not the concatenation of its elements" % path
    found_chars.extend(chars)
    return None


def _tag_inputs(objs):
    from pdfminer.layout import LTFigure

    for o in objs:
        if isinstance(o, LTFigure):
            o._verif_inputs = list(o)
            _tag_inputs(o._verif_inputs)


def run_case(case):
    la = G.mklaparams(case["la"])
    page, objs = G.mkpage(case["items"], case["bbox"])
    _tag_inputs(objs)
    classes = []
    # "layout analysis terminates": event budget instead of a wall clock (grouping is O(n^2 log n) in the boxes)
    nchars = sum(1 for s in case["items"] if s["k"] == "char") + sum(len(s.get("items", [])) for s in case["items"] if s["k"] == "figure")
    budget = 3_000_000 + 4000 * nchars * nchars
    _, e, _n = METER.run(lambda: page.analyze(la), budget)
    if isinstance(e, WorkBudgetExceeded):
        return Outcome(["no-termination"], True, fail="analyze did not finish within %d interpreter events for %d glyphs; la=%r items=%r" % (
            budget, nchars, case["la"], case["items"][:12]))
    try:
        if e is not None:
            raise e
    except Exception as e:
        import traceback

        tb = traceback.extract_tb(e.__traceback__)[-1]
        return Outcome(["raised"], True, fail="analyze raised %s: %s at %s:%d; la=%r items=%r" % (
            type(e).__name__, e, tb.filename.split("/")[-1], tb.lineno, case["la"], case["items"][:12]))
    err, stats = check_container(page, objs, la)
    bx0, by0, bx1, by1 = case["bbox"]
    off = any(s["k"] == "char" and not (bx0 <= s["x"] <= bx1 and by0 <= s["y"] <= by1) for s in case["items"])
    for k, v in stats.items():
        if v:
            classes.append(k)
    if off:
        classes.append("off-page-glyph")
    if case["la"].get("boxes_flow") is None:
        classes.append("boxes_flow-None")
    nt = bool(stats["multiline"] or stats["grouped"] or stats["empties"] or stats["vlines"] or off)
    if err:
        return Outcome(classes, nt, fail="%s; la=%r bbox=%r items=%r" % (err, case["la"], case["bbox"], case["items"][:20]))
    return Outcome(classes, nt, sample={"la": case["la"], "n_items": len(case["items"]), "stats": stats})


# ---------------------------------------------------------------------------------------------- generators
TEXTS = ["a", "b", "W", "x", " ", " ", "", " ", "fi", "\t", "1", "é"]
D8 = lambda lo, hi: st.integers(lo * 8, hi * 8).map(lambda k: k / 8)  # noqa: E731
# (a glyph may be astronomically larger than the page: the spatial index covers the page only)
SIZES = st.sampled_from([0.0, 0.125, 0.5, 1.0, 8.0, 8.5, 9.0, 10.0, 12.0, 16.0, 40.0, 2.0 ** 36])
WIDTHS = st.sampled_from([0.0, 0.25, 4.0, 5.0, 8.0, 12.0, 2.0 ** 36])
MATS = st.sampled_from([(1, 0, 0, 1)] * 6 + [(0, 1, -1, 0), (-1, 0, 0, -1), (0, -1, 1, 0), (1, 0, 0, -1), (2, 0, 0, 0.5),
                                             (1, 0.5, 0, 1), (0, 0, 0, 0)])
# (beyond +-2**31 too: the sentinel of the expandable containers is INF = 2**31 - 1)
FAR = st.sampled_from([-2.0 ** 20, 2.0 ** 20, -5000.0, 5000.0, -1.0, -0.125, 2.0 ** 33, -2.0 ** 33, 2.0 ** 40, -2.0 ** 31])


@st.composite
def free_char(draw):
    x = draw(st.one_of(D8(0, 600), D8(0, 600), D8(-50, 900), FAR))
    y = draw(st.one_of(D8(0, 800), D8(0, 800), D8(-50, 1100), FAR))
    v = draw(st.integers(0, 5)) == 0
    s = {"k": "char", "x": x, "y": y, "w": draw(WIDTHS), "h": draw(SIZES), "t": draw(st.sampled_from(TEXTS)),
         "m": draw(MATS)}
    if v:
        s["v"] = True
        s["vx"] = draw(st.sampled_from([None, 500, 0]))
        s["vy"] = draw(st.sampled_from([880, 1000, 0]))
    return s


@st.composite
def text_run(draw):
    """A line of glyphs: common baseline, drawn gaps (some below / above typical margins)."""
    x = draw(D8(0, 400))
    y = draw(D8(0, 780))
    h = draw(st.sampled_from([8.0, 10.0, 12.0, 0.5]))
    w = draw(st.sampled_from([4.0, 5.0, 8.0]))
    n = draw(st.integers(1, 6))
    gaps = draw(st.lists(st.sampled_from([0.0, 0.125, 0.5, 1.0, 4.0, 10.0, 16.0, 40.0, -2.0]), min_size=n, max_size=n))
    out = []
    for i in range(n):
        out.append({"k": "char", "x": x, "y": y + draw(st.sampled_from([0.0, 0.0, 0.0, 1.0, -3.0])), "w": w, "h": h,
                    "t": draw(st.sampled_from(TEXTS)), "m": (1, 0, 0, 1)})
        x += w + gaps[i]
    return out


@st.composite
def paragraph(draw):
    """Several lines stacked with a drawn leading, equal or slightly different heights/indents."""
    x = draw(D8(0, 300))
    y = draw(D8(100, 780))
    h = draw(st.sampled_from([8.0, 10.0, 12.0]))
    w = draw(st.sampled_from([4.0, 5.0]))
    out = []
    for _ in range(draw(st.integers(2, 5))):
        n = draw(st.integers(1, 5))
        xi = x + draw(st.sampled_from([0.0, 0.0, 0.0, 2.0, 20.0]))
        hh = h + draw(st.sampled_from([0.0, 0.0, 0.5, 2.0]))
        for i in range(n):
            out.append({"k": "char", "x": xi + i * w, "y": y, "w": w, "h": hh, "t": draw(st.sampled_from(["a", "b", " ", "x"])),
                        "m": (1, 0, 0, 1)})
        y -= draw(st.sampled_from([h, h * 1.125, h * 1.5, h * 2.5, h * 4]))
    return out


@st.composite
def vertical_run(draw):
    x = draw(D8(50, 500))
    y = draw(D8(200, 780))
    h = draw(st.sampled_from([8.0, 10.0]))
    out = []
    for i in range(draw(st.integers(2, 5))):
        out.append({"k": "char", "x": x, "y": y, "w": h, "h": h, "t": draw(st.sampled_from(["a", "b", " "])), "m": (1, 0, 0, 1),
                    "v": True, "vx": 500, "vy": 880})
        y -= h + draw(st.sampled_from([0.0, 1.0, 30.0]))
    return out


@st.composite
def other_item(draw):
    k = draw(st.sampled_from(["rect", "line", "curve", "image"]))
    x0, y0 = draw(D8(-20, 600)), draw(D8(-20, 800))
    x1, y1 = x0 + draw(D8(0, 100)), y0 + draw(D8(0, 100))
    if k == "curve":
        return {"k": k, "pts": [(x0, y0), (x1, y0), (x1, y1)]}
    return {"k": k, "bbox": (x0, y0, x1, y1)}


@st.composite
def chars_block(draw, budget):
    out = []
    while len(out) < budget and draw(st.integers(0, 5)) > 0:
        k = draw(st.integers(0, 9))
        if k <= 2:
            out.append(draw(free_char()))
        elif k <= 5:
            out.extend(draw(text_run()))
        elif k <= 7:
            out.extend(draw(paragraph()))
        else:
            out.extend(draw(vertical_run()))
    return out[:budget]


@st.composite
def cases(draw):
    items = list(draw(chars_block(60)))
    for _ in range(draw(st.integers(0, 3))):
        items.insert(draw(st.integers(0, len(items))), draw(other_item()))
    for _ in range(draw(st.integers(0, 2))):
        x0, y0 = draw(D8(0, 400)), draw(D8(0, 600))
        fig = {"k": "figure", "bbox": (x0, y0, x0 + draw(D8(1, 300)), y0 + draw(D8(1, 300))),
               "items": list(draw(chars_block(15))) + [draw(other_item()) for _ in range(draw(st.integers(0, 1)))]}
        items.insert(draw(st.integers(0, len(items))), fig)
    m = st.sampled_from([0.0, 1e-6, 0.1, 0.25, 0.5, 1.0, 2.0, 3.0, 1000.0])
    la = {"line_overlap": draw(st.sampled_from([0.0, 0.25, 0.5, 0.9, 1.0, 1000.0])), "char_margin": draw(m),
          "line_margin": draw(m), "word_margin": draw(m),
          "boxes_flow": draw(st.sampled_from([None, None, -1.0, -0.5, 0.0, 0.5, 0.5, 1.0])),
          "detect_vertical": draw(st.booleans()), "all_texts": draw(st.booleans())}
    bbox = draw(st.sampled_from([(0, 0, 612, 792), (0, 0, 612, 792), (0, 0, 2000, 2000), (-100, -50, 500, 700), (0, 0, 1, 1)]))
    return {"items": items, "la": la, "bbox": bbox}


# ---------------------------------------------------------------------------------------------- document path
def _leafsig(o):
    from pdfminer.layout import LTChar

    if isinstance(o, LTChar):
        return ("char", o.get_text(), tuple(o.bbox), o.fontname)
    return (type(o).__name__, tuple(o.bbox))


def _flat(cont, acc):
    from pdfminer.layout import LTAnno, LTContainer, LTFigure

    for c in cont:
        if isinstance(c, LTAnno):
            continue
        if isinstance(c, LTFigure):
            acc.append(_leafsig(c))
            _flat(c, acc)
        elif isinstance(c, LTContainer):
            _flat(c, acc)
        else:
            acc.append(_leafsig(c))
    return acc


def _structure(cont, la, path="page"):
    """The hierarchy invariants of check_container for a tree that came out of the interpreter (inputs unknown:
    conservation is checked separately against the unanalysed extraction)."""
    from pdfminer.layout import LTChar, LTFigure, LTTextBox, LTTextLine

    inputs = []
    for c in cont:
        if isinstance(c, LTTextBox):
            for ln in c:
                inputs.extend(x for x in ln if isinstance(x, LTChar))
        elif isinstance(c, LTTextLine):
            inputs.extend(x for x in c if isinstance(x, LTChar))
        else:
            inputs.append(c)
            if isinstance(c, LTFigure):
                c._verif_inputs = _fig_inputs(c)
    return check_container(cont, inputs, la, path)


def _fig_inputs(fig):
    from pdfminer.layout import LTChar, LTFigure, LTTextBox, LTTextLine

    out = []
    for c in fig:
        if isinstance(c, LTTextBox):
            for ln in c:
                out.extend(x for x in ln if isinstance(x, LTChar))
        elif isinstance(c, LTTextLine):
            out.extend(x for x in c if isinstance(x, LTChar))
        else:
            out.append(c)
            if isinstance(c, LTFigure):
                c._verif_inputs = _fig_inputs(c)
    return out


def run_doc_case(case):
    """Pages produced by the interpreter from a generated document: analysed vs unanalysed extraction."""
    from collections import Counter

    from props import c11
    from vlib import interp

    pdf = c11.build_pdf(case["doc"])
    la = G.mklaparams(case["la"])
    try:
        raw = interp.pages(pdf, laparams=None)
        r, e, _n = METER.run(lambda: interp.pages(pdf, laparams=la), 60_000_000)
    except Exception as e2:
        return Outcome(["doc", "raised"], True, fail="extraction raised %s: %s" % (type(e2).__name__, e2))
    if isinstance(e, WorkBudgetExceeded):
        return Outcome(["doc", "no-termination"], True, fail="layout analysis of a generated document did not finish; la=%r" % (case["la"],))
    if e is not None:
        if not isinstance(e, Exception):
            raise e
        return Outcome(["doc", "raised"], True, fail="extraction with layout analysis raised %s: %s; la=%r" % (type(e).__name__, e, case["la"]))
    classes = ["doc"]
    nt = False
    for pno, (p0, p1) in enumerate(zip(raw, r)):
        a, b = Counter(_flat(p0, [])), Counter(_flat(p1, []))
        if a != b:
            lost = list((a - b).elements())[:3]
            extra = list((b - a).elements())[:3]
            return Outcome(classes, True, fail="page %d: analysis does not conserve the items of the unanalysed page: lost %r, "
                           "extra %r; la=%r" % (pno, lost, extra, case["la"]))
        err, stats = _structure(p1, la, "page%d" % pno)
        if err:
            return Outcome(classes, True, fail="%s; la=%r (generated document)" % (err, case["la"]))
        if stats["multiline"] or stats["boxes"] >= 2:
            nt = True
    return Outcome(classes, nt, sample={"la": case["la"], "pages": len(raw)})


@st.composite
def doc_cases(draw):
    from props import c11

    d = draw(c11.cases())
    m = st.sampled_from([0.1, 0.25, 0.5, 1.0, 2.0])
    la = {"line_overlap": draw(st.sampled_from([0.25, 0.5, 0.9])), "char_margin": draw(m), "line_margin": draw(m),
          "word_margin": draw(m), "boxes_flow": draw(st.sampled_from([None, -1.0, 0.0, 0.5, 1.0])),
          "detect_vertical": draw(st.booleans()), "all_texts": draw(st.booleans())}
    return {"kind": "doc", "doc": d, "la": la}


_run_direct = run_case


def run_case(case):  # noqa: F811
    if case.get("kind") == "doc":
        return run_doc_case(case)
    return _run_direct(case)


def plan(tier):
    q = tier == "quick"
    return [{"n": 200 if q else 5000} for _ in range(16)] + [{"kind": "doc", "n": 120 if q else 2500} for _ in range(8)]


def run_shard(spec, ctx):
    if spec.get("kind") == "doc":
        return hyp_search(ctx, doc_cases(), run_case, spec["n"])
    return hyp_search(ctx, cases(), run_case, spec["n"])
