"""C11 — converters: text output is the tree's text; XML is well-formed and faithful."""
import io
import re
import xml.etree.ElementTree as ET

from hypothesis import strategies as st

from vlib import fonts as F
from vlib import interp
from vlib import pdfwrite as W
from vlib.runner import Outcome, hyp_search

ID = "C11"
LEVEL = "exploration"
RULE = ("Hypothesis draws 1-3 page documents: text lines whose glyph text (via a ToUnicode CMap) ranges over letters, "
        "XML specials & < > \" ', non-BMP characters (horizontal simple font and a vertical composite font), combining marks, TAB/CR and (with strip_control) C0 control "
        "characters; font names and form-XObject names containing XML specials; rect/line/curve shapes with "
        "fractional line widths; an image; nested forms; LAParams in {None, default, all_texts, boxes_flow=None, "
        "detect_vertical}; output_type text or xml; sink StringIO or BytesIO with codec utf-8 / utf-16 / utf-16-le / "
        "latin-1 / cp1252 (the latter two only when every character is representable); strip_control on/off.  Oracle: "
        "the LTPage trees obtained with PDFPageAggregator on the same bytes and LAParams are the reference: text "
        "output == in-order concatenation of leaf text + LF after each text box + FF after each page, identical for "
        "text and binary sinks and for extract_text; XML must parse with expat and its element tree must be "
        "isomorphic to the layout tree (page/textbox/textline/text/figure/line/rect/curve/image/layout/textgroup with "
        "bbox via %.3f, id, wmode, font, size, linewidth, pts, character data).  Non-trivial = an XML-special or "
        "non-ASCII character in text or a name, a figure, a non-UTF-8 codec, or >= 2 text boxes; distinct by case.")
ASSUMPTIONS = ["with strip_control off, characters XML 1.0 cannot represent are not placed in glyph text",
               "reference tree = PDFPageAggregator on the same bytes with the same LAParams"]

SAFE = ["a", "b", "c", "X", "Y", "1", "é", "Ω", "𝒳", "á", "&", "<", ">", '"', "'", "&amp;", "]]>", " ", "\t",
        "\r", "ß", "€", "中", "<b>", " "]
CTRL = ["\x01", "\x08", "\x0b", "\x0c", "\x1f", "\x00", "a\x02b"]
NAMES = ["Fm1", "A&B", "<tag>", 'q"uote', "it's", "x y", "é", "a<b>c&d\"e'f"]
CONTROL = re.compile("[\x00-\x08\x0b-\x0c\x0e-\x1f]")
# font F3 (/ToUnicode /Identity-H: the text of code c is chr(c)) shows halves of surrogate pairs: not characters, so
# no well-formed XML document can hold them; they are left out of the character data whatever the sink is
SURROGATE = re.compile("[\ud800-\udfff]")
F3_CODES = [0xD800, 0x41, 0xDFFF, 0xDBFF, 0x7A, 0xDC00]


def build_pdf(case):
    objs = {}
    mapping = {33 + i: s for i, s in enumerate(case["alphabet"])}
    cmap, _ = F.tounicode_cmap(mapping)
    objs[10] = W.D(Type=W.N("Font"), Subtype=W.N("Type1"), BaseFont=W.N("Base"), FirstChar=33,
                   LastChar=33 + len(mapping) - 1,
                   # every third glyph has no advance (as combining marks do): a degenerate box, still a glyph
                   Widths=[0 if (i % 3 == 2 and case.get("zero_widths")) else 500 for i in range(len(mapping))],
                   ToUnicode=W.R(11),
                   FontDescriptor=W.D(Type=W.N("FontDescriptor"), FontName=W.N(case["fontname"].encode("utf-8")), Flags=32,
                                      FontBBox=[0, 0, 1000, 1000], Ascent=800, Descent=-200))
    objs[11] = W.Stream({}, cmap)
    # a vertical composite font over the same alphabet (2-byte codes): glyph boxes are not square (DW2 w1y = -500)
    cmap2, _ = F.tounicode_cmap(mapping, codelen=2)
    objs[13] = W.D(Type=W.N("Font"), Subtype=W.N("Type0"), BaseFont=W.N("Vert"), Encoding=W.N("Identity-V"),
                   DescendantFonts=[W.R(14)], ToUnicode=W.R(16))
    objs[14] = W.D(Type=W.N("Font"), Subtype=W.N("CIDFontType2"), BaseFont=W.N("Vert"),
                   CIDSystemInfo=W.D(Registry=b"Adobe", Ordering=b"Identity", Supplement=0), DW2=[880, -500],
                   FontDescriptor=W.R(15))
    objs[15] = W.D(Type=W.N("FontDescriptor"), FontName=W.N(case["fontname"].encode("utf-8") + b"V"), Flags=4,
                   FontBBox=[0, -200, 1000, 900], Ascent=800, Descent=-200)
    objs[16] = W.Stream({}, cmap2)
    objs[12] = W.Stream(W.D(Type=W.N("XObject"), Subtype=W.N("Image"), Width=2, Height=2, ColorSpace=W.N("DeviceGray"),
                            BitsPerComponent=8), b"\x00\x40\x80\xff")
    objs[17] = W.D(Type=W.N("Font"), Subtype=W.N("Type0"), BaseFont=W.N("Ident"), Encoding=W.N("Identity-H"),
                   DescendantFonts=[W.R(18)], ToUnicode=W.N("Identity-H"))
    objs[18] = W.D(Type=W.N("Font"), Subtype=W.N("CIDFontType2"), BaseFont=W.N("Ident"),
                   CIDSystemInfo=W.D(Registry=b"Adobe", Ordering=b"Identity", Supplement=0), DW=500, FontDescriptor=W.R(15))
    fonts = {b"F1": W.R(10), b"F2": W.R(13), b"F3": W.R(17)}
    forms = case.get("forms", [])
    xobj = {case.get("imgname", "Im0").encode("utf-8"): W.R(12)}
    for i, f in enumerate(forms):
        xobj[f["name"].encode("utf-8")] = W.R(30 + i)
    res = {b"Font": fonts, b"XObject": xobj}
    for i, f in enumerate(forms):
        objs[30 + i] = W.Stream(W.D(Type=W.N("XObject"), Subtype=W.N("Form"), BBox=[0, 0, 300, 300],
                                    Matrix=[1, 0, 0, 1, f["dx"], f["dy"]], Resources=res), content_bytes(f["items"], xobj))
    kids = []
    for pi, items in enumerate(case["pages"]):
        pn, cn = 50 + 2 * pi, 51 + 2 * pi
        objs[cn] = W.Stream({}, content_bytes(items, xobj))
        objs[pn] = W.D(Type=W.N("Page"), Parent=W.R(2), MediaBox=[0, 0, 612, 792], Resources=res, Contents=W.R(cn))
        kids.append(W.R(pn))
    objs[1] = W.D(Type=W.N("Catalog"), Pages=W.R(2))
    objs[2] = W.D(Type=W.N("Pages"), Kids=kids, Count=len(kids))
    return W.build_pdf(objs)


def content_bytes(items, xobj):
    out = []
    for it in items:
        k = it["k"]
        if k == "text":
            if it.get("font") == "F2":
                codes = b"".join((33 + c).to_bytes(2, "big") for c in it["codes"])
            elif it.get("font") == "F3":
                codes = b"".join(F3_CODES[c % len(F3_CODES)].to_bytes(2, "big") for c in it["codes"])
            else:
                codes = bytes(33 + c for c in it["codes"])
            out.append(b"BT /%s %d Tf %s %s Td <%s> Tj ET" % (it.get("font", "F1").encode(), it["size"], _num(it["x"]), _num(it["y"]),
                                                             codes.hex().encode()))
        elif k == "rect":
            out.append(b"%s w %s %s %d %d re S" % (str(it["lw"]).encode(), _num(it["x"]), _num(it["y"]), it["w"], it["h"]))
        elif k == "line":
            out.append(b"%s w %d %d m %d %d l S" % (str(it["lw"]).encode(), it["x"], it["y"], it["x"] + it["w"], it["y"] + it["h"]))
        elif k == "curve":
            out.append(b"%s w %d %d m %d %d %d %d %d %d c S" % (str(it["lw"]).encode(), it["x"], it["y"], it["x"] + 10, it["y"] + 30,
                                                               it["x"] + 40, it["y"] - 5, it["x"] + it["w"], it["y"] + it["h"]))
        elif k == "image":
            # the image is the first entry of the XObject dictionary
            nm = next(iter(xobj))
            out.append(b"q %d 0 0 %d %d %d cm /%s Do Q" % (it["w"], it["h"], it["x"], it["y"], b"".join(
                b"#%02x" % c if W.name_needs_escape(c) else bytes([c]) for c in nm)))
        elif k == "form":
            out.append(b"/" + b"".join(b"#%02x" % c if W.name_needs_escape(c) else bytes([c]) for c in it["name"].encode("utf-8")) + b" Do")
    return b"\n".join(out)


def mk_laparams(kind):
    from pdfminer.layout import LAParams

    if kind == "none":
        return None
    if kind == "default":
        return LAParams()
    if kind == "all_texts":
        return LAParams(all_texts=True)
    if kind == "flow_none":
        return LAParams(boxes_flow=None)
    if kind == "vertical":
        return LAParams(detect_vertical=True, all_texts=True)
    raise ValueError(kind)


# ------------------------------------------------------------------ expectations from the reference tree
def expected_text(pages):
    from pdfminer.layout import LTContainer, LTText, LTTextBox

    out = []

    def render(item):
        if isinstance(item, LTContainer):
            for ch in item:
                render(ch)
        elif isinstance(item, LTText):
            out.append(item.get_text())
        if isinstance(item, LTTextBox):
            out.append("\n")

    for p in pages:
        render(p)
        out.append("\f")
    return "".join(out)


def b2s(b):
    return "%.3f,%.3f,%.3f,%.3f" % tuple(b)


def xml_chardata(s):
    """What an XML parser reports for character data written as s (line ends normalised)."""
    return s.replace("\r\n", "\n").replace("\r", "\n")


def xml_attr(s):
    """Attribute-value normalisation: TAB/LF/CR become spaces."""
    return s.replace("\r\n", " ").replace("\r", " ").replace("\n", " ").replace("\t", " ")


def expected_xml(pages, strip):
    from pdfminer.layout import (LTAnno, LTChar, LTCurve, LTFigure, LTImage, LTLine, LTPage, LTRect, LTTextBox,
                                 LTTextBoxVertical, LTTextGroup, LTTextLine)

    def group(g):
        if isinstance(g, LTTextBox):
            return ("textbox", {"id": "%d" % g.index, "bbox": b2s(g.bbox)}, None, [])
        return ("textgroup", {"bbox": b2s(g.bbox)}, None, [group(c) for c in g])

    def node(item):
        if isinstance(item, LTPage):
            kids = [node(c) for c in item]
            if item.groups is not None:
                kids.append(("layout", {}, None, [group(g) for g in item.groups]))
            return ("page", {"id": "%s" % item.pageid, "bbox": b2s(item.bbox), "rotate": "%d" % item.rotate}, None, kids)
        if isinstance(item, LTLine):
            return ("line", {"linewidth": "%d" % item.linewidth, "bbox": b2s(item.bbox)}, None, [])
        if isinstance(item, LTRect):
            return ("rect", {"linewidth": "%d" % item.linewidth, "bbox": b2s(item.bbox)}, None, [])
        if isinstance(item, LTCurve):
            return ("curve", {"linewidth": "%d" % item.linewidth, "bbox": b2s(item.bbox),
                              "pts": ",".join("%.3f,%.3f" % p for p in item.pts)}, None, [])
        if isinstance(item, LTFigure):
            return ("figure", {"name": xml_attr(item.name), "bbox": b2s(item.bbox)}, None, [node(c) for c in item])
        if isinstance(item, LTTextLine):
            return ("textline", {"bbox": b2s(item.bbox)}, None, [node(c) for c in item])
        if isinstance(item, LTTextBox):
            a = {"id": "%d" % item.index, "bbox": b2s(item.bbox)}
            if isinstance(item, LTTextBoxVertical):
                a["wmode"] = "vertical"
            return ("textbox", a, None, [node(c) for c in item])
        if isinstance(item, LTChar):
            t = item.get_text()
            if strip:
                t = CONTROL.sub("", t)
            t = SURROGATE.sub("", t)
            return ("text", {"font": xml_attr(item.fontname), "bbox": b2s(item.bbox), "size": "%.3f" % item.size},
                    xml_chardata(t), [])
        if isinstance(item, LTAnno):
            return ("text", {}, xml_chardata(item.get_text()), [])
        if isinstance(item, LTImage):
            return ("image", {"width": "%d" % item.width, "height": "%d" % item.height}, None, [])
        raise AssertionError("unexpected item %r" % (item,))

    return ("pages", {}, None, [node(p) for p in pages])


CHECK_ATTRS = {"text": ("font", "bbox", "size"), "image": ("width", "height")}


def observed_xml(el):
    tag = el.tag
    attrs = dict(el.attrib)
    if tag in CHECK_ATTRS and attrs:
        attrs = {k: v for k, v in attrs.items() if k in CHECK_ATTRS[tag]}
    kids = [observed_xml(c) for c in el]
    text = el.text if tag == "text" else None
    if tag == "text" and text is None:
        text = ""
    return (tag, attrs, text, kids)


def tree_diff(a, b, path=""):
    if a[0] != b[0]:
        return "%s: element <%s> expected <%s>" % (path, b[0], a[0])
    p = "%s/%s" % (path, a[0])
    if a[1] != b[1]:
        return "%s: attributes %r expected %r" % (p, b[1], a[1])
    if a[2] != b[2]:
        return "%s: character data %r expected %r" % (p, b[2], a[2])
    if len(a[3]) != len(b[3]):
        return "%s: %d children (%s) expected %d (%s)" % (p, len(b[3]), [k[0] for k in b[3]][:8], len(a[3]), [k[0] for k in a[3]][:8])
    for i, (x, y) in enumerate(zip(a[3], b[3])):
        d = tree_diff(x, y, "%s[%d]" % (p, i))
        if d:
            return d
    return None


def run_case(case):
    from pdfminer.high_level import extract_text, extract_text_to_fp

    pdf = build_pdf(case)
    la = mk_laparams(case["la"])
    classes = ["out:" + case["output"], "la:" + case["la"], "sink:" + case["sink"]]
    if any(it.get("font") == "F3" for items_ in case["pages"] for it in items_):
        classes.append("lone-surrogates")
    alltext = "".join(case["alphabet"]) + case["fontname"] + "".join(f["name"] for f in case.get("forms", []))
    nt = any(ord(c) > 127 or c in "&<>\"'" for c in alltext) or bool(case.get("forms")) or case["sink"] not in ("str", "utf-8")
    try:
        ref = interp.pages(pdf, laparams=la)
    except Exception as e:
        return Outcome(classes, nt, fail="reference extraction raised %s: %s" % (type(e).__name__, e))
    nboxes = 0
    from pdfminer.layout import LTTextBox
    for p in ref:
        nboxes += sum(1 for c in p if isinstance(c, LTTextBox))
    if nboxes >= 2:
        nt = True
        classes.append("boxes>=2")
    desc = lambda: "alphabet=%r fontname=%r forms=%r la=%s sink=%s strip=%r" % (  # noqa: E731
        case["alphabet"], case["fontname"], [f["name"] for f in case.get("forms", [])], case["la"], case["sink"], case["strip"])
    sink = case["sink"]
    codec = None if sink.startswith("str") else sink
    if case["output"] == "text":
        want = expected_text(ref)
        try:
            if sink == "str":
                fp = io.StringIO()
                extract_text_to_fp(io.BytesIO(pdf), fp, output_type="text", laparams=la)
                got = fp.getvalue()
            elif sink.startswith("str:"):
                # a text sink receives text: the codec argument has nothing to encode, whatever it can represent
                fp = io.StringIO()
                extract_text_to_fp(io.BytesIO(pdf), fp, output_type="text", codec=sink[4:], laparams=la)
                got = fp.getvalue()
                if la is not None:
                    t2 = extract_text(io.BytesIO(pdf), laparams=la, codec=sink[4:])
                    if t2 != want:
                        return Outcome(classes, nt, fail="extract_text(codec=%r) differs from the layout tree: %r vs %r; %s" % (
                            sink[4:], t2[:60], want[:60], desc()))
            else:
                fp = io.BytesIO()
                extract_text_to_fp(io.BytesIO(pdf), fp, output_type="text", codec=codec, laparams=la)
                raw = fp.getvalue()
                try:
                    got = raw.decode(codec)
                except UnicodeDecodeError as e:
                    return Outcome(classes, nt, fail="text output written to a binary sink with codec %s cannot be decoded "
                                   "with it: %s; %s" % (codec, e, desc()))
        except Exception as e:
            return Outcome(classes, nt, fail="extract_text_to_fp(text) raised %s: %s; %s" % (type(e).__name__, e, desc()))
        if got != want:
            i = next((k for k in range(min(len(got), len(want))) if got[k] != want[k]), min(len(got), len(want)))
            return Outcome(classes, nt, fail="text output differs from the layout tree at %d: %r vs %r; %s" % (
                i, got[max(0, i - 10):i + 20], want[max(0, i - 10):i + 20], desc()))
        if la is not None and sink == "str":
            try:
                t2 = extract_text(io.BytesIO(pdf), laparams=la)
            except Exception as e:
                return Outcome(classes, nt, fail="extract_text raised %s: %s; %s" % (type(e).__name__, e, desc()))
            if t2 != want:
                return Outcome(classes, nt, fail="extract_text differs from extract_text_to_fp/layout tree; %s" % desc())
        return Outcome(classes, nt, sample={"alphabet": case["alphabet"][:8], "la": case["la"], "sink": sink, "len": len(want)})
    # ---- xml
    imgdir = None
    kw = {}
    if case.get("imgdir"):
        # images are exported as well: <image> then names the exported file in `src`
        import tempfile

        imgdir = tempfile.mkdtemp(prefix="c11img")
        kw["output_dir"] = imgdir
        classes.append("xml+image-export")
    try:
        return _xml_part(case, classes, nt, pdf, sink, codec, la, ref, desc, kw, imgdir)
    finally:
        if imgdir:
            import shutil

            shutil.rmtree(imgdir, ignore_errors=True)


def _xml_part(case, classes, nt, pdf, sink, codec, la, ref, desc, kw, imgdir):
    from pdfminer.high_level import extract_text_to_fp

    try:
        if sink == "str":
            fp = io.StringIO()
            extract_text_to_fp(io.BytesIO(pdf), fp, output_type="xml", codec=None, laparams=la, strip_control=case["strip"], **kw)
            data = fp.getvalue()
        else:
            fp = io.BytesIO()
            extract_text_to_fp(io.BytesIO(pdf), fp, output_type="xml", codec=codec, laparams=la, strip_control=case["strip"], **kw)
            raw = fp.getvalue()
            try:
                # expat only knows a few encodings by name: decode with the requested codec ourselves
                data = raw.decode(codec)
            except UnicodeDecodeError as e:
                return Outcome(classes, nt, fail="XML output written with codec %s cannot be decoded with it: %s; %s" % (
                    codec, e, desc()))
            if ('encoding="%s"' % codec) not in data[:80]:
                return Outcome(classes, nt, fail="XML declaration %r does not name the codec %s" % (data[:60], codec))
    except Exception as e:
        return Outcome(classes, nt, fail="extract_text_to_fp(xml) raised %s: %s; %s" % (type(e).__name__, e, desc()))
    m = SURROGATE.search(data)
    if m:
        # not a character of XML 1.0 (production [2] Char): no parser accepts the document
        return Outcome(classes, nt, fail="XML output is not well-formed: it holds the lone surrogate U+%04X at offset %d; %s" % (
            ord(m.group()), m.start(), desc()))
    try:
        root = ET.fromstring(data)
    except ET.ParseError as e:
        return Outcome(classes, nt, fail="XML output is not well-formed: %s; near %r; %s" % (e, _near(data, e), desc()))
    want = expected_xml(ref, case["strip"])
    got = observed_xml(root)
    d = tree_diff(want, got)
    if d:
        return Outcome(classes, nt, fail="XML tree differs from the layout tree: %s; %s" % (d, desc()))
    if imgdir:
        import os

        for el in root.iter("image"):
            nt = True
            src = el.get("src")
            if src is None or not os.path.isfile(os.path.join(imgdir, src)):
                return Outcome(classes, nt, fail="<image src=%r> does not name an exported file (%r); %s" % (
                    src, sorted(os.listdir(imgdir)), desc()))
    if case.get("select_none"):
        # a page selection that matches nothing: the hierarchy has no page, the XML is still a well-formed document
        # with the (empty) root element, the text output is empty
        try:
            fx, ft = io.StringIO(), io.StringIO()
            none = [len(case["pages"]) + 3]
            extract_text_to_fp(io.BytesIO(pdf), fx, output_type="xml", codec=None, laparams=la, page_numbers=none)
            extract_text_to_fp(io.BytesIO(pdf), ft, output_type="text", laparams=la, page_numbers=none)
            r0 = ET.fromstring(fx.getvalue())
        except ET.ParseError as e:
            return Outcome(classes, nt, fail="XML output for an empty page selection is not well-formed: %s; output %r; %s" % (
                e, fx.getvalue()[:80], desc()))
        except Exception as e:
            return Outcome(classes, nt, fail="empty page selection raised %s: %s; %s" % (type(e).__name__, e, desc()))
        if r0.tag != "pages" or len(r0) != 0 or ft.getvalue() != "":
            return Outcome(classes, nt, fail="empty page selection: XML root %r with %d children, text %r; %s" % (
                r0.tag, len(r0), ft.getvalue()[:40], desc()))
        classes.append("empty-selection")
    return Outcome(classes, nt, sample={"alphabet": case["alphabet"][:8], "la": case["la"], "sink": sink,
                                        "fontname": case["fontname"], "forms": [f["name"] for f in case.get("forms", [])]})


def _near(data, e):
    try:
        line, col = e.position
        lines = data.split("\n")
        return lines[line - 1][max(0, col - 30):col + 30]
    except Exception:
        return ""


# ---------------------------------------------------------------------------------------------- generators
def _num(v):
    return (b"%d" % v) if isinstance(v, int) else ("%.4f" % v).rstrip("0").rstrip(".").encode()


# positions just outside the page's left / bottom edge (coordinates between -0.5 and 0 in every bbox attribute)
EDGE = [-0.3, -0.25, -0.0625, -0.45, -0.5, -1.5]


@st.composite
def items(draw, nalpha, form_names, depth=0):
    out = []
    y = 700
    for _ in range(draw(st.integers(1, 5))):
        k = draw(st.integers(0, 9))
        if k <= 5:
            out.append({"k": "text", "x": draw(st.sampled_from([50, 50, 300] + EDGE)), "y": y, "size": draw(st.sampled_from([10, 12])),
                        "codes": draw(st.lists(st.integers(0, nalpha - 1), min_size=1, max_size=8)),
                        "font": draw(st.sampled_from(["F1", "F1", "F1", "F2"]))})
            y -= draw(st.sampled_from([12, 14, 40, 90]))
        elif k == 6:
            kk = draw(st.sampled_from(["rect", "line", "curve"]))
            out.append({"k": kk, "x": draw(st.one_of(st.integers(10, 300), st.sampled_from(EDGE))) if kk == "rect" else draw(st.integers(10, 300)),
                        "y": draw(st.one_of(st.integers(10, 700), st.sampled_from(EDGE))) if kk == "rect" else draw(st.integers(10, 700)),
                        "w": draw(st.one_of(st.integers(0, 200), st.integers(-120, 200))), "h": draw(st.one_of(st.integers(0, 100), st.integers(-80, 100))),
                        "lw": draw(st.sampled_from([0, 1, 0.5, 2.75]))})
        elif k == 7:
            out.append({"k": "image", "x": draw(st.integers(10, 300)), "y": draw(st.integers(10, 600)), "w": draw(st.integers(1, 90)),
                        "h": draw(st.integers(1, 90))})
        elif form_names:
            out.append({"k": "form", "name": draw(st.sampled_from(form_names))})
    return out


@st.composite
def cases(draw):
    strip = draw(st.booleans())
    pool = SAFE + (CTRL if strip else [])
    alphabet = draw(st.lists(st.sampled_from(pool), min_size=2, max_size=10))
    output = draw(st.sampled_from(["text", "xml", "xml"]))
    forms = []
    names = draw(st.lists(st.sampled_from(NAMES), max_size=2, unique=True))
    for i, nm in enumerate(names):
        forms.append({"name": nm, "dx": draw(st.integers(0, 200)), "dy": draw(st.integers(0, 200)),
                      "items": draw(items(len(alphabet), [f["name"] for f in forms]))})
    pages = [draw(items(len(alphabet), names)) for _ in range(draw(st.integers(1, 3)))]
    if output == "xml" and draw(st.integers(0, 3)) == 0:
        # the vertical-font lines of the pages are shown with F3 instead (lone surrogates in the glyph text)
        for items_ in pages:
            for it in items_:
                if it["k"] == "text" and it.get("font") == "F2":
                    it["font"] = "F3"
    fontname = draw(st.sampled_from(["Plain", "A&B", "F<1>", 'Q"x', "it's", "Ünï", "a&lt;b", "Sale%Off", "100%%", "%s%d", "Half%", "{0}{x}", "a\\b"]))
    allchars = "".join(alphabet)
    sinks = ["str", "utf-8", "utf-16", "utf-16-le"]
    if output == "text":
        sinks += ["str:ascii", "str:latin-1", "str:cp437"]
    if output == "xml":
        allchars += fontname + "".join(names)
    for c in ("latin-1", "cp1252"):
        try:
            allchars.encode(c)
            sinks.append(c)
        except UnicodeEncodeError:
            pass
    return {"alphabet": alphabet, "fontname": fontname, "forms": forms, "pages": pages, "output": output,
            "imgname": draw(st.sampled_from(["Im0", "Im0", "Im&1", 'a<b"c', "x'y>z", "I m"])),
            "imgdir": output == "xml" and draw(st.integers(0, 2)) == 0,
            "zero_widths": draw(st.booleans()), "select_none": draw(st.integers(0, 3)) == 0,
            "la": draw(st.sampled_from(["none", "default", "default", "all_texts", "flow_none", "vertical"])),
            "sink": draw(st.sampled_from(sinks)), "strip": strip if output == "xml" else False}


def plan(tier):
    q = tier == "quick"
    return [{"n": 400 if q else 4000} for _ in range(16)]


def run_shard(spec, ctx):
    return hyp_search(ctx, cases(), run_case, spec["n"])
