"""C06 - simple fonts: code -> Unicode / width follow encoding, glyph names, ToUnicode."""
import io
import random
import zlib
from fractions import Fraction

from hypothesis import strategies as st

from vlib import fonts as F
from vlib import pdfwrite as W
from vlib import runner
from vlib.runner import Outcome, enum_search, hyp_search

ID = "C06"
LEVEL = "exploration"
RULE = ("(1) exhaustive: all 4 x 256 cells of EncodingDB.get_encoding(StandardEncoding|MacRomanEncoding|WinAnsiEncoding|"
        "PDFDocEncoding) against tables derived independently (Standard/PDFDoc transcribed from ISO 32000-1 Annex D, "
        "MacRoman/WinAnsi from Python's mac_roman/cp1252 codecs plus a justified exception list).  (2) Hypothesis glyph "
        "names from the AGL grammar (list names, uniXXXX.., uXXXX..uXXXXXX, '_' components, '.' suffixes, unmappable: "
        "surrogates, >10FFFF, wrong digit counts, garbage tails/prefixes) -> name2unicode returns the reference AGL "
        "result or raises KeyError, never anything else.  (3) EncodingDB.get_encoding(name, Differences) against a "
        "dictionary model, all 256 codes.  (4) one-page documents with one simple font (Type1/MMType1/TrueType/Type3; "
        "non-embedded with Widths, standard-14 without Widths, embedded Type 1 program with `dup c /n put` built-in "
        "encoding; /Encoding absent | name | dictionary with optional BaseEncoding and Differences runs; optional "
        "ToUnicode with bfchar / bfrange (incremental and array) over a drawn subset of codes, multi-character and "
        "non-BMP targets; drawn FirstChar/Widths range, MissingWidth; Type3 FontMatrix [a 0 0 d 0 0]) that shows all "
        "256 codes; every LTChar's get_text() and adv are compared with an independent lookup model.  Non-trivial "
        "(fonts) = some code has a ToUnicode entry disagreeing with its encoding entry, or a Differences override, or "
        "a multi-component/suffixed name, or a built-in Type 1 encoding, or a shown code outside [FirstChar, "
        "LastChar]; (names) = not a plain list name.  Distinct by case bytes.")
ASSUMPTIONS = [
    "glyph list and AFM widths are data shared with the library (validated by vlib.fonts.selfcheck: self-describing "
    "uniXXXX entries, the Latin set against transcribed code points, AFM spot values)",
    "lowercase hexadecimal digits in uniXXXX/uXXXX names are a documented, test-pinned leniency and are outside the "
    "domain; '_' names with both mappable and unmappable components are outside the font domain (name2unicode "
    "documents KeyError)",
    "WinAnsi codes 0x7F/81/8D/8F/90/9D (ISO: 'unused, map to bullet, subject to reassignment'), Type3 codes outside "
    "Differences without BaseEncoding, and TrueType dictionary encodings' cells that ISO fills from StandardEncoding "
    "are not asserted",
    "standard-14 domain = the 12 Latin text fonts (Symbol/ZapfDingbats have font-specific built-in encodings); their "
    "width is the AFM width of the character the ENCODING assigns to the code",
    "each code occurs at most once in a built-in Type 1 encoding and at most once in a ToUnicode CMap",
]

KEY_DIFF_KEEPS_BASE = "differences-unmappable-keeps-base"
KEY_STD14_TOUNICODE_WIDTH = "std14-width-via-tounicode"


def selfcheck():
    F.selfcheck()
    # the model agrees with hand-computed expectations on a fixed font
    spec = {"flavor": "plain", "subtype": "Type1", "enc": {"base": "WinAnsiEncoding", "runs": [(65, ["B", "foo"]), (200, ["f_f_i.alt"])]},
            "builtin": None, "tounicode": {66: "xy", 67: "Z"}, "first": 60, "widths": [100, 200, 300, 400, 500, 600, 700],
            "missing": 250, "a": None, "basefont": "VerifFont"}
    ex, kf = model(spec)
    assert ex[65] == ("B", Fraction(600, 1000)) and ex[66] == ("xy", Fraction(700, 1000)), (ex[65], ex[66])
    assert ex[67] == ("Z", Fraction(250, 1000)) and ex[200] == ("ffi", Fraction(250, 1000))
    assert ex[0x80] == ("\u20ac", Fraction(250, 1000)) and ex[0xAD][0] == "-" and ex[0x81][0] is None
    assert ex[10][0] == "(cid:10)" and ex[60] == ("<", Fraction(100, 1000))
    assert kf == {}
    spec["tounicode"] = None
    ex, kf = model(spec)
    assert ex[66][0] == "(cid:66)" and kf == {KEY_DIFF_KEEPS_BASE: [66]}


# =====================================================================================================
# model (independent lookup pipeline)
# =====================================================================================================
def name_text(name):
    """Text for a glyph name in a font: AGL string when every component maps, None (= no Unicode) otherwise."""
    return F.agl_strict(name)


def model(spec):
    """-> ({code: (text | None, width Fraction | None)}, {known-key: [codes that exercise it]})
    width is in text-space units per unit of font size; None = not asserted."""
    bt = F.base_tables()
    enc = spec["enc"]
    diffmap = {}
    if enc is not None and "runs" in enc:
        for first, names in enc["runs"]:
            c = first
            for n in names:
                diffmap[c] = n
                c += 1
    builtin = None
    if enc is None and spec.get("builtin") is not None:
        builtin = dict((c, n) for c, n in spec["builtin"])
    if enc is None:
        base = "StandardEncoding"
        base_given = True
    elif "name" in enc:
        base, base_given = enc["name"], True
    else:
        base, base_given = enc.get("base") or "StandardEncoding", enc.get("base") is not None
    tu = spec.get("tounicode") or {}
    afm = F.afm_widths(spec["basefont"]) if spec["flavor"] == "std14" else None
    out = {}
    kf = {}
    for c in range(256):
        # ---- text the encoding gives (None = unasserted, "" = no Unicode value)
        if c in diffmap:
            t = name_text(diffmap[c])
            enc_text = "" if t is None else t
            if t is None and c not in tu and bt[base].get(c) not in (None,):
                kf.setdefault(KEY_DIFF_KEEPS_BASE, []).append(c)
        elif builtin is not None:
            t = name_text(builtin[c]) if c in builtin else None
            enc_text = "" if t is None else t
        else:
            v = bt[base].get(c)
            if v == F.UNASSERTED:
                enc_text = None
            elif spec["flavor"] == "type3" and not base_given:
                enc_text = None  # ISO Table 112: Differences "shall specify the complete character encoding"
            elif v is None and spec["subtype"] == "TrueType" and enc is not None and "runs" in enc and base_given \
                    and c in bt["StandardEncoding"]:
                enc_text = None  # ISO 9.6.6.4: undefined entries are filled from StandardEncoding
            else:
                enc_text = v or ""
        if c in tu:
            text = tu[c]
        elif enc_text is None:
            text = None
        else:
            text = enc_text or "(cid:%d)" % c
        # ---- width
        if spec["flavor"] == "std14":
            if enc_text is None:
                w = None
            else:
                w = Fraction(afm.get(enc_text, 0), 1000)
                if c in tu and afm.get(tu[c], 0) != afm.get(enc_text, 0):
                    kf.setdefault(KEY_STD14_TOUNICODE_WIDTH, []).append(c)
        else:
            ws, first = spec["widths"], spec["first"]
            if ws is not None and first <= c < first + len(ws):
                w = Fraction(ws[c - first])
            else:
                w = Fraction(spec["missing"] or 0)
            w *= spec["a"] if spec["flavor"] == "type3" else Fraction(1, 1000)
        out[c] = (text, w)
    return out, kf


# =====================================================================================================
# running pdfminer
# =====================================================================================================
def extract_chars(pdf):
    from pdfminer.converter import PDFPageAggregator
    from pdfminer.layout import LTChar, LTContainer
    from pdfminer.pdfinterp import PDFPageInterpreter, PDFResourceManager
    from pdfminer.pdfpage import PDFPage

    rm = PDFResourceManager()
    dev = PDFPageAggregator(rm, laparams=None)
    it = PDFPageInterpreter(rm, dev)
    acc = []

    def walk(x):
        for c in x:
            if isinstance(c, LTChar):
                acc.append(c)
            elif isinstance(c, LTContainer):
                walk(c)

    for p in PDFPage.get_pages(io.BytesIO(pdf)):
        it.process_page(p)
        walk(dev.get_result())
    return acc


def _short(desc, n=500):
    r = repr(desc)
    return r if len(r) <= n else r[:n] + "..."


def _close(got, want):
    want = float(want)
    return abs(got - want) <= 1e-9 * max(1.0, abs(want), abs(got))


def run_font(case):
    classes = ["mode:font"] + list(case.get("classes", []))
    nt = bool(case.get("nt"))
    expect = case["expect"]
    size = case["size"]
    try:
        chars = extract_chars(case["pdf"])
        got = [(ch.get_text(), ch.adv) for ch in chars]
    except Exception as e:
        import traceback

        tb = traceback.extract_tb(e.__traceback__)[-1]
        return Outcome(classes, nt, fail="extraction raised %s: %s (at %s:%d); font=%s" % (
            type(e).__name__, e, tb.filename.rsplit("/", 1)[-1], tb.lineno, _short(case["desc"])))
    if len(got) != 256:
        return Outcome(classes, nt, fail="expected 256 glyphs, got %d; font=%s" % (len(got), _short(case["desc"])))
    bad = []
    for c in range(256):
        text, w = expect[c]
        gt, gadv = got[c]
        if text is not None and gt != text:
            bad.append((c, "text", text, gt))
        if w is not None and not _close(gadv, w * size):
            bad.append((c, "adv", float(w * size), gadv))
    if not bad:
        return Outcome(classes, nt, sample=case["desc"])
    kf = case.get("kf") or {}
    active = runner.ACTIVE_KNOWN
    unexplained = []
    used = set()
    for b in bad:
        key = None
        if b[1] == "text" and KEY_DIFF_KEEPS_BASE in active and b[0] in kf.get(KEY_DIFF_KEEPS_BASE, ()):
            key = KEY_DIFF_KEEPS_BASE
        if b[1] == "adv" and KEY_STD14_TOUNICODE_WIDTH in active and b[0] in kf.get(KEY_STD14_TOUNICODE_WIDTH, ()):
            key = KEY_STD14_TOUNICODE_WIDTH
        if key:
            used.add(key)
        else:
            unexplained.append(b)
    if not unexplained:
        return Outcome(classes + ["known:" + k for k in sorted(used)], nt, known=sorted(used)[0])
    names = case.get("names") or {}
    msg = "; ".join("code %d %s: expected %r got %r%s" % (c, what, e, g, (" (glyph name %r)" % names[str(c)]) if str(c) in names else "")
                    for c, what, e, g in unexplained[:6])
    return Outcome(classes, nt, fail="%d of 256 codes wrong: %s; font=%s" % (len(unexplained), msg, _short(case["desc"])))


def run_cell(case):
    from pdfminer.encodingdb import EncodingDB

    enc, c = case["enc"], case["code"]
    want = F.base_tables()[enc].get(c)
    classes = ["mode:cell", "cell:" + enc]
    if want == F.UNASSERTED:
        return Outcome(classes + ["cell-unasserted"], False)
    try:
        got = EncodingDB.get_encoding(enc).get(c)
    except Exception as e:
        return Outcome(classes, True, fail="get_encoding(%r) raised %s: %s" % (enc, type(e).__name__, e))
    if got != want:
        return Outcome(classes, True, fail="%s code %d (0x%02X): expected %r, library table has %r" % (enc, c, c, want, got))
    return Outcome(classes + (["cell-defined"] if want else ["cell-empty"]), want is not None, sample=case)


def run_name(case):
    from pdfminer.encodingdb import name2unicode

    name = case["name"]
    want = F.agl_strict(name)
    kind = F.agl_kind(name)
    classes = ["mode:name", "name-kind:" + kind] + list(case.get("classes", []))
    nt = bool(case.get("nt"))
    try:
        got = name2unicode(name)
    except KeyError:
        got = None
    except Exception as e:
        return Outcome(classes, nt, fail="name2unicode(%r) raised %s: %s (only KeyError is documented)" % (
            name, type(e).__name__, e))
    if got != want:
        return Outcome(classes, nt, fail="name2unicode(%r): expected %s, got %s" % (
            name, "KeyError" if want is None else repr(want), "KeyError" if got is None else repr(got)))
    return Outcome(classes, nt, sample={"name": name, "result": want})


def run_getenc(case):
    from pdfminer.encodingdb import EncodingDB
    from pdfminer.psparser import LIT

    enc = case["enc"]
    classes = ["mode:getenc"] + list(case.get("classes", []))
    nt = bool(case.get("nt"))
    diff = [x if isinstance(x, int) else LIT(x) for x in case["diff"]]
    shared = ["StandardEncoding", "MacRomanEncoding", "WinAnsiEncoding", "PDFDocEncoding", enc]
    try:
        before = {n: dict(EncodingDB.get_encoding(n)) for n in shared}
        got = EncodingDB.get_encoding(enc, diff)
        after = {n: dict(EncodingDB.get_encoding(n)) for n in shared}
    except Exception as e:
        return Outcome(classes, nt, fail="get_encoding(%r, %r) raised %s: %s" % (enc, case["diff"], type(e).__name__, e))
    for n in shared:
        if before[n] != after[n]:
            return Outcome(classes, nt, fail="get_encoding(%r, %r) modified the shared table %s: %r" % (
                enc, case["diff"], n, sorted(set(before[n].items()) ^ set(after[n].items()))[:6]))
    expect = case["expect"]
    kf = set(case.get("kf") or ())
    bad = []
    for c in range(256):
        want = expect.get(c, "")
        if want is None:
            continue
        g = got.get(c) or ""
        if g != want:
            bad.append((c, want, g))
    extra = [c for c in got if not (isinstance(c, int) and 0 <= c <= 255)]
    if extra:
        return Outcome(classes, nt, fail="get_encoding(%r, %r) has keys outside 0..255: %r" % (enc, case["diff"], extra[:5]))
    if bad:
        if KEY_DIFF_KEEPS_BASE in runner.ACTIVE_KNOWN and all(b[0] in kf for b in bad):
            return Outcome(classes, nt, known=KEY_DIFF_KEEPS_BASE)
        return Outcome(classes, nt, fail="get_encoding(%r, %r): %s" % (enc, case["diff"], "; ".join(
            "code %d expected %r got %r" % b for b in bad[:6])))
    return Outcome(classes, nt, sample={"enc": enc, "diff": case["diff"]})


def run_case(case):
    mode = case["mode"]
    if mode == "font":
        return run_font(case)
    if mode == "cell":
        return run_cell(case)
    if mode == "name":
        return run_name(case)
    if mode == "getenc":
        return run_getenc(case)
    raise ValueError(mode)


# =====================================================================================================
# generators
# =====================================================================================================
_POOL = {}


def pools():
    if not _POOL:
        gl = F.glyphlist()
        _POOL["latin"] = F.latin_names()
        _POOL["all"] = sorted(gl)
        _POOL["multi"] = sorted(k for k, v in gl.items() if len(v) > 1)
    return _POOL


def _hex(rnd, n):
    return "".join(rnd.choice(F.HEXU) for _ in range(n))


def _scalar(rnd):
    k = rnd.randrange(8)
    if k == 0:
        return rnd.randrange(0x20, 0x7F)
    if k == 1:
        return rnd.randrange(0xA0, 0x250)
    if k == 2:
        return rnd.choice([0, 0xD7FF, 0xE000, 0xFFFF, 0xFFFD, 0xFEFF, 0xA0, 0xAD])
    if k == 3:
        return rnd.randrange(0xE000, 0xF900)
    v = rnd.randrange(0x10000)
    while 0xD800 <= v <= 0xDFFF:
        v = rnd.randrange(0x10000)
    return v


def good_component(rnd):
    """(component, kind) with the component mappable on its own."""
    P = pools()
    k = rnd.randrange(10)
    if k < 4:
        return rnd.choice(P["latin"]), "list"
    if k < 6:
        return rnd.choice(P["all"]), "list"
    if k == 6:
        return rnd.choice(P["multi"]), "list-multi"
    if k == 7:
        return "uni" + "".join("%04X" % _scalar(rnd) for _ in range(rnd.choice([1, 1, 1, 2, 3]))), "uni"
    if k == 8:
        return "uni%04X" % _scalar(rnd), "uni"
    j = rnd.randrange(4)
    if j == 0:
        return "u%04X" % _scalar(rnd), "u"
    if j == 1:
        return "u%05X" % rnd.choice([_scalar(rnd), rnd.randrange(0x10000, 0x100000)]), "u"
    if j == 2:
        return "u%06X" % rnd.choice([_scalar(rnd), rnd.randrange(0x10000, 0x110000), 0x10FFFF, 0x100000]), "u"
    return "u" + rnd.choice(["D7FF", "E000", "10FFFF", "0000", "00D7FF", "0E000", "FFFF"]), "u"


BAD_FIXED = ["foo", ".notdef", ".null", "NameMe", "Auni0041", "Au0041", "uni", "unix", "uniq0041", "U0041", "UNI0041",
             "uniuni0041", "uuni0041", "unin0041", "uniu0041", "uu0041", "uuu0041", "uni0041u", "uni0041n", "uni0041i",
             "u0041u", "u0041n", "u+0041", "uni+0041", "uni-0041", "u-0041", "uni0x41", "u0x0041", "u1F60000",
             "u0000000041", "u0000041", "u0010FFFF", "u00000041", "u110000", "uFFFFFF", "u11FFFF", "u200000", "uD800", "uDBFF", "uDC00", "uDFFF", "u00D800",
             "u00DFFF", "uniD800", "uniDFFF", "uni0041D800", "uniD8000041", "uniD83DDE00", "uni110000",
             "0041", "x0041", "cid65", "glyph65", "g65", "c65", "index65", "H", "h"]


def bad_component(rnd):
    """A single component (no '_', no '.') that is unmappable under AGL and under the lowercase-lenient reading."""
    gl = F.glyphlist()
    for _ in range(200):
        k = rnd.randrange(9)
        if k == 0:
            n = rnd.choice(BAD_FIXED)
        elif k == 1:
            n = rnd.choice(["g", "c", "glyph", "cid", "G", "index", "char", "afii9", "SF99", "a"]) + str(rnd.randrange(100000))
        elif k == 2:
            n = "uni" + _hex(rnd, rnd.choice([1, 2, 3, 5, 6, 7, 9, 10, 11]))
        elif k == 3:
            tail = rnd.choice(["zzzz", "GHIJ", "ghij", "wxyz", "zz", "z", "G", "g000", "000g", "00g0", "zzzzzzzz", "-", "+000"])
            n = "uni" + "".join("%04X" % _scalar(rnd) for _ in range(rnd.choice([1, 2]))) + tail
        elif k == 4:
            n = "uni" + "".join("%04X" % rnd.choice([_scalar(rnd), rnd.randrange(0xD800, 0xE000)]) for _ in range(rnd.choice([1, 2, 3])))
        elif k == 5:
            n = "u" + _hex(rnd, rnd.choice([1, 2, 3, 7, 8]))
        elif k == 6:
            n = "u%04X" % rnd.choice([rnd.randrange(0xD800, 0xE000), rnd.randrange(0x110000, 0x1000000), 0x110000])
        elif k == 7:
            n = "u" + _hex(rnd, rnd.choice([2, 3, 4, 5])) + rnd.choice(["z", "zz", "g", "G0", "x1", "-", "+"])
        else:
            n = rnd.choice(["uni", "u", "uu", "unin", "uniu", "nui"]) + rnd.choice(["uni", "u", ""]) + "%04X" % _scalar(rnd) + rnd.choice(["", "u", "n", "i", "uni"])
        if n in (".notdef", ".null"):
            return n, "bad"
        if "_" in n or "." in n:
            continue
        if F.agl_component(n, gl) is None and F.agl_component(n, gl, F.HEXU + "abcdef") is None:
            return n, "bad"
    raise AssertionError("bad_component: generator exhausted")


SUFFIXES = ["alt", "sc", "001", "swash_x", "a.b", "", "uni0042", "_B", "notdef", "u0041zz", "1"]


def gen_name(rnd, allow_bad=True, allow_mixed=False):
    """(glyph name, set of kinds).  Kinds: list, list-multi, uni, u, multi, suffix, bad, bad-multi, mixed."""
    k = rnd.randrange(20)
    kinds = set()
    if k < 9 or (not allow_bad and k >= 15):
        n, kd = good_component(rnd)
        kinds.add(kd)
    elif k < 12:
        parts = [good_component(rnd) for _ in range(rnd.choice([2, 2, 3, 4]))]
        n = "_".join(p[0] for p in parts)
        kinds |= {p[1] for p in parts} | {"multi"}
    elif k < 15:
        n, kd = gen_name(rnd, False)
        n = n.split(".", 1)[0] + "." + rnd.choice(SUFFIXES)
        kinds |= kd | {"suffix"}
    elif k < 18:
        n, kd = bad_component(rnd)
        kinds.add("bad")
        if rnd.random() < 0.15:
            n = n + "." + rnd.choice(SUFFIXES)
            kinds.add("suffix")
    elif k == 18:
        n = "_".join(bad_component(rnd)[0] for _ in range(rnd.choice([2, 3])))
        kinds |= {"bad", "bad-multi"}
    else:
        if allow_mixed:
            parts = [good_component(rnd)[0], bad_component(rnd)[0]] + ([good_component(rnd)[0]] if rnd.random() < 0.3 else [])
            rnd.shuffle(parts)
            n = "_".join(parts)
            kinds.add("mixed")
        else:
            n, kd = good_component(rnd)
            kinds.add(kd)
    # names go through the PDF name syntax / PostScript; keep the grammar's alphabet
    assert all(33 <= ord(ch) < 127 and ch not in "()<>[]{}/%#" for ch in n), n
    if not n:
        return gen_name(rnd, allow_bad, allow_mixed)
    kind = F.agl_kind(n)
    if kind == "mixed" and not allow_mixed:
        return gen_name(rnd, allow_bad, allow_mixed)
    if F.agl_lenient_differs(n):
        return gen_name(rnd, allow_bad, allow_mixed)
    return n, kinds


def _mw(missing):
    """/MissingWidth is a number: integer or real."""
    return missing if missing is None or isinstance(missing, int) else W.Real("%.2f" % float(missing))


@st.composite
def name_cases(draw):
    rnd = random.Random(draw(st.integers(0, 2 ** 32)))
    n, kinds = gen_name(rnd, True, True)
    return {"mode": "name", "name": n, "classes": sorted("name:" + k for k in kinds), "nt": kinds != {"list"}}


def _draw_runs(draw, rnd, allow_bad=True):
    nruns = draw(st.integers(0, 6))
    runs = []
    kinds = set()
    for _ in range(nruns):
        first = draw(st.one_of(st.integers(0, 255), st.sampled_from([0, 32, 65, 97, 127, 128, 160, 173, 200, 255])))
        ln = min(draw(st.sampled_from([1, 1, 2, 3, 5, 8, 20])), 256 - first)
        names = []
        for _ in range(ln):
            n, kd = gen_name(rnd, allow_bad)
            names.append(n)
            kinds |= kd
        runs.append((first, names))
    return runs, kinds


BASES = F.ENCODING_NAMES


@st.composite
def getenc_cases(draw):
    rnd = random.Random(draw(st.integers(0, 2 ** 32)))
    enc = draw(st.sampled_from(BASES))
    # a base encoding the library has no table for (it falls back to another table): only the codes that
    # /Differences assigns are asserted, but the shared tables must stay untouched
    unknown = draw(st.integers(0, 6)) == 0
    runs, kinds = _draw_runs(draw, rnd)
    diff = []
    assigned = set()
    for first, names in runs:
        diff.append(first)
        diff.extend(names)
        assigned.update(range(first, first + len(names)))
    spec = {"flavor": "plain", "subtype": "Type1", "enc": {"base": enc, "runs": runs}, "builtin": None, "tounicode": None,
            "first": 0, "widths": [], "missing": 0, "a": None, "basefont": "X"}
    ex, kf = model(spec)
    expect = {}
    for c in range(256):
        t = ex[c][0]
        expect[c] = None if t is None else ("" if t == "(cid:%d)" % c else t)
        if unknown and c not in assigned:
            expect[c] = None
    if unknown:
        enc = draw(st.sampled_from(["MacExpertEncoding", "NoSuchEncoding", "Symbol"]))
        kinds = set(kinds) | {"unknown-base"}
    return {"mode": "getenc", "enc": enc, "diff": diff, "expect": expect, "kf": kf.get(KEY_DIFF_KEEPS_BASE, []),
            "classes": sorted("name:" + k for k in kinds) + ["runs:%d" % len(runs)], "nt": bool(runs)}


def _gen_tounicode(rnd, enc_texts):
    """{code: target}: runs with consecutive targets (so that bfrange forms occur), singles, agreeing entries."""
    m = {}
    if rnd.random() < 0.08:
        # one range over all 256 codes, <00> <FF> <xx00>: 256 members, the last one is code 255
        t0 = rnd.choice([0x4E00, 0x100, 0x3000, 0xE000, 0xAC00])
        return {c: chr(t0 + c) for c in range(256)}
    for _ in range(rnd.choice([0, 1, 1, 2, 3, 5])):
        lo = rnd.randrange(256)
        n = rnd.choice([1, 2, 3, 5, 10, 26, 40, 100])
        t0 = rnd.choice([0x41, 0x61, 0x30, 0xC0, 0x391, 0x410, 0x3041, 0x4E00, 0xE000, 0xF0, 0x1F0, 0xFFE0, 0x20AC, 0x1F600,
                         rnd.randrange(0x20, 0x3000)])
        prefix = rnd.choice(["", "", "", "x", "\xe9", "\U0001D11E"])
        identity = rnd.random() < 0.15
        for k in range(n):
            if lo + k > 255:
                break
            v = (lo + k) if identity else t0 + k
            if 0xD800 <= v <= 0xDFFF or v > 0x10FFFF:
                continue
            m[lo + k] = prefix + chr(v)
    for _ in range(rnd.choice([0, 0, 3, 10, 30])):
        c = rnd.randrange(256)
        m[c] = rnd.choice(["ffi", "fi", "\U0001D11E", "a", "\xe9", "e\u0301", " ", "\xa0", "\x00", "\ufffd", "A", "-", "st",
                           "(cid:%d)" % c, chr(rnd.randrange(0x20, 0xD800)), chr(rnd.randrange(0xE000, 0x110000)),
                           "".join(chr(rnd.randrange(0x21, 0x7F)) for _ in range(rnd.randint(2, 6)))])
    for _ in range(rnd.choice([0, 0, 5, 40])):
        c = rnd.randrange(256)
        if enc_texts.get(c):
            m[c] = enc_texts[c]
    return m


STD_A = [("0.001", Fraction(1, 1000)), ("0.001", Fraction(1, 1000)), (".002", Fraction(2, 1000)),
         ("0.0005", Fraction(5, 10000)), ("0.01", Fraction(1, 100)), ("0.00048828125", Fraction(1, 2048)), ("1", Fraction(1)),
         ("0.0009765625", Fraction(1, 1024))]


@st.composite
def font_cases(draw, flavor=None):
    rnd = random.Random(draw(st.integers(0, 2 ** 32)))
    flavor = flavor or draw(st.sampled_from(["plain", "plain", "std14", "embedded", "embedded", "type3"]))
    classes = ["flavor:" + flavor]
    if flavor == "plain":
        subtype = draw(st.sampled_from(["Type1", "MMType1", "TrueType"]))
    elif flavor == "std14":
        subtype = "Type1"
    elif flavor == "embedded":
        subtype = draw(st.sampled_from(["Type1", "Type1", "MMType1"]))
    else:
        subtype = "Type3"
    classes.append("subtype:" + subtype)
    basefont = rnd.choice(F.STD14_LATIN) if flavor == "std14" else draw(st.sampled_from(
        ["VerifFont", "ABCDEF+VerifFont", "Verif-Bold", "HelveticaNeue", "Arial-BoldMT", "Times",
         # subsets of fonts that merely carry a standard-14 name after their tag: their own /Widths count
         "ABCDEF+Helvetica", "XYZABC+Times-Roman", "QWERTY+Courier-Bold"]))
    # ---- encoding
    ek = draw(st.sampled_from(["absent", "name", "dict", "dict", "dict-nobase"]))
    if flavor == "type3" and ek in ("absent", "name"):
        ek = "dict"
    if flavor == "embedded":
        ek = draw(st.sampled_from(["absent", "absent", "absent", "name", "dict"]))
    kinds = set()
    if ek == "absent":
        enc = None
    elif ek == "name":
        enc = {"name": draw(st.sampled_from(BASES))}
    else:
        runs, kinds = _draw_runs(draw, rnd)
        if flavor == "type3" and not runs:
            n, kd = gen_name(rnd)
            runs, kinds = [(65, [n])], set(kd)
        enc = {"base": None if ek == "dict-nobase" else draw(st.sampled_from(BASES)), "runs": runs}
    classes.append("enc:" + ek + ((":" + (enc.get("name") or enc.get("base") or "-")) if enc else ""))
    # ---- built-in encoding of an embedded Type 1 program
    builtin = None
    decoy = []
    if flavor == "embedded":
        codes = rnd.sample(range(256), rnd.choice([0, 1, 5, 20, 60, 150, 256]))
        if rnd.random() < 0.5:
            codes.sort()
        builtin = []
        for c in codes:
            n, kd = gen_name(rnd)
            builtin.append((c, n))
            if enc is None:
                kinds |= kd
        free = [c for c in range(256) if c not in set(codes)]
        decoy = [(c, rnd.choice(["A", "B", "uni0043"])) for c in rnd.sample(free, min(len(free), rnd.choice([0, 1, 3])))]
        classes.append("builtin:" + ("used" if enc is None else "overridden"))
        if decoy:
            classes.append("builtin-decoy-after-length1")
    # ---- widths
    a = None
    if flavor == "std14":
        first, widths, missing = None, None, None
    else:
        first = draw(st.one_of(st.integers(0, 255), st.sampled_from([0, 32, 1, 255])))
        ln = draw(st.one_of(st.integers(0, 256 - first), st.just(256 - first), st.sampled_from([0, 1])))
        ln = min(ln, 256 - first)
        widths = []
        for _ in range(ln):
            r = rnd.random()
            widths.append(rnd.randrange(0, 1500) if r < 0.9 else (0 if r < 0.93 else Fraction(rnd.randrange(0, 6000), 4)))
        missing = draw(st.sampled_from([None, None, 0, 250, 500, 1000, 777, Fraction(555, 2), Fraction(1001, 4)]))
        if flavor == "type3":
            atext, a = draw(st.sampled_from(STD_A))
            dtext = draw(st.sampled_from(["0.001", "0.002", "0.0015", "0.01", "0.004"]))
    # ---- model without ToUnicode first (to know the encoding's texts), then ToUnicode
    spec = {"flavor": flavor, "subtype": subtype, "enc": enc, "builtin": builtin, "tounicode": None, "first": first,
            "widths": widths, "missing": missing, "a": a, "basefont": basefont}
    ex0, _ = model(spec)
    enc_texts = {c: (t if t is not None and t != "(cid:%d)" % c else None) for c, (t, _) in ex0.items()}
    tu = None
    if draw(st.integers(0, 9)) < 6:
        tu = _gen_tounicode(rnd, enc_texts)
        spec["tounicode"] = tu
    # ---- non-triviality
    diffcodes = set()
    if enc is not None and "runs" in enc:
        for f0, names in enc["runs"]:
            diffcodes |= set(range(f0, f0 + len(names)))
    nt_reasons = []
    if tu and any(enc_texts.get(c) and enc_texts[c] != t for c, t in tu.items()):
        nt_reasons.append("tounicode-disagrees")
    if diffcodes:
        nt_reasons.append("differences")
    if kinds & {"multi", "suffix"}:
        nt_reasons.append("multi-or-suffix-name")
    if flavor == "embedded" and enc is None and builtin:
        nt_reasons.append("builtin-encoding")
    if flavor != "std14" and len(widths) < 256:
        nt_reasons.append("width-outside-range")
    classes += ["nt:" + r for r in nt_reasons] + ["name:" + k for k in sorted(kinds)]
    classes.append("tounicode:" + ("yes" if tu else ("empty" if tu is not None else "no")))
    size = draw(st.sampled_from([1, 10, 12, 7]))
    case = assemble(spec, rnd, size, decoy, atext if flavor == "type3" else None, dtext if flavor == "type3" else None)
    case["classes"] = sorted(set(classes + case["classes"]))
    case["nt"] = bool(nt_reasons)
    return case


def _stream(data, rnd):
    if rnd.random() < 0.4:
        return W.Stream(W.D(Filter=W.N("FlateDecode")), zlib.compress(data))
    return W.Stream({}, data)


def assemble(spec, rnd, size=10, decoy=(), atext=None, dtext=None):
    """Abstract font spec -> font case (document bytes, expected text/advance of all 256 codes).
    `rnd` decides the free choices of the writer (direct/indirect values, CMap entry forms, EOLs, Tj/TJ)."""
    flavor, subtype, basefont, enc, builtin = spec["flavor"], spec["subtype"], spec["basefont"], spec["enc"], spec["builtin"]
    tu, first, widths, missing, a = spec["tounicode"], spec["first"], spec["widths"], spec["missing"], spec["a"]
    ex, kf = model(spec)
    classes = []
    extra = {}

    def put(n, v, chance=0.7):
        if rnd.random() < chance:
            extra[n] = v
            return W.R(n)
        return v

    encv = None
    if enc is not None:
        if "name" in enc:
            encv = W.N(enc["name"])
        else:
            encv = put(20, F.encoding_value(enc["base"], enc["runs"], with_type=rnd.random() < 0.5), 0.6)
    tuv = None
    if tu is not None:
        data, entries = F.tounicode_cmap(tu, rnd, boilerplate=rnd.random() < 0.85)
        extra[23] = _stream(data, rnd)
        tuv = W.R(23)
        for k in ("char", "range", "array"):
            if any(e[0] == k for e in entries):
                classes.append("tounicode-entry:" + k)
        if any(len(t.encode("utf-16-be")) > 2 for t in tu.values()):
            classes.append("tounicode-multi-unit-target")
    names_for_msg = {}
    if enc is not None and "runs" in enc:
        for f0, nms in enc["runs"]:
            for i, n in enumerate(nms):
                names_for_msg[str(f0 + i)] = n
    elif builtin is not None and enc is None:
        names_for_msg = {str(c): n for c, n in builtin}
    wv = None
    if widths is not None:
        wv = [w if isinstance(w, int) else W.Real(("%.2f" % float(w))) for w in widths]
        assert all(isinstance(w, int) or Fraction(("%.2f" % float(w))) == w for w in widths)
        if wv and rnd.random() < 0.15:
            k = rnd.randrange(len(wv))
            extra[26] = wv[k]
            wv[k] = W.R(26)
            classes.append("widths-element-indirect")
    if flavor == "type3":
        assert Fraction(atext if not atext.startswith(".") else "0" + atext) == a
        cp = {}
        if enc and "runs" in enc:
            for _, nms in enc["runs"]:
                for n in nms:
                    cp[n.encode("latin-1")] = W.R(25)
        cp[b".notdef"] = W.R(25)
        extra[25] = W.Stream({}, b"500 0 d0\n")
        desc = None
        if missing is not None or rnd.random() < 0.3:
            dd = F.font_descriptor("VerifT3", _mw(missing), flags=4, bbox=(0, 0, 1000, 1000))
            if rnd.random() < 0.4:
                # /FontBBox is optional in the descriptor of a Type 3 font (the font dictionary has its own)
                dd.pop(b"FontBBox", None)
                classes.append("type3-descriptor-without-FontBBox")
            desc = put(21, dd, 0.7)
        fd = F.type3_font_dict(encv, cp, [W.Real(atext), 0, 0, W.Real(dtext), 0, 0], first, put(24, wv, 0.3), descriptor=desc,
                               tounicode=tuv, resources=rnd.random() < 0.5, nwidths=len(wv))
        classes.append("type3-a:" + atext)
    elif flavor == "std14":
        fd = F.simple_font_dict(subtype, basefont, encv, tounicode=tuv)
    else:
        ff = None
        if flavor == "embedded":
            ffs, info = F.type1_fontfile(builtin, rnd, decoy, fontname=basefont.replace("+", "-"))
            if rnd.random() < 0.4:
                d = dict(ffs[1])
                d[b"Filter"] = W.N("FlateDecode")
                ffs = W.Stream(d, zlib.compress(ffs[2]))
            extra[22] = ffs
            ff = W.R(22)
        desc = put(21, F.font_descriptor(basefont, _mw(missing), flags=32, fontfile=ff), 0.8)
        fd = F.simple_font_dict(subtype, basefont, encv, first, put(24, wv, 0.3), desc, tuv, with_lastchar=rnd.random() < 0.9,
                                nwidths=len(wv))
    content = F.show_all_codes("F1", size, rnd=rnd)
    pdf = W.page_doc(content, fonts={"F1": fd}, extra=extra)
    desc_out = {"flavor": flavor, "subtype": subtype, "basefont": basefont, "encoding": enc,
                "builtin": None if builtin is None else len(builtin), "tounicode_codes": None if tu is None else len(tu),
                "first": first, "nwidths": None if widths is None else len(widths), "missing": None if missing is None else float(missing),
                "fontmatrix_a": atext, "size": size}
    return {"mode": "font", "pdf": pdf, "size": size, "expect": [list(ex[c]) for c in range(256)], "kf": kf,
            "desc": desc_out, "names": names_for_msg, "classes": classes, "nt": True}


def font_spec(flavor="plain", subtype="Type1", basefont="VerifFont", enc=None, builtin=None, tounicode=None, first=0,
              widths=None, missing=None, a=None):
    if flavor == "std14":
        first = widths = missing = None
    elif widths is None:
        widths = [500] * (256 - first)
    return {"flavor": flavor, "subtype": subtype, "enc": enc, "builtin": builtin, "tounicode": tounicode, "first": first,
            "widths": widths, "missing": missing, "a": a, "basefont": basefont}


def make_replays(outdir):
    """Writes the pinned demonstrations of the defects this check found (run once by hand)."""
    import json
    import os

    R0 = lambda: random.Random(0)  # noqa: E731
    cases = {
        "name2unicode_valueerror_uni_tail": ({"mode": "name", "name": "uni0041zzzz", "classes": [], "nt": True},
                                             "name2unicode('uni0041zzzz') raised ValueError"),
        "name2unicode_valueerror_u_range": ({"mode": "name", "name": "u110000", "classes": [], "nt": True},
                                            "name2unicode('u110000') raised ValueError"),
        "name2unicode_strip_prefix": ({"mode": "name", "name": "uniuni0041", "classes": [], "nt": True},
                                      "name2unicode('uniuni0041') returned 'A' (str.strip removes repeated prefixes)"),
        "type1_builtin_encoding_valueerror": (
            assemble(font_spec("embedded", builtin=[(65, "A"), (66, "u0042zz"), (67, "C")]), R0()),
            "embedded Type 1 program with glyph name u0042zz: page extraction raised ValueError"),
        "winansi_173_is_hyphen": ({"mode": "cell", "enc": "WinAnsiEncoding", "code": 173},
                                  "WinAnsiEncoding 0xAD is mapped to space instead of hyphen"),
        "differences_unmappable_keeps_base": (
            assemble(font_spec("plain", enc={"base": "MacRomanEncoding", "runs": [(65, ["g65", ".notdef"])]}), R0()),
            "codes re-assigned by /Differences to glyphs without Unicode value still report the base encoding's letter"),
        "std14_width_via_tounicode": (
            assemble(font_spec("std14", basefont="Helvetica", enc={"base": "MacRomanEncoding", "runs": [(1, ["fi"])]},
                               tounicode={1: "fi", 87: "i"}), R0()),
            "standard-14 font: advance looked up by the ToUnicode text instead of the character the encoding selects"),
    }
    os.makedirs(outdir, exist_ok=True)
    for name, (case, msg) in cases.items():
        with open(os.path.join(outdir, name + ".json"), "w") as f:
            json.dump({"property": ID, "expect": "pass", "msg": msg, "case": runner._enc(case)}, f, indent=1)


# =====================================================================================================
def cell_cases():
    return [{"mode": "cell", "enc": e, "code": c} for e in F.ENCODING_NAMES for c in range(256)]


def exhaustive(tier):
    return True  # the 4 x 256 base-table cells are always fully enumerated; everything else is sampled


def plan(tier):
    q = tier == "quick"
    specs = [{"kind": "cells"}]
    specs += [{"kind": "name", "n": 4000 if q else 60000} for _ in range(3)]
    specs += [{"kind": "getenc", "n": 1500 if q else 15000} for _ in range(2)]
    for fl in ["plain", "plain", "plain", "std14", "std14", "embedded", "embedded", "embedded", "type3", "type3"]:
        specs.append({"kind": "font", "flavor": fl, "n": 150 if q else 1300})
    specs += [{"kind": "font", "flavor": None, "n": 150 if q else 1300} for _ in range(6)]
    return specs


def run_shard(spec, ctx):
    k = spec["kind"]
    if k == "cells":
        return enum_search(ctx, cell_cases(), run_case, stop_after=8)
    if k == "name":
        return hyp_search(ctx, name_cases(), run_case, spec["n"])
    if k == "getenc":
        return hyp_search(ctx, getenc_cases(), run_case, spec["n"])
    return hyp_search(ctx, font_cases(spec["flavor"]), run_case, spec["n"])
