"""C02 — cross-reference resolution: newest definition wins, in every physical form; damage -> body scan."""
import io
import random
import re

from hypothesis import strategies as st

from vlib import pdfwrite as W
from vlib import runner
from vlib import strategies as S
from vlib import xrefwrite as X
from vlib.runner import Outcome, hyp_search

ID = "C02"
LEVEL = "exploration"
RULE = ("Hypothesis draws a revision history (1-5 revisions; each defines/overrides a sparse set of object numbers "
        "1-40 with generated values incl. streams, may introduce a new /Root or /Info) and, independently per "
        "revision and per rendering, a physical form: classic table (3 EOL styles, 3 entry terminators, extra "
        "subsections, free entries for never-defined numbers), xref stream (/W variants, explicit multi-range or "
        "default /Index, Flate with/without PNG-Up predictor) or hybrid (/XRefStm), objects direct or packed into 1-3 "
        "object streams.  Each history is rendered in 2 form assignments and read with caching on/off and BUFSIZ in "
        "{7,16,64,4096}.  Oracle: dictionary model latest[n]; getobj(n) (ascending, permuted, repeated), per-section "
        "get_objids, catalog and info must equal the model for every rendering.  Damage cases: single-revision "
        "classic file with startxref operand replaced / xref section made syntactically invalid / well-formed "
        "entries with wrong offsets: every object and the extracted text must equal the undamaged file's.  "
        "Non-trivial = >=2 revisions with an overridden number, or a compressed object, or multi-range /Index, or a "
        "hybrid section, or a damage case where the body-scan fallback was taken; distinct by case encoding.")
ASSUMPTIONS = ["vlib/xrefwrite.py writes conformant cross-reference sections (free entries only for never-defined numbers)",
               "no object is deleted by an update; generation 0 for objects in object streams",
               "damage cases: stream data that spells `endstream` only where the table is readable and single offsets are "
               "wrong (without any usable cross-reference the body scan ends stream data at the first `endstream` on purpose)"]

BUFS = [7, 16, 64, 4096]


def _stream_value(draw_bytes):
    return W.Stream({b"Length": len(draw_bytes)}, draw_bytes)


def catalog(marker):
    return W.D(Type=W.N("Catalog"), Pages=W.R(900), V=marker)


@st.composite
def histories(draw):
    nrev = draw(st.integers(1, 5))
    revs = []
    root = 1
    marker = 0
    for i in range(nrev):
        nums = draw(st.lists(st.integers(3, 40), min_size=0 if i else 1, max_size=8, unique=True))
        defs = {}
        for n in nums:
            if draw(st.integers(0, 4)) == 0:
                data = draw(st.binary(max_size=30))
                defs[n] = W.Stream({b"Length": len(data), b"K": draw(st.integers(0, 9))}, data)
            else:
                defs[n] = draw(S.values(6, 20))
        info = None
        if i == 0:
            defs[1] = catalog(marker)
        else:
            k = draw(st.integers(0, 3))
            if k == 1:  # override the catalog object
                marker += 1
                defs[root] = catalog(marker)
            elif k == 2:  # a new catalog object, trailer points at it
                marker += 1
                root = draw(st.integers(41, 60).filter(lambda n: n not in defs))
                defs[root] = catalog(marker)
        if draw(st.booleans()):
            info = 2 if draw(st.booleans()) else draw(st.integers(61, 70))
            marker += 1
            defs[info] = {b"Title": b"info%d" % marker}
        gens = {}
        for n in defs:
            if draw(st.integers(0, 9)) == 0:
                gens[n] = draw(st.sampled_from([1, 7, 65535]))
        revs.append({"defs": defs, "root": root, "info": info, "gens": gens})
    if 900 not in revs[0]["defs"]:
        revs[0]["defs"][900] = W.D(Type=W.N("Pages"), Kids=[], Count=0)
    return revs


@st.composite
def physical(draw, nrev, hist):
    out = []
    for i in range(nrev):
        form = draw(st.sampled_from(["table", "stream", "hybrid", "stream"]))
        d = hist[i]["defs"]
        gens = hist[i].get("gens", {})
        pack = [n for n in d if not W.is_stream(d[n]) and not W.is_ref(d[n]) and gens.get(n, 0) == 0
                and draw(st.booleans())]
        out.append({
            "form": form, "pack": pack, "nstm": draw(st.integers(1, 3)),
            "eol": draw(st.sampled_from([b"\n", b"\r\n", b"\r"])),
            # the value of an object may start on the line of its header: `4 0 obj <<...>>`, `4 0 obj<<...>>`
            **({"head_sep": draw(st.sampled_from([b" ", b"", b"\t"]))} if draw(st.integers(0, 3)) == 0 else {}),
            # the dictionary may follow the keyword `trailer` on the same line
            **({"trailer_sep": draw(st.sampled_from([b" ", b"", b"  ", b"\t"]))} if draw(st.integers(0, 3)) == 0 else {}),
            "entry_eol": draw(st.sampled_from([b" \n", b" \r", b"\r\n"])),
            "split": draw(st.booleans()), "pad_free": draw(st.booleans()),
            "w": draw(st.sampled_from([[1, 2, 1], [1, 3, 2], [1, 4, 2], [0, 2, 0], [2, 4, 2], [1, 2, 0]])),
            "index_default": draw(st.booleans()), "flate": draw(st.booleans()), "png_up": draw(st.booleans()),
            "index_order": draw(st.sampled_from([None, None, "reversed", "rotated"])),
            "png_rows": draw(st.one_of(st.none(), st.lists(st.integers(0, 4), min_size=1, max_size=5))),
            "png_predictor": draw(st.sampled_from([12, 12, 10, 11, 13, 14, 15])),
            "objstm_flate": draw(st.booleans()),
        })
        if form == "table" and i > 0 and out[i - 1]["form"] == "hybrid" and draw(st.booleans()):
            # the trailer of the update was copied from the hybrid revision before it, /XRefStm included
            out[i]["copy_xrefstm"] = True
    return out


@st.composite
def hist_cases(draw):
    h = draw(histories())
    rend = [draw(physical(len(h), h)) for _ in range(2)]
    latest_n = sorted(set().union(*[set(r["defs"]) for r in h]))
    perm = draw(st.permutations(latest_n))
    return {"kind": "hist", "history": h, "renderings": rend, "perm": list(perm),
            "bufsiz": draw(st.sampled_from(BUFS)), "caching": draw(st.booleans()),
            "tail": draw(st.sampled_from([b"", b"\n", b"\r\n", b"  \n", b"\n\n"]))}


def _merge(h, phys):
    out = []
    for r, p in zip(h, phys):
        d = dict(r)
        d.update(p)
        out.append(d)
    return out


def _with_bufsiz(b, fn):
    from pdfminer.psparser import PSBaseParser

    old = PSBaseParser.BUFSIZ
    PSBaseParser.BUFSIZ = b
    try:
        return fn()
    finally:
        PSBaseParser.BUFSIZ = old


def run_hist(case):
    from pdfminer.pdfdocument import PDFDocument, PDFXRefStream
    from pdfminer.pdfparser import PDFParser

    h = case["history"]
    latest = {}
    for r in h:
        latest.update(r["defs"])
    classes = ["hist", "revs:%d" % len(h)]
    nt = False
    overridden = any(set(h[i]["defs"]) & set().union(*[set(h[j]["defs"]) for j in range(i)]) for i in range(1, len(h)))
    if len(h) >= 2 and overridden:
        nt = True
        classes.append("override")
    for ri, phys in enumerate(case["renderings"]):
        revs = _merge(h, phys)
        data, meta = X.write_history(revs, tail=case["tail"])
        forms = [p["form"] for p in phys]
        for p in phys:
            classes.append("form:" + p["form"])
            if p["form"] != "table" and p["pack"]:
                classes.append("objstm")
                nt = True
            if p["form"] == "hybrid":
                nt = True
            if p.get("copy_xrefstm"):
                classes.append("xrefstm-named-twice")
        desc = lambda: "rendering %d forms=%r bufsiz=%d caching=%r" % (ri, forms, case["bufsiz"], case["caching"])  # noqa: E731

        def body():
            doc = PDFDocument(PDFParser(io.BytesIO(data)), caching=case["caching"])
            for order in (sorted(latest), case["perm"], sorted(latest)):
                for n in order:
                    try:
                        got = W.observe(doc.getobj(n))
                    except Exception as e:
                        return "getobj(%d) raised %s: %s" % (n, type(e).__name__, e)
                    exp = W.expected(latest[n])
                    if not W.same(got, exp):
                        return "getobj(%d): %s" % (n, W.first_diff(exp, got))
            # per-section object ids
            want = []
            for i in reversed(range(len(phys))):
                form, sec, k = phys[i]["form"], meta["sections"][i], 2 if phys[i]["form"] == "hybrid" else 1
                if i in meta["copied_xrefstm"]:
                    # table + the cross-reference stream of the hybrid revision before it, named once more
                    sec, k = sec | meta["hybrid_parts"][i - 1][2], 2
                elif (i + 1) in meta["copied_xrefstm"]:
                    # ... which is therefore not read a second time: only the table of this hybrid revision follows
                    sec, k = meta["hybrid_parts"][i][1], 1
                want.append((form, sec, k))
            xi = 0
            for form, sec, k in want:
                if xi + k > len(doc.xrefs):
                    return "only %d xref sections loaded, expected more (forms %r)" % (len(doc.xrefs), forms)
                ids = set()
                for xr in doc.xrefs[xi:xi + k]:
                    ids |= set(xr.get_objids())
                    if isinstance(xr, PDFXRefStream) and len(xr.ranges) > 1:
                        classes.append("multi-range-index")
                xi += k
                if ids != sec:
                    return "section (%s) reports objids %r, its revision defined %r" % (form, sorted(ids), sorted(sec))
            if xi != len(doc.xrefs):
                return "%d xref sections loaded, expected %d" % (len(doc.xrefs), xi)
            allids = set().union(*[set(x.get_objids()) for x in doc.xrefs])
            if allids != set(latest) | meta["containers"]:
                return "union of objids %r != defined %r" % (sorted(allids), sorted(set(latest) | meta["containers"]))
            exp_cat = W.expected(latest[h[-1]["root"]])
            if not W.same(W.observe(doc.catalog), exp_cat):
                return "catalog: %s" % W.first_diff(exp_cat, W.observe(doc.catalog))
            if h[-1].get("info") is not None:
                if not doc.info or not W.same(W.observe(doc.info[0]), W.expected(latest[h[-1]["info"]])):
                    return "info %r != newest /Info %r" % (doc.info[:1], latest[h[-1]["info"]])
            elif doc.info:
                return "info %r although the newest trailer has no /Info" % (doc.info,)
            return None

        try:
            msg = _with_bufsiz(case["bufsiz"], body)
        except Exception as e:
            msg = "raised %s: %s" % (type(e).__name__, e)
        if msg:
            return Outcome(sorted(set(classes)), nt, fail="%s; %s" % (msg, desc()))
    if "multi-range-index" in classes:
        nt = True
    return Outcome(sorted(set(classes)), nt, sample={"revisions": [sorted(r["defs"]) for r in h],
                                                       "forms": [[p["form"] for p in ph] for ph in case["renderings"]]})


# ------------------------------------------------------------------------------------ damage / fallback
def damage_doc(case):
    """Single-revision classic-table document with a page, text and assorted objects."""
    objs = dict(case["objs"])
    content = b"BT /F1 12 Tf 50 700 Td (%s) Tj ET" % case["text"]
    objs[1] = W.D(Type=W.N("Catalog"), Pages=W.R(2))
    objs[2] = W.D(Type=W.N("Pages"), Kids=[W.R(3)], Count=1)
    objs[3] = W.D(Type=W.N("Page"), Parent=W.R(2), MediaBox=[0, 0, 612, 792], Contents=W.R(4),
                  Resources={b"Font": {b"F1": W.R(5)}})
    if case.get("len_indirect"):
        objs[4] = W.Stream({b"Length": W.R(40)}, content)
        objs[40] = len(content)
    else:
        objs[4] = W.Stream({b"Length": len(content)}, content)
    objs[5] = W.simple_font()
    revs = [{"defs": objs, "root": 1, "info": None, "form": "table", "eol": case.get("eol", b"\n"),
             "entry_eol": case.get("entry_eol", b" \n"), "split": case.get("split", False),
             "stream_eol": case.get("stream_eol", b"\n"), "stream_end_eol": case.get("stream_end_eol", b"\n")}]
    if case.get("head_sep") is not None:
        revs[0]["head_sep"] = case["head_sep"]
    data, meta = X.write_history(revs)
    return data, meta, objs


def apply_damage(data, meta, dmg):
    k = dmg["kind"]
    sx = data.rindex(b"startxref")
    if k == "startxref":
        if dmg["value"].startswith(b"@"):
            # the offset of an object instead of that of the table
            import re as _re
            m = _re.search(rb"(?m)^%d 0 obj" % int(dmg["value"][1:]), data)
            dmg = dict(dmg, value=b"%d" % (m.start() if m else 0))
        eol = data[sx + 9:sx + 11]
        eol = eol if eol == b"\r\n" else eol[:1]
        end = data.index(b"%%EOF", sx)
        return data[:sx] + b"startxref" + eol + dmg["value"] + eol + data[end:]
    (a, b) = meta["xref_spans"][0]
    table = data[a:b]
    if k == "xref-keyword":
        return data[:a] + dmg["value"] + table[4:] + data[b:]
    lines = table.splitlines(keepends=True)
    if k == "subsection-header":
        lines[1] = dmg["value"] + lines[1][len(lines[1].rstrip(b"\r\n")):]
    elif k == "entry":
        i = 2 + dmg["index"] % max(1, len(lines) - 2)
        lines[i] = dmg["value"] + lines[i][len(lines[i].rstrip(b"\r\n ")):]
    elif k == "truncate-table":
        lines = lines[:2 + dmg["index"] % max(1, len(lines) - 2)]
    elif k == "wrong-offsets":
        rnd = random.Random(dmg["seed"])
        for i in range(2, len(lines)):
            f = lines[i].split(b" ")
            if len(f) >= 3 and f[2][:1] == b"n" and rnd.random() < 0.5:
                off = int(f[0]) + rnd.choice([-7, -1, 1, 3, 50, 100000])
                lines[i] = b"%010d" % max(0, off) + lines[i][10:]
    return data[:a] + b"".join(lines) + data[b:]


ENTRY_RE = re.compile(rb"\d{10} \d{5} [nf]( \r| \n|\r\n)")


def table_entries(data, start, need_keyword=True):
    """Independent reading of a classic xref section starting at `start` (ISO 32000-1 7.5.4): the set of object numbers
    it lists as in use, or None when it is not well-formed.  With need_keyword=False the section may start at a
    subsection header (a startxref offset pointing into the table)."""
    m = re.compile(rb"xref[ \t]*(\r\n|\r|\n)").match(data, start)
    if not m:
        if need_keyword:
            return None
        m = re.compile(rb"[ \t\r\n]*").match(data, start)
    pos = m.end()
    nsub = 0
    inuse = set()
    while True:
        if data.startswith(b"trailer", pos):
            return inuse if nsub > 0 else None
        h = re.compile(rb"(\d+) (\d+)[ \t]*(\r\n|\r|\n)").match(data, pos)
        if not h:
            return None
        pos = h.end()
        for i in range(int(h.group(2))):
            e = ENTRY_RE.match(data, pos)
            if not e:
                return None
            if data[pos + 17:pos + 18] == b"n":
                inuse.add(int(h.group(1)) + i)
            pos = e.end()
        nsub += 1


def table_wellformed(data, start, need_keyword=True):
    return table_entries(data, start, need_keyword) is not None


@st.composite
def damage_cases(draw):
    nums = draw(st.lists(st.integers(6, 30), max_size=8, unique=True))
    objs = {}
    for n in nums:
        if draw(st.integers(0, 3)) == 0:
            lines = draw(st.lists(st.sampled_from([b"abc", b"", b"12 0 R", b"x endobj y", b"<< /A 1 >>", b"\x00\xff", b"stream",
                                                   # /Length delimits the data, whatever the data spells
                                                   b"endstream", b"(before endstream after) Tj", b"endstream endobj"]),
                                  max_size=4))
            payload = b"\n".join(lines)
            objs[n] = W.Stream({b"Length": len(payload)}, payload)
        else:
            objs[n] = draw(S.values(6, 20))
    text = draw(st.text("ABCDEFGHabcdefgh ", min_size=1, max_size=12)).strip().encode() or b"A"
    kind = draw(st.sampled_from(["startxref", "startxref", "xref-keyword", "subsection-header", "entry", "truncate-table",
                                 "wrong-offsets"]))
    if kind != "wrong-offsets":
        # without any usable cross-reference the body scan deliberately distrusts /Length and ends stream data at the
        # first `endstream` (documented fallback behaviour): data spelling that keyword is only used where the table is
        # readable and single entries are wrong
        for n, v in list(objs.items()):
            if W.is_stream(v) and b"endstream" in v[2]:
                payload = v[2].replace(b"endstream", b"endstreax")
                objs[n] = W.Stream({b"Length": len(payload)}, payload)
    dmg = {"kind": kind, "index": draw(st.integers(0, 50)), "seed": draw(st.integers(0, 2 ** 16))}
    if kind == "startxref":
        dmg["value"] = draw(st.one_of(st.integers(0, 6000).map(lambda v: b"%d" % v), st.sampled_from(
            [b"", b"abc", b"-5", b"12x", b"1.5", b"99999999999", b"0", b"@1", b"@4", b"@4", b"@5"])))
    elif kind == "xref-keyword":
        dmg["value"] = draw(st.sampled_from([b"xerf", b"XREF", b"", b"x", b"1234"]))
    elif kind == "subsection-header":
        dmg["value"] = draw(st.sampled_from([b"0", b"0 x", b"a b", b"0 1 2", b"", b"-1 5"]))
    elif kind == "entry":
        dmg["value"] = draw(st.sampled_from([b"0000000000 00000", b"000000000a 00000 n", b"0000000010 0000x n", b"garbage",
                                             b"0000000000 00000 n extra", b""]))
    return {"kind": "damage", "objs": objs, "text": text, "damage": dmg, "len_indirect": draw(st.booleans()),
            "eol": draw(st.sampled_from([b"\n", b"\r\n"])), "bufsiz": draw(st.sampled_from(BUFS)),
            # /Length delimits the data: an EOL before `endstream` is optional
            "stream_eol": draw(st.sampled_from([b"\n", b"\r\n"])),
            "stream_end_eol": draw(st.sampled_from([b"\n", b"\r\n", b"\r", b""])),
            # the body scan must find `4 0 obj <<...>>` and `4 0 obj<<...>>` as well as a header on a line of its own
            "head_sep": draw(st.sampled_from([None, None, b" ", b"", b"\t"]))}


def run_damage(case):
    from pdfminer.high_level import extract_text
    from pdfminer.pdfdocument import PDFDocument, PDFXRefFallback
    from pdfminer.pdfparser import PDFParser

    data, meta, objs = damage_doc(case)
    dmg = case["damage"]
    bad = apply_damage(data, meta, dmg)
    classes = ["damage", "dmg:" + dmg["kind"]]
    if bad == data:
        return Outcome(classes + ["damage-noop"], False)
    if dmg["kind"] == "startxref":
        v = dmg["value"]
        if v.isdigit() and int(v) == meta["startxref"]:
            return Outcome(classes + ["damage-noop"], False)
    # A table that still parses but lies is not "no valid xref" for pdfminer, so __init__ takes no body scan:
    #  - it lists every object but with wrong offsets: getobj must then find the objects by scanning (repaired in /repo,
    #    see KNOWN_FINDINGS.txt "xref-wrong-offset", so these cases are checked like any other);
    #  - it omits objects (cut exactly at a subsection boundary, or startxref pointing at a later subsection header):
    #    nothing tells pdfminer that the table is partial -- known finding xref-partial-table.
    listed = None
    if dmg["kind"] != "startxref":
        listed = table_entries(bad, meta["xref_spans"][0][0])
    elif dmg["value"].isdigit():
        v = int(dmg["value"])
        (a, b) = meta["xref_spans"][0]
        # an offset that points at a later subsection header of the same table: what follows parses as a (partial) table
        if a < v < b:
            listed = table_entries(bad, v, need_keyword=False)
            nxt = re.compile(rb"[^\r\n]*(\r\n|\r|\n)").match(bad, v)
            if listed is None and nxt is not None:
                listed = table_entries(bad, nxt.end(), need_keyword=False)
    if listed is not None:
        classes.append("table-wellformed-but-wrong")
        if set(objs) - listed:
            classes.append("table-omits-objects")
            if "xref-partial-table" in runner.ACTIVE_KNOWN:
                return Outcome(classes, known="xref-partial-table")
        else:
            classes.append("table-wrong-offsets")

    def body():
        want_text = extract_text(io.BytesIO(data))
        doc = PDFDocument(PDFParser(io.BytesIO(bad)))
        fb = any(isinstance(x, PDFXRefFallback) for x in doc.xrefs)
        ids = set().union(*[set(x.get_objids()) for x in doc.xrefs])
        missing = set(objs) - ids
        if missing:
            return fb, "objects %r not reported after damage" % sorted(missing)
        for n in sorted(objs):
            got = W.observe(doc.getobj(n))
            exp = W.expected(objs[n])
            if exp[0] == "stream" and got[0] == "stream" and isinstance(got[2], bytes):
                # the body scan delimits streams by `endstream`: a single trailing EOL is tolerated
                if got[2] in (exp[2] + b"\n", exp[2] + b"\r\n", exp[2] + b"\r"):
                    got = (got[0], got[1], exp[2])
            if not W.same(got, exp):
                return fb, "getobj(%d) after damage: %s" % (n, W.first_diff(exp, got))
        got_text = extract_text(io.BytesIO(bad))
        if got_text != want_text:
            return fb, "extract_text %r != undamaged %r" % (got_text, want_text)
        return fb, None

    try:
        fb, msg = _with_bufsiz(case["bufsiz"], body)
    except Exception as e:
        fb, msg = False, "raised %s: %s" % (type(e).__name__, e)
    if fb:
        classes.append("fallback-taken")
    if msg:
        return Outcome(classes, fb, fail="%s; damage=%r" % (msg, dmg))
    return Outcome(classes, fb, sample={"damage": dmg, "fallback": fb})


def run_case(case):
    return run_hist(case) if case["kind"] == "hist" else run_damage(case)


def plan(tier):
    q = tier == "quick"
    return [{"kind": "hist", "n": 130 if q else 3500} for _ in range(12)] + \
           [{"kind": "damage", "n": 200 if q else 4000} for _ in range(4)]


def run_shard(spec, ctx):
    if spec["kind"] == "hist":
        return hyp_search(ctx, hist_cases(), run_case, spec["n"])
    return hyp_search(ctx, damage_cases(), run_case, spec["n"])
