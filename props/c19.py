"""C19 — CCITT Group 4 decoding inverts a conforming encoder for every bitmap."""
import io
import itertools
import random
import zlib

from hypothesis import strategies as st

from vlib import ccittenc as E
from vlib import pdfwrite as W
from vlib.runner import HarnessError, Outcome, ShardResult, enum_search, fingerprint, hyp_search

ID = "C19"
LEVEL = "exploration"
RULE = ("Harness T.6 encoder (vlib/ccittenc.py, written from ITU-T T.6/T.4; tables checked for prefix-freeness and "
        "completeness and compared with the library's) produces the stream; free choices: at every coding step any "
        "admissible mode (pass if b2<a1, vertical if |a1-b1|<=3, horizontal always), EOFB present/absent, "
        "EncodedByteAlign, BlackIs1.  (1) EXHAUSTIVE: every bitmap of width 1-5 x height 1-2 (quick) under EVERY "
        "admissible mode sequence, x alignment, polarity/EOFB cycled (plus 6x1 all sequences and 6x2 under six mode "
        "policies: standard, vertical-first, horizontal-only, pass-else-horizontal, two random); thorough: every "
        "bitmap up to 6x3 - all mode sequences up to 6x2 and 5x3, six policies for 6x3.  (2) RUN SWEEP: two-row images whose horizontal "
        "coding uses every white and black run length 0..2700 (quick; thorough to 8000, i.e. every terminating, "
        "make-up and extended make-up code, 2560 repeated).  (3) Hypothesis: random/structured bitmaps (white, black, "
        "alternating, iid, long runs around 64k/1728/1792/2560/2624/5120, rows derived from the previous row by "
        "shifting transitions +-4) of width <= 3000 (some to 8000) x height <= 6 x policy x align x polarity x EOFB.  "
        "Oracle: ccittfaxdecode(data,{K:-1,Columns,EncodedByteAlign,BlackIs1}) and, for a share of cases, "
        "PDFStream.get_data() of a /CCITTFaxDecode image stream in a harness-written file both equal the packed "
        "rows (MSB first, rows padded with 0 bits, black=0 unless BlackIs1).  Non-trivial = (>=2 distinct mode kinds "
        "and >=2 rows) or a make-up code or fill bits actually inserted for byte alignment before a further row or the EOFB.  Distinct by "
        "(width, params, encoded bytes).")
ASSUMPTIONS = [
    "padding bits at the end of each output row are 0 in both polarities (what the decoder produces today; ISO leaves them unspecified)",
    "under EncodedByteAlign the EOFB is omitted or starts on a byte boundary (DESIGN.md narrowing)",
    "without EOFB the data ends after the last row plus zero fill to the byte boundary (DecodeParms then carries /EndOfBlock false and /Rows)",
    "/K -1 is always present in DecodeParms; /Columns is present except for about half of the images of width 1728, its default (ISO 32000-1 Table 11)",
    "harness code tables pinned to their hand-verified state (ccittenc.TABLES_PIN); a library/harness table disagreement is "
    "printed as a note and decode failures are triaged with the harness's own textbook decoder before being reported",
]


def selfcheck():
    E.selfcheck()
    diffs = E.compare_with_library()
    if diffs:
        # The harness tables are in their hand-verified state (selfcheck above), so the disagreement is on the
        # library side; it is shown here and the search below decides whether decoding is affected.
        print("note: C19 code tables differ between harness (hand-verified) and library: %s" % "; ".join(diffs[:6]))


def exhaustive(tier):
    return True


# ---------------------------------------------------------------------------------------------------------
def _decode_direct(case):
    from pdfminer.ccitt import ccittfaxdecode

    params = {"K": -1, "Columns": case["w"], "EncodedByteAlign": case["align"], "BlackIs1": case["black1"]}
    if case["w"] == 1728 and case.get("omit_columns"):
        del params["Columns"]  # ISO 32000-1 Table 11: default value 1728
    return ccittfaxdecode(case["data"], params)


def _decode_doc(case):
    from pdfminer.pdfdocument import PDFDocument
    from pdfminer.pdfparser import PDFParser
    from pdfminer.pdftypes import PDFStream

    doc = PDFDocument(PDFParser(io.BytesIO(case["pdf"])))
    obj = doc.getobj(case["objid"])
    if not isinstance(obj, PDFStream):
        raise TypeError("object %d is %r, not a stream" % (case["objid"], obj))
    return obj.get_data()


def _show_rows(case):
    if case["w"] * case["h"] > 64:
        return "%dx%d" % (case["w"], case["h"])
    rows = E.unpack_rows(case["expect"], case["w"], case["black1"])
    return "/".join("".join("#" if p else "." for p in r) for r in rows)


def _triage(case):
    """Before a mismatch is reported: the harness's own textbook decoder must read the stream back to the
    expected rows, otherwise the encoder (harness) is at fault -> exit 2, never a VIOLATION."""
    rows = E.unpack_rows(case["expect"], case["w"], case["black1"])
    if len(rows) != case["h"]:
        raise HarnessError("expected data has %d rows, case says %d" % (len(rows), case["h"]))
    try:
        got = E.ref_decode(case["data"], case["w"], case["h"], case["align"], case["eofb"])
    except E.DecodeError as e:
        raise HarnessError("harness encoder output is not decodable by the harness reference decoder: %s" % e)
    if got != rows:
        raise HarnessError("harness reference decoder disagrees with the expected rows")
    diffs = E.compare_with_library()
    return (" [library code tables differ: %s]" % "; ".join(diffs[:4])) if diffs else ""


def run_case(case):
    classes = list(case.get("cls", []))
    nt = bool(case.get("nt"))
    expect = case["expect"]
    fp = fingerprint(b"%d|%d%d|" % (case["w"], case["align"], case["black1"]) + case["data"]
                     + (b"|" + case["pdf"] if case.get("pdf") else b""))
    paths = [("ccittfaxdecode", _decode_direct)]
    if case.get("pdf"):
        paths.append(("PDFStream.get_data", _decode_doc))
        classes.append("path:doc")
    else:
        classes.append("path:direct-only")
    for name, fn in paths:
        try:
            got = fn(case)
            err = None
        except Exception as e:  # the property says decoding succeeds
            got, err = None, "%s: %s" % (type(e).__name__, e)
        if err is not None or got != expect:
            extra = _triage(case)
            head = "%s %s" % (name, ("raised " + err) if err else "returned %s, expected %s" % (
                got[:48].hex() + ("..." if len(got) > 48 else ""), expect[:48].hex() + ("..." if len(expect) > 48 else "")))
            return Outcome(classes, nt, fp=fp, fail="%s; bitmap %s Columns=%d rows=%d EncodedByteAlign=%s BlackIs1=%s "
                                                     "data=%s desc=%r%s" % (
                head, _show_rows(case), case["w"], case["h"], case["align"], case["black1"],
                case["data"][:64].hex() + ("..." if len(case["data"]) > 64 else ""), case.get("desc"), extra))
    return Outcome(classes, nt, fp=fp, sample=case.get("desc"))


# ---------------------------------------------------------------------------------------------------------
def build_doc(data, w, h, align, black1, eofb, rnd, omit_columns=False):
    """A harness-written file whose object 5 is an image XObject with /Filter /CCITTFaxDecode."""
    items = [(b"K", -1)] + ([] if omit_columns and w == 1728 else [(b"Columns", w)])
    if align or rnd.random() < 0.3:
        items.append((b"EncodedByteAlign", bool(align)))
    if black1 or rnd.random() < 0.3:
        items.append((b"BlackIs1", bool(black1)))
    if not eofb:
        items.append((b"EndOfBlock", False))
        items.append((b"Rows", h))
    else:
        if rnd.random() < 0.4:
            items.append((b"Rows", h))
        if rnd.random() < 0.3:
            items.append((b"EndOfBlock", True))
    rnd.shuffle(items)
    parms = dict(items)
    form = rnd.randrange(4)
    d = W.D(Type=W.N("XObject"), Subtype=W.N("Image"), Width=w, Height=h, BitsPerComponent=1)
    if rnd.random() < 0.5:
        d[b"ColorSpace"] = W.N("DeviceGray")
    else:
        d[b"ImageMask"] = True
    payload = data
    if form in (0, 1):
        d[b"Filter"] = W.N("CCITTFaxDecode")
        d[b"DecodeParms"] = parms
    elif form == 2:
        d[b"Filter"] = [W.N("CCITTFaxDecode")]
        d[b"DecodeParms"] = [parms]
    else:
        d[b"Filter"] = [W.N("FlateDecode"), W.N("CCITTFaxDecode")]
        d[b"DecodeParms"] = [None, parms]
        payload = zlib.compress(data)
    objs = {1: W.D(Type=W.N("Catalog"), Pages=W.R(2)), 2: W.D(Type=W.N("Pages"), Kids=[], Count=0)}
    tag = ["name+dict", "name+dict", "arrays", "flate-chain"][form]
    ind = rnd.randrange(4)
    if ind == 1:
        # the parameter dictionary as an indirect object (as the whole /DecodeParms value or as an array element)
        objs[6] = parms
        if isinstance(d[b"DecodeParms"], list):
            d[b"DecodeParms"] = [W.R(6) if x is parms else x for x in d[b"DecodeParms"]]
        else:
            d[b"DecodeParms"] = W.R(6)
        tag += "+parms-indirect"
    elif ind == 2:
        objs[6] = d[b"DecodeParms"]
        d[b"DecodeParms"] = W.R(6)
        objs[7] = d[b"Filter"]
        d[b"Filter"] = W.R(7)
        tag += "+filter-and-parms-values-indirect"
    objs[5] = W.Stream(d, payload)
    return W.build_pdf(objs), tag


def make_case(rows, w, choose, align, black1, eofb, doc_rnd=None, desc=None, precoded=None):
    h = len(rows)
    data, stt = precoded if precoded is not None else E.encode(rows, w, choose, align, eofb)
    cls = ["mode:" + m for m in sorted(stt.modes)]
    cls.append("kinds:" + "".join(sorted(stt.kinds)))
    if stt.makeup:
        cls.append("makeup-64..1728")
    if stt.ext:
        cls.append("makeup-1792..2560")
    if stt.rep2560:
        cls.append("2560-repeated")
    if stt.after2560:
        cls.append("2560+second-makeup")
    if stt.zero_runs:
        cls.append("zero-length-run")
    if stt.nonstd:
        cls.append("non-standard-mode-choice")
    cls.append("align" if align else "no-align")
    if align and stt.fill_rows:
        cls.append("align-fill-bits")
    cls.append("BlackIs1" if black1 else "BlackIs0")
    cls.append("eofb" if eofb else "no-eofb")
    cls.append("rows:%d" % h if h <= 3 else "rows:4-6")
    cls.append("width:" + ("1-8" if w <= 8 else "9-63" if w < 64 else "64-1727" if w < 1728 else
                           "1728-2559" if w < 2560 else "2560-3000" if w <= 3000 else ">3000"))
    if w % 8:
        cls.append("width%8!=0")
    nt = (len(stt.kinds) >= 2 and h >= 2) or bool(stt.makeup or stt.ext) or bool(align and stt.fill_rows)
    d = dict(desc or {})
    d.update({"w": w, "h": h, "align": align, "black1": black1, "eofb": eofb, "modes": sorted(stt.modes),
              "makeup": stt.makeup, "ext_makeup": stt.ext, "fill_rows": stt.fill_rows, "bits": stt.nbits,
              "steps": stt.steps, "nonstd_choices": stt.nonstd})
    case = {"w": w, "h": h, "align": bool(align), "black1": bool(black1), "eofb": bool(eofb), "data": data,
            "expect": E.pack_rows(rows, w, black1), "pdf": None, "objid": 5, "cls": cls, "nt": nt, "desc": d}
    if w == 1728 and (len(data) + h) % 2 == 0:
        # the default of /Columns (a pure function of the case, so that replays agree)
        case["omit_columns"] = True
        cls.append("columns-omitted-1728")
    if doc_rnd is not None:
        case["pdf"], form = build_doc(data, w, h, align, black1, eofb, doc_rnd, omit_columns=case.get("omit_columns"))
        d["doc"] = form
        cls.append("doc:" + form)
    return case


# ---- (1) exhaustive small bitmaps ---------------------------------------------------------------------------
def _bitmap(w, h, idx):
    return [[(idx >> (r * w + (w - 1 - x))) & 1 for x in range(w)] for r in range(h)]


def _allseq_cases(w, h, lo, hi):
    """Every bitmap index in [lo,hi): every admissible mode sequence x both alignments; polarity and EOFB cycle
    with a running counter (all four combinations for the first sequences of every bitmap)."""
    for idx in range(lo, hi):
        rows = _bitmap(w, h, idx)
        k = 0
        for align in (False, True):
            for variants in _seqs(rows, w, align):
                for (data, stt, ch, eofb) in variants:
                    black1 = bool((k >> 1) & 1)
                    doc = random.Random(idx * 7919 + k) if k < 2 or k % 29 == 0 else None
                    yield make_case(rows, w, None, align, black1, eofb, doc_rnd=doc,
                                    desc={"gen": "allseq", "bitmap": idx, "choices": "".join(map(str, ch))},
                                    precoded=(data, stt))
                    k += 1


def _seqs(rows, w, align):
    """For each mode sequence yields a list of (data, stats, choices, eofb); the first four sequences get both
    EOFB variants, later ones alternate."""
    ge = E.all_encodings(rows, w, align, True)
    gn = E.all_encodings(rows, w, align, False)
    for i, ((d1, s1, c1), (d0, s0, c0)) in enumerate(zip(ge, gn)):
        assert c1 == c0
        if i < 4:
            yield [(d1, s1, c1, True), (d0, s0, c0, False)]
        elif i % 2:
            yield [(d1, s1, c1, True)]
        else:
            yield [(d0, s0, c0, False)]


def _policy_cases(w, h, lo, hi, seed):
    for idx in range(lo, hi):
        rows = _bitmap(w, h, idx)
        k = 0
        for pol in E.POLICIES:
            for align in (False, True):
                rnd = random.Random((seed * 1000003 + idx) * 16 + k)
                black1 = bool(k & 1) ^ bool(idx & 1)
                eofb = bool((k >> 1) & 1) ^ bool(idx & 2)
                doc = random.Random(idx * 7919 + k) if (idx + k) % 97 == 0 else None
                yield make_case(rows, w, E.policy(pol, rnd), align, black1, eofb, doc_rnd=doc,
                                desc={"gen": "policy", "bitmap": idx, "policy": pol})
                k += 1


# ---- (2) run-length sweep ------------------------------------------------------------------------------------
def _run_cases(ns):
    """For run length n: row A = white n, black n, white 1; row B = black n, white n, black 1 (width 2n+1).
    Horizontal coding of A uses W(n) B(n) W(1) B(0); of B uses W(0) B(n) W(n) B(1): every code word of both
    tables for n and the zero-length runs.  Second encoding: the Recommendation's own mode choice."""
    for n in ns:
        w = 2 * n + 1
        a = [0] * n + [1] * n + [0]
        b = [1] * n + [0] * n + [1]
        k = n
        for pol, rows in (("horiz", [a, b]), ("horiz", [b, a]), ("std", [a, b, b, a])):
            rnd = random.Random(n)
            doc = random.Random(n) if n % 41 == 0 else None
            yield make_case(rows, w, E.policy(pol, rnd), bool(k & 1), bool(k & 2), bool(k & 4) or pol == "std",
                            doc_rnd=doc, desc={"gen": "runs", "n": n, "policy": pol})
            k += 3


# ---- (3) Hypothesis: wide random / structured bitmaps ------------------------------------------------------------
LENS = [1, 1, 2, 2, 3, 3, 4, 5, 7, 8, 9, 15, 16, 17, 31, 32, 33, 62, 63, 64, 65, 66, 127, 128, 129, 191, 192, 193,
        255, 256, 320, 639, 640, 641, 1023, 1024, 1663, 1664, 1665, 1727, 1728, 1729, 1791, 1792, 1793, 1855, 1856,
        1857, 2047, 2048, 2111, 2112, 2495, 2496, 2559, 2560, 2561, 2623, 2624, 2625, 2687, 2688, 3000,
        4351, 4352, 5119, 5120, 5121, 5183, 5184, 7679, 7680, 7681, 7744]
WIDTHS = [63, 64, 65, 127, 128, 129, 191, 192, 193, 640, 1727, 1728, 1729, 1791, 1792, 1793, 2495, 2496, 2559, 2560,
          2561, 2623, 2624, 2625, 2687, 2688, 2700, 2999, 3000]
BIGWIDTHS = [4352, 5119, 5120, 5121, 5183, 5184, 5200, 7680, 7681, 7745, 8000]
KINDS = ["white", "black", "alt", "iid", "runs", "longrun", "edge"]


def _from_changes(ch, w):
    row = []
    prev = 0
    c = 0
    for x in ch:
        row += [c] * (x - prev)
        prev = x
        c ^= 1
    row += [c] * (w - prev)
    return row


def _fresh_row(rnd, w, kind, sparse):
    if kind == "white":
        return [0] * w
    if kind == "black":
        return [1] * w
    if kind == "alt":
        p = rnd.choice([1, 1, 2, 3, 8, 64]) if not sparse else rnd.choice([64, 640, 1000])
        s = rnd.randint(0, 1)
        return [((x // p) + s) & 1 for x in range(w)]
    if kind == "iid":
        if sparse:
            kind = "runs"
        else:
            d = rnd.choice([0.02, 0.1, 0.5, 0.9, 0.98])
            return [1 if rnd.random() < d else 0 for _ in range(w)]
    if kind == "edge":
        base = rnd.randint(0, 1)
        row = [base] * w
        for x in {0, w - 1, rnd.randrange(w), rnd.randrange(w)} if rnd.random() < 0.5 else {rnd.choice([0, w - 1])}:
            row[x] = base ^ 1
        return row
    if kind == "longrun":
        cands = [n for n in LENS if 64 <= n <= w] or [w]
        n = rnd.choice(cands)
        c = rnd.randint(0, 1)
        start = rnd.choice([0, w - n, rnd.randint(0, w - n)])
        row = [c ^ 1] * w
        row[start:start + n] = [c] * n
        # a little texture outside the long run
        for _ in range(rnd.randint(0, 3)):
            x = rnd.randrange(w)
            if not (start <= x < start + n):
                row[x] ^= 1
        return row
    # runs
    row = []
    c = rnd.randint(0, 1)
    while len(row) < w:
        n = rnd.choice(LENS) if (sparse or rnd.random() < 0.5) else rnd.randint(1, 8)
        row += [c] * n
        c ^= 1
    return row[:w]


def _derive_row(rnd, prev, w):
    """Next row from the previous one: transitions shifted by -4..4, some run pairs removed / inserted —
    this is what makes vertical and pass modes (and their edge cases) admissible on wide images."""
    ch = E.changes(prev)
    out = set()
    i = 0
    while i < len(ch):
        r = rnd.random()
        if r < 0.12 and i + 1 < len(ch):  # drop a pair -> pass mode below
            i += 2
            continue
        x = ch[i]
        if r < 0.7:
            x += rnd.choice([-4, -3, -3, -2, -1, -1, 0, 0, 1, 1, 2, 3, 3, 4])
        if 0 <= x < w:
            out ^= {x}
        i += 1
    for _ in range(rnd.choice([0, 0, 1, 2])):  # insert a pair -> horizontal mode
        x = rnd.randrange(w)
        n = rnd.choice([1, 2, 3, 64, 65])
        out ^= {x}
        if x + n < w:
            out ^= {x + n}
    return _from_changes(sorted(out), w)


def gen_rows(rnd, w, h, kinds, sparse):
    rows = []
    for r in range(h):
        if r and rnd.random() < 0.6:
            rows.append(_derive_row(rnd, rows[-1], w))
        elif r and rnd.random() < 0.15:
            rows.append(list(rows[-1]))
        else:
            rows.append(_fresh_row(rnd, w, kinds[r % len(kinds)], sparse))
    return rows


@st.composite
def wide_cases(draw, big):
    wstrat = [st.integers(1, 40), st.sampled_from(WIDTHS), st.sampled_from(WIDTHS), st.integers(41, 3000)]
    if big:
        wstrat.append(st.sampled_from(BIGWIDTHS))
    w = draw(st.one_of(*wstrat))
    sparse = w > 3000  # pdfminer's reference-line search is linear per step: keep very wide rows to few runs
    h = draw(st.sampled_from([1, 2, 2, 3, 3] if sparse else [1, 2, 2, 3, 3, 4, 5, 6]))
    kinds = draw(st.lists(st.sampled_from(KINDS), min_size=1, max_size=3))
    pol = draw(st.sampled_from(E.POLICIES))
    align = draw(st.booleans())
    black1 = draw(st.booleans())
    eofb = draw(st.booleans())
    with_doc = draw(st.integers(0, 2)) == 0
    rnd = random.Random(draw(st.integers(0, 2 ** 32)))  # bulk free choices: pure function of a drawn seed
    rows = gen_rows(rnd, w, h, kinds, sparse)
    return make_case(rows, w, E.policy(pol, rnd), align, black1, eofb, doc_rnd=rnd if with_doc else None,
                     desc={"gen": "hyp", "kinds": kinds, "policy": pol})


# ---------------------------------------------------------------------------------------------------------
def _chunks(w, h, per):
    total = 1 << (w * h)
    return [[w, h, lo, min(total, lo + per)] for lo in range(0, total, per)]


def _maxwidth_cases():
    """The greatest width the decoder accepts (2^20 columns) and the widths next to it below: one and two rows of long
    runs, coded with the 2560 make-up code repeated hundreds of times."""
    for w in (1 << 20, (1 << 20) - 1):
        half = w // 2
        a = [0] * half + [1] * (w - half)
        b = [0] * w
        for pol, rows, align in (("horiz", [a], False), ("std", [b, a], True)):
            yield make_case(rows, w, E.policy(pol, random.Random(w)), align, False, True, desc={"gen": "maxwidth", "w": w, "policy": pol})


def plan(tier):
    q = tier == "quick"
    specs = [{"kind": "maxwidth"}]
    if q:
        small = []
        for w in range(1, 6):
            for h in (1, 2):
                if (w, h) not in ((5, 2), (4, 2)):
                    small += _chunks(w, h, 1 << 20)
        specs.append({"kind": "allseq", "parts": small})
        specs.append({"kind": "allseq", "parts": _chunks(4, 2, 256)})
        specs += [{"kind": "allseq", "parts": [c]} for c in _chunks(5, 2, 128)]
        specs.append({"kind": "allseq", "parts": _chunks(6, 1, 64)})
        specs += [{"kind": "policy", "parts": [c]} for c in _chunks(6, 2, 1024)]
        step = 338
        specs += [{"kind": "runs", "lo": lo, "hi": min(2701, lo + step), "step": 1} for lo in range(0, 2701, step)]
        specs.append({"kind": "runs", "list": [2751, 2815, 2816, 5119, 5120, 5121, 5183, 5184, 7679, 7680, 7681, 7744]})
        specs += [{"kind": "hyp", "n": 60, "big": i % 4 == 0} for i in range(16)]
    else:
        small = []
        for w in range(1, 7):
            for h in (1, 2, 3):
                if w * h <= 8:
                    small += _chunks(w, h, 1 << 20)
        specs.append({"kind": "allseq", "parts": small})
        specs += [{"kind": "allseq", "parts": [c]} for c in _chunks(5, 2, 256)]
        specs += [{"kind": "allseq", "parts": [c]} for c in _chunks(6, 2, 256)]
        specs += [{"kind": "allseq", "parts": [c]} for c in _chunks(3, 3, 128)]
        specs += [{"kind": "allseq", "parts": [c]} for c in _chunks(4, 3, 128)]
        specs += [{"kind": "allseq", "parts": [c]} for c in _chunks(5, 3, 256)]
        specs += [{"kind": "policy", "parts": [c]} for c in _chunks(6, 3, 4096)]
        specs += [{"kind": "runs", "lo": lo, "hi": min(8001, lo + 250), "step": 1} for lo in range(0, 8001, 250)]
        specs += [{"kind": "hyp", "n": 1250, "big": i % 4 == 0} for i in range(32)]
    return specs


def run_shard(spec, ctx):
    k = spec["kind"]
    res = ShardResult()
    if k == "allseq":
        n = 0
        for w, h, lo, hi in spec["parts"]:
            enum_search(ctx, _allseq_cases(w, h, lo, hi), run_case, res)
            n += hi - lo
            if res.failures or res.harness_errors:
                break
        res.extra["enumerated_bitmaps_all_mode_sequences"] = n
        return res
    if k == "policy":
        n = 0
        for w, h, lo, hi in spec["parts"]:
            enum_search(ctx, _policy_cases(w, h, lo, hi, ctx.seed), run_case, res)
            n += hi - lo
            if res.failures or res.harness_errors:
                break
        res.extra["enumerated_bitmaps_six_policies"] = n
        return res
    if k == "maxwidth":
        enum_search(ctx, _maxwidth_cases(), run_case, res)
        return res
    if k == "runs":
        ns = spec["list"] if "list" in spec else range(spec["lo"], spec["hi"], spec["step"])
        enum_search(ctx, _run_cases(ns), run_case, res)
        res.extra["run_lengths_swept"] = len(ns)
        return res
    return hyp_search(ctx, wide_cases(spec["big"]), run_case, spec["n"], res)
