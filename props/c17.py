"""C17 — page labels, outlines and named destinations follow their tree definitions; text-string decoding.

Abstract data first (label ranges / outline forest / key->destination mapping / Unicode text), then a drawn
physical layout (vlib/trees.py, vlib/pdfwrite.py), then the public API is compared against the abstract data.
"""
import io
import itertools
import random

from hypothesis import strategies as st

from vlib import pdfwrite as W
from vlib import runner
from vlib import trees as T
from vlib.runner import Outcome, enum_search, hyp_search

ID = "C17"
LEVEL = "exploration"
RULE = ("Hypothesis draws abstract data and a seed for the layout. labels: 1-60 pages (300 thorough), 1-8 ranges "
        "(start index, style D/R/r/A/a/absent, prefix text written as PDFDocEncoding or BOM+UTF-16BE, St; roman "
        "values < 4000), label dictionaries direct or indirect, laid out as a number tree of drawn shape (flat "
        "root with Nums, or Kids to depth 4 with Limits: balanced / single-kid chain / caterpillar / random; nodes "
        "direct or indirect; Kids order optionally shuffled); oracle label(i) = prefix + format(style, St+i-start) "
        "checked through islice(doc.get_page_labels(), n) and PDFPage.create_pages(doc)[i].label. outlines: "
        "forests of 0-60 items, depth <= 6 or deep chains up to the number of items, titles in both encodings, /Dest (array, name, string; direct or "
        "indirect) or /A, consistent First/Last/Next/Prev/Parent/Count, object numbers shuffled; oracle = "
        "pre-order list of (level, title, dest, action), top level 1; chain: 200-1500 siblings at level 1-3. "
        "dests: 0-40 byte-string keys (120 thorough; shared prefixes, NUL/0xFF bytes) -> array or <</D ..>> "
        "values (direct or indirect) in a /Names /Dests name tree of drawn shape, and/or the PDF-1.1 catalog /Dests "
        "dictionary with name keys; every present key must return its value (raw object compared with "
        "pdfwrite.expected; references resolved with resolve1), absent probes (below first, between leaves, above "
        "last, proper prefix of a key, inside a leaf's Limits) must raise PDFDestinationNotFound. text: "
        "decode_text on every single byte and on strings over all Annex-D-defined PDFDocEncoding codes, and on "
        "BOM+UTF-16BE incl. surrogate pairs.  Non-trivial = tree with Kids below the root, or a label range with "
        "prefix and St != 1, or an outline item at level >= 3, or an absent probe inside a leaf's Limits, or a "
        "text string with a non-ASCII code / surrogate pair.  Distinct by case bytes (file + expectation).")
ASSUMPTIONS = [
    "PDFDocEncoding table written from ISO 32000-1 Annex D.2; codes 00-08 0B 0C 0E-17 7F 9F AD are undefined there "
    "and never asserted",
    "PDFDocEncoded strings never start with FE FF (would be a BOM) nor EF BB BF (PDF 2.0 UTF-8 marker); UTF-16 text "
    "is well formed (no lone surrogates) and has no U+001B language escapes",
    "alpha styles follow ISO 12.4.2 (A..Z, AA..ZZ, AAA..): values > 26 are the known finding alpha-label-over-26",
    "every outline item has /Title and exactly one of /Dest, /A (DESIGN.md C17); items without either are skipped "
    "by get_outlines by convention and are not generated",
    "Kids order inside a node is not constrained by ISO 7.9.6/7.9.7 (only leaf arrays are sorted); shuffled Kids "
    "with correct Limits are generated at low rate",
    "names used as keys of the PDF-1.1 /Dests dictionary are valid UTF-8 (public convention: name -> str)",
    "settings.STRICT is left at its default (False), except for a second pass over the page labels with STRICT on",
]

# Optional dimensions that go slightly beyond the DESIGN.md domain but stay inside ISO 32000-1 (see notes/C17.md).
GEN_INDIRECT_LABEL_ENTRIES = True   # /S /P /St of a label dictionary written as indirect references
GEN_NAME_LOOKUP_WITH_TREE = True    # get_dest(<str name>) on a document that has a name tree with Limits

# --------------------------------------------------------------------------
# PDFDocEncoding, ISO 32000-1 Annex D.2 (written by hand, not taken from pdfminer)
# --------------------------------------------------------------------------
PDFDOC_UNDEFINED = frozenset(list(range(0x00, 0x09)) + [0x0B, 0x0C] + list(range(0x0E, 0x18)) + [0x7F, 0x9F, 0xAD])
_HI = [
    0x2022, 0x2020, 0x2021, 0x2026, 0x2014, 0x2013, 0x0192, 0x2044,  # 80 bullet dagger daggerdbl ellipsis emdash endash florin fraction
    0x2039, 0x203A, 0x2212, 0x2030, 0x201E, 0x201C, 0x201D, 0x2018,  # 88 guilsinglleft guilsinglright minus perthousand quotedblbase quotedblleft quotedblright quoteleft
    0x2019, 0x201A, 0x2122, 0xFB01, 0xFB02, 0x0141, 0x0152, 0x0160,  # 90 quoteright quotesinglbase trademark fi fl Lslash OE Scaron
    0x0178, 0x017D, 0x0131, 0x0142, 0x0153, 0x0161, 0x017E,          # 98 Ydieresis Zcaron dotlessi lslash oe scaron zcaron
]
_ACCENTS = [0x02D8, 0x02C7, 0x02C6, 0x02D9, 0x02DD, 0x02DB, 0x02DA, 0x02DC]  # 18 breve caron circumflex dotaccent hungarumlaut ogonek ring tilde


def _build_pdfdoc():
    t = {}
    for c in (0x09, 0x0A, 0x0D):
        t[c] = chr(c)
    for i, u in enumerate(_ACCENTS):
        t[0x18 + i] = chr(u)
    for c in range(0x20, 0x7F):
        t[c] = chr(c)
    for i, u in enumerate(_HI):
        t[0x80 + i] = chr(u)
    t[0xA0] = chr(0x20AC)  # Euro
    for c in range(0xA1, 0x100):
        if c != 0xAD:
            t[c] = chr(c)
    return t


PDFDOC = _build_pdfdoc()
PDFDOC_INV = {u: c for c, u in PDFDOC.items()}
DEFINED_CODES = sorted(PDFDOC)
SPECIAL_CODES = [c for c in DEFINED_CODES if c < 0x20 or c >= 0x7F]


def doc_encodable(text):
    if not all(ch in PDFDOC_INV for ch in text):
        return False
    b = bytes(PDFDOC_INV[ch] for ch in text)
    return not (b.startswith(b"\xfe\xff") or b.startswith(b"\xef\xbb\xbf"))


def encode_text(text, enc):
    """Abstract text -> PDF text string bytes. enc: 'doc' (PDFDocEncoding) or 'u16' (BOM + UTF-16BE)."""
    if enc == "doc":
        assert doc_encodable(text)
        return bytes(PDFDOC_INV[ch] for ch in text)
    return b"\xfe\xff" + text.encode("utf-16-be")


def pick_enc(text, want_u16):
    if want_u16 or not doc_encodable(text):
        return "u16"
    return "doc"


# --------------------------------------------------------------------------
# label oracle (ISO 32000-1 12.4.2, Table 159)
# --------------------------------------------------------------------------
_ROMAN = [(1000, "M"), (900, "CM"), (500, "D"), (400, "CD"), (100, "C"), (90, "XC"), (50, "L"), (40, "XL"),
          (10, "X"), (9, "IX"), (5, "V"), (4, "IV"), (1, "I")]


def roman_upper(v):
    assert 0 < v < 4000
    out = ""
    for n, s in _ROMAN:
        while v >= n:
            out += s
            v -= n
    return out


def _roman_digits(v):
    """second, independent formulation (per decimal digit) used only by selfcheck"""
    ones = ["", "I", "II", "III", "IV", "V", "VI", "VII", "VIII", "IX"]
    tens = ["", "X", "XX", "XXX", "XL", "L", "LX", "LXX", "LXXX", "XC"]
    hund = ["", "C", "CC", "CCC", "CD", "D", "DC", "DCC", "DCCC", "CM"]
    return "M" * (v // 1000) + hund[v // 100 % 10] + tens[v // 10 % 10] + ones[v % 10]


def alpha_upper(v):
    """A..Z for 1..26, AA..ZZ for 27..52, AAA..ZZZ, ... (ISO 32000-1 Table 159)"""
    assert v > 0
    return chr(65 + (v - 1) % 26) * ((v - 1) // 26 + 1)


def fmt_value(style, v):
    if style is None:
        return ""
    if style == "D":
        return str(v)
    if style == "R":
        return roman_upper(v)
    if style == "r":
        return roman_upper(v).lower()
    if style == "A":
        return alpha_upper(v)
    if style == "a":
        return alpha_upper(v).lower()
    raise ValueError(style)


def expected_labels(ranges, npages):
    """ranges: [[start, style|None, prefix text|None, st|None]] sorted by start, first start 0.
    -> list of (label, is_alpha_over_26)"""
    out = []
    for i in range(npages):
        r = None
        for rr in ranges:
            if rr[0] <= i:
                r = rr
        start, style, prefix, stv = r
        v = (1 if stv is None else stv) + i - start
        out.append(((prefix or "") + fmt_value(style, v), style in ("A", "a") and v > 26))
    return out


# --------------------------------------------------------------------------
def selfcheck():
    assert len(PDFDOC) == 256 - len(PDFDOC_UNDEFINED) == 232 and not (set(PDFDOC) & PDFDOC_UNDEFINED)
    assert len(PDFDOC_INV) == len(PDFDOC), "table must be injective on defined codes"
    for c in range(0xA1, 0x100):
        if c != 0xAD:
            assert PDFDOC[c] == bytes([c]).decode("latin-1")
    for c in range(0x20, 0x7F):
        assert PDFDOC[c] == bytes([c]).decode("ascii")
    import unicodedata

    names = {0x18: "BREVE", 0x19: "CARON", 0x1A: "MODIFIER LETTER CIRCUMFLEX ACCENT", 0x1B: "DOT ABOVE",
             0x1C: "DOUBLE ACUTE ACCENT", 0x1D: "OGONEK", 0x1E: "RING ABOVE", 0x1F: "SMALL TILDE", 0x80: "BULLET",
             0x81: "DAGGER", 0x82: "DOUBLE DAGGER", 0x83: "HORIZONTAL ELLIPSIS", 0x84: "EM DASH", 0x85: "EN DASH",
             0x86: "LATIN SMALL LETTER F WITH HOOK", 0x87: "FRACTION SLASH",
             0x88: "SINGLE LEFT-POINTING ANGLE QUOTATION MARK", 0x89: "SINGLE RIGHT-POINTING ANGLE QUOTATION MARK",
             0x8A: "MINUS SIGN", 0x8B: "PER MILLE SIGN", 0x8C: "DOUBLE LOW-9 QUOTATION MARK",
             0x8D: "LEFT DOUBLE QUOTATION MARK", 0x8E: "RIGHT DOUBLE QUOTATION MARK", 0x8F: "LEFT SINGLE QUOTATION MARK",
             0x90: "RIGHT SINGLE QUOTATION MARK", 0x91: "SINGLE LOW-9 QUOTATION MARK", 0x92: "TRADE MARK SIGN",
             0x93: "LATIN SMALL LIGATURE FI", 0x94: "LATIN SMALL LIGATURE FL",
             0x95: "LATIN CAPITAL LETTER L WITH STROKE", 0x96: "LATIN CAPITAL LIGATURE OE",
             0x97: "LATIN CAPITAL LETTER S WITH CARON", 0x98: "LATIN CAPITAL LETTER Y WITH DIAERESIS",
             0x99: "LATIN CAPITAL LETTER Z WITH CARON", 0x9A: "LATIN SMALL LETTER DOTLESS I",
             0x9B: "LATIN SMALL LETTER L WITH STROKE", 0x9C: "LATIN SMALL LIGATURE OE",
             0x9D: "LATIN SMALL LETTER S WITH CARON", 0x9E: "LATIN SMALL LETTER Z WITH CARON", 0xA0: "EURO SIGN"}
    for c, nm in names.items():
        assert unicodedata.name(PDFDOC[c]) == nm, (hex(c), unicodedata.name(PDFDOC[c]), nm)
    for v in range(1, 4000):
        assert roman_upper(v) == _roman_digits(v)
    assert [alpha_upper(v) for v in (1, 2, 26, 27, 28, 52, 53, 78, 79)] == \
        ["A", "B", "Z", "AA", "BB", "ZZ", "AAA", "ZZZ", "AAAA"]
    assert [x[0] for x in expected_labels([[0, "r", None, None], [2, "D", "A-", 8], [4, None, "x", None]], 6)] == \
        ["i", "ii", "A-8", "A-9", "x", "x"]  # cf. the example of ISO 32000-1 12.4.2
    # tree layouts: every style/depth produces a well-formed tree holding exactly the entries
    rng = random.Random(17)
    for trial in range(300):
        n = rng.randint(0, 25)
        if trial % 2:
            ents = [(k, [k]) for k in sorted(rng.sample(range(200), n))]
            key = b"Nums"
        else:
            ents = [(k, [k]) for k in sorted({bytes(rng.choice(b"ab\x00\xff") for _ in range(rng.randint(0, 4)))
                                              for _ in range(n)})]
            key = b"Names"
        objs = {}
        style = T.STYLES[trial % len(T.STYLES)]
        root, info = T.layout(ents, key, style, rng.randint(0, 4), rng.randint(2, 5), rng.random(),
                              trial % 7 == 0, rng, T.Alloc(objs, 100))
        T.check_tree(root, key, objs, ents)
        assert sorted(k for leaf in info["leaves"] for k in leaf) == [k for k, _ in ents]
        assert info["depth"] <= 4


# --------------------------------------------------------------------------
# document assembly
# --------------------------------------------------------------------------
def _base_doc(npages):
    objs = {1: W.D(Type=W.N("Catalog"), Pages=W.R(2)),
            2: W.D(Type=W.N("Pages"), Kids=[W.R(3 + i) for i in range(npages)], Count=npages)}
    for i in range(npages):
        objs[3 + i] = W.D(Type=W.N("Page"), Parent=W.R(2), MediaBox=[0, 0, 100, 100])
    return objs


def _shape(rng, quick_flat=0.25):
    """free choices of the physical layout"""
    r = rng.random()
    if r < quick_flat:
        style, depth = "flat", 0
    else:
        style = rng.choice(["balanced", "balanced", "chain", "caterpillar", "random", "random"])
        depth = rng.choice([1, 1, 2, 2, 3, 4])
    return {"style": style, "depth": depth, "fanout": rng.randint(2, 5),
            "p_direct": rng.choice([0.0, 0.0, 0.2, 0.5, 1.0]), "shuffle": rng.random() < 0.3,
            "root_indirect": rng.random() < 0.6}


def _shape_classes(shape, info, what):
    cl = ["%s-tree:%s" % (what, shape["style"] if info["depth"] else "flat"), "%s-depth:%d" % (what, info["depth"])]
    if info["direct"]:
        cl.append(what + "-nodes:some-direct")
    if info["indirect"]:
        cl.append(what + "-nodes:some-indirect")
    if info["shuffled"]:
        cl.append(what + "-kids-shuffled")
    return cl


def build_labels_case(npages, ranges, encs, shape, rng, ind_dict_p=0.4, ind_entry_p=0.0):
    """ranges: [[start, style, prefix, st]]; encs: per range 'doc'/'u16' for the prefix."""
    objs = _base_doc(npages)
    alloc = T.Alloc(objs, 3 + npages + 5)
    classes = []
    entries = []
    nt = False
    for (start, style, prefix, stv), enc in zip(ranges, encs):
        d = {}
        if style is not None:
            d[b"S"] = W.N(style)
        if prefix is not None:
            d[b"P"] = encode_text(prefix, enc)
            classes.append("prefix:" + enc)
        if stv is not None:
            d[b"St"] = stv
        if prefix and stv not in (None, 1):
            nt = True
            classes.append("range:prefix+St")
        for k in list(d):
            if rng.random() < ind_entry_p:
                d[k] = W.R(alloc.new(d[k]))
                classes.append("label-entry-indirect:" + k.decode())
        classes.append("style:%s" % (style or "absent"))
        v = d
        if rng.random() < ind_dict_p:
            v = W.R(alloc.new(d))
            classes.append("labeldict:indirect")
        else:
            classes.append("labeldict:direct")
        entries.append((start, v))
    root, info = T.layout(entries, b"Nums", shape["style"], shape["depth"], shape["fanout"], shape["p_direct"],
                          shape["shuffle"], rng, alloc)
    if shape["root_indirect"]:
        root = W.R(alloc.new(root))
        classes.append("labels-root:indirect")
    objs[1][b"PageLabels"] = root
    classes += _shape_classes(shape, info, "num")
    if info["depth"] >= 1:
        nt = True
    if any(r[0] >= npages for r in ranges):
        classes.append("range-beyond-last-page")
    classes.append("ranges:%s" % (len(ranges) if len(ranges) < 4 else "4+"))
    return {"kind": "labels", "pdf": W.build_pdf(objs), "npages": npages, "ranges": [list(r) for r in ranges],
            "classes": sorted(set(classes)), "nt": nt,
            "sample": {"npages": npages, "ranges": [list(r) for r in ranges], "tree": shape["style"],
                       "depth": info["depth"]}}


# ---- outlines
def _dest_value(rng, npages, alloc, ind, p_ind=0.25):
    page = W.R(3 + rng.randrange(npages))
    k = rng.randrange(6)
    if k == 0:
        v = [page, W.N("Fit")]
    elif k == 1:
        v = [page, W.N("XYZ"), rng.randint(-5, 800), rng.randint(0, 800), rng.choice([0, None, W.Real("1.5")])]
    elif k == 2:
        v = [page, W.N("FitH"), rng.randint(0, 800)]
    elif k == 3:
        v = [page, W.N("FitR"), 0, 0, rng.randint(1, 99), rng.randint(1, 99)]
    elif k == 4:
        return W.N(rng.choice(["Chapter1", "sec:2", "A B", "d\xc3\xa9j\xc3\xa0"])), "name"
    else:
        return rng.choice([b"named.dest", b"\xfe\xff\x00k", b"(x)", b"a\\b"]), "string"
    if rng.random() < p_ind:
        n = alloc.new(v)
        ind[n] = v
        return W.R(n), "array-indirect"
    return v, "array"


def _action_value(rng, npages, alloc, ind, p_ind=0.3):
    if rng.random() < 0.5:
        v = W.D(S=W.N("GoTo"), D=[W.R(3 + rng.randrange(npages)), W.N("Fit")])
    else:
        v = W.D(S=W.N("URI"), URI=rng.choice([b"http://example.org/", b"mailto:a@b", b"x(y)z"]))
    if rng.random() < p_ind:
        n = alloc.new(v)
        ind[n] = v
        return W.R(n), "action-indirect"
    return v, "action"


def build_outline_case(parents, titles, encs, rng, npages=3, shuffle_numbers=True, kinds=None, ind_title_p=0.05,
                       extra_p=0.2, fixed_dest=False):
    """parents[i] = index of the parent item (< i) or None; children keep index order.
    titles[i] abstract text, encs[i] 'doc'/'u16'."""
    n = len(parents)
    objs = _base_doc(npages)
    first = 3 + npages + 2
    pool = list(range(first + 1, first + 1 + n))
    if shuffle_numbers:
        rng.shuffle(pool)
    root_n = first
    objs[root_n] = None
    num = [pool[i] for i in range(n)]
    for x in num:
        objs[x] = None
    alloc = T.Alloc(objs, first + 1 + n)
    ind = {}
    classes = []
    children = {None: []}
    for i in range(n):
        children[i] = []
    for i, p in enumerate(parents):
        children[p].append(i)
    level = [0] * n
    for i, p in enumerate(parents):
        level[i] = 1 if p is None else level[p] + 1
    opened = [rng.random() < 0.6 for _ in range(n)]

    def visible(i):  # number of visible descendants if item i were open
        return sum(1 + (visible(c) if opened[c] else 0) for c in children[i])

    items = [None] * n
    expect = {}
    for i in range(n):
        d = {b"Title": encode_text(titles[i], encs[i])}
        classes.append("title:" + encs[i])
        if rng.random() < ind_title_p:
            d[b"Title"] = W.R(alloc.new(d[b"Title"]))
            classes.append("title-indirect")
        d[b"Parent"] = W.R(root_n if parents[i] is None else num[parents[i]])
        sib = children[parents[i]]
        k = sib.index(i)
        if k > 0:
            d[b"Prev"] = W.R(num[sib[k - 1]])
        if k + 1 < len(sib):
            d[b"Next"] = W.R(num[sib[k + 1]])
        if children[i]:
            d[b"First"] = W.R(num[children[i][0]])
            d[b"Last"] = W.R(num[children[i][-1]])
            vis = visible(i)
            d[b"Count"] = vis if opened[i] else -vis
        if fixed_dest:
            dest, action, kind = [W.R(3), W.N("Fit")], None, "array"
            d[b"Dest"] = dest
        elif rng.random() < 0.65:
            dest, kind = _dest_value(rng, npages, alloc, ind)
            action = None
            d[b"Dest"] = dest
        else:
            action, kind = _action_value(rng, npages, alloc, ind)
            dest = None
            d[b"A"] = action
        classes.append("item:" + kind)
        if rng.random() < extra_p:
            d[b"C"] = [1, 0, 0]
            d[b"F"] = rng.randint(0, 3)
        items[i] = d
        expect[i] = [level[i], titles[i], dest, action]
    rootd = W.D(Type=W.N("Outlines"))
    if children[None]:
        rootd[b"First"] = W.R(num[children[None][0]])
        rootd[b"Last"] = W.R(num[children[None][-1]])
        tot = sum(1 + (visible(c) if opened[c] else 0) for c in children[None])
        rootd[b"Count"] = tot
    objs[root_n] = rootd
    for i in range(n):
        objs[num[i]] = items[i]
    objs[1][b"Outlines"] = W.R(root_n)
    # pre-order
    order = []

    def pre(i):
        order.append(i)
        for c in children[i]:
            pre(c)

    for c in children[None]:
        pre(c)
    maxlevel = max(level) if n else 0
    classes.append("outline-depth:%d" % maxlevel)
    classes.append("outline-items:%s" % ("0" if n == 0 else "1-9" if n < 10 else "10-29" if n < 30 else "30+"))
    return {"kind": "outlines", "pdf": W.build_pdf(objs), "items": [expect[i] for i in order], "ind": ind,
            "classes": sorted(set(classes)), "nt": maxlevel >= 3,
            "sample": {"n": n, "levels": [level[i] for i in order][:40]}}


def build_chain_case(n, level, rng):
    """n siblings at nesting level `level` (below level-1 single ancestors)."""
    npages = 1
    objs = _base_doc(npages)
    root_n = 10
    anc = [11 + i for i in range(level - 1)]
    first = 11 + len(anc)
    dest = [W.R(3), W.N("Fit")]
    parent = root_n if not anc else anc[-1]
    for i in range(n):
        d = {b"Title": b"s%d" % i, b"Parent": W.R(parent), b"Dest": dest}
        if i:
            d[b"Prev"] = W.R(first + i - 1)
        if i + 1 < n:
            d[b"Next"] = W.R(first + i + 1)
        objs[first + i] = d
    for j, a in enumerate(anc):
        child_first, child_last = (anc[j + 1], anc[j + 1]) if j + 1 < len(anc) else (first, first + n - 1)
        objs[a] = {b"Title": b"a%d" % j, b"Parent": W.R(root_n if j == 0 else anc[j - 1]), b"Dest": dest,
                   b"First": W.R(child_first), b"Last": W.R(child_last),
                   b"Count": n + (len(anc) - 1 - j)}
    top_first, top_last = (anc[0], anc[0]) if anc else (first, first + n - 1)
    objs[root_n] = W.D(Type=W.N("Outlines"), First=W.R(top_first), Last=W.R(top_last), Count=n + len(anc))
    objs[1][b"Outlines"] = W.R(root_n)
    return {"kind": "chain", "pdf": W.build_pdf(objs), "n": n, "level": level,
            "classes": ["chain-level:%d" % level, "chain-len:%s" % ("<500" if n < 500 else "500-999" if n < 1000 else "1000+")],
            "nt": level >= 3, "sample": {"siblings": n, "level": level}}


# ---- named destinations
def _probe_kind(c, keys, leaves):
    if not keys:
        return "empty-tree"
    if c < keys[0]:
        return "below-first"
    if c > keys[-1]:
        return "above-last"
    for leaf in leaves:
        if leaf and leaf[0] < c < leaf[-1]:
            return "in-leaf-limits"
    return "between-leaves"


def absent_probes(keys, leaves, rng, extra, limit=14):
    """Absent keys with their position class; every class that exists for this tree is represented."""
    present = set(keys)
    cand = set(extra)
    cand.update([b"", b"\x00", b"\xff" * 7, b"a", b"zzzz"])
    for k in keys:
        cand.add(k + b"\x00")
        cand.add(k + b"a")
        for j in range(len(k)):
            cand.add(k[:j])
        if k:
            if k[-1] > 0:
                cand.add(k[:-1] + bytes([k[-1] - 1]))
                cand.add(k[:-1] + bytes([k[-1] - 1]) + b"\xff")
            if k[-1] < 255:
                cand.add(k[:-1] + bytes([k[-1] + 1]))
    cand -= present
    by = {}
    for c in sorted(cand):
        kind = _probe_kind(c, keys, leaves)
        by.setdefault(kind, []).append(c)
        if any(k.startswith(c) for k in keys):
            by.setdefault("proper-prefix", []).append(c)
    out = []
    seen = set()
    per = max(2, limit // max(1, len(by)))
    for kind in sorted(by):
        lst = by[kind]
        for c in rng.sample(lst, min(per, len(lst))):
            if c not in seen:
                seen.add(c)
                pk = _probe_kind(c, keys, leaves)
                out.append([c, pk, any(k.startswith(c) for k in keys)])
    return out


def build_dests_case(mapping_keys, name_keys, mode, shape, rng, extra_probes=(), npages=3, absent_names=()):
    """mode: 'tree' | 'dict' | 'both'.  mapping_keys: sorted distinct bytes keys for the name tree.
    name_keys: distinct str names for the PDF-1.1 dictionary."""
    objs = _base_doc(npages)
    alloc = T.Alloc(objs, 3 + npages + 5)
    ind = {}
    classes = ["dests-mode:" + mode]

    def value():
        page = W.R(3 + rng.randrange(npages))
        arr = rng.choice([[page, W.N("Fit")], [page, W.N("XYZ"), rng.randint(0, 500), rng.randint(0, 500), 0],
                          [page, W.N("FitBH"), rng.randint(0, 500)]])
        v = arr if rng.random() < 0.6 else W.D(D=arr)
        classes.append("value:" + ("array" if v is arr else "dict"))
        if rng.random() < 0.35:
            n = alloc.new(v)
            ind[n] = v
            classes.append("value:indirect")
            return W.R(n)
        return v

    present, absent, names_present = [], [], []
    nt = False
    info = {"depth": 0, "leaves": []}
    if mode in ("tree", "both"):
        entries = [(k, value()) for k in mapping_keys]
        root, info = T.layout(entries, b"Names", shape["style"], shape["depth"], shape["fanout"], shape["p_direct"],
                              shape["shuffle"], rng, alloc)
        if shape["root_indirect"]:
            root = W.R(alloc.new(root))
        names = {b"Dests": root}
        if rng.random() < 0.3:
            names[b"EmbeddedFiles"] = {b"Names": []}
        objs[1][b"Names"] = W.R(alloc.new(names)) if rng.random() < 0.5 else names
        present = [[k, v] for k, v in entries]
        absent = absent_probes(list(mapping_keys), info["leaves"], rng, extra_probes)
        classes += _shape_classes(shape, info, "name")
        classes += ["probe:" + p[1] for p in absent] + ["probe:proper-prefix" for p in absent if p[2]]
        classes.append("keys:%s" % ("0" if not entries else "1-5" if len(entries) < 6 else "6-19" if len(entries) < 20 else "20+"))
        nt = info["depth"] >= 1 or any(p[1] == "in-leaf-limits" for p in absent)
    if mode in ("dict", "both"):
        dd = {}
        for nm in name_keys:
            v = value()
            dd[nm.encode("utf-8")] = v
            names_present.append([nm, v])
        objs[1][b"Dests"] = W.R(alloc.new(dd)) if rng.random() < 0.5 else dd
        classes.append("namedict:%s" % ("empty" if not dd else "nonempty"))
        if mode == "both" and info["depth"] >= 1:
            classes.append("name-lookup-with-limits-tree")
    return {"kind": "dests", "pdf": W.build_pdf(objs), "mode": mode, "present": present, "absent": absent,
            "names_present": names_present, "absent_names": [a for a in absent_names if a not in set(name_keys)],
            "ind": ind, "classes": sorted(set(classes)), "nt": nt,
            "sample": {"mode": mode, "keys": list(mapping_keys)[:12], "tree": shape["style"], "depth": info["depth"],
                       "leaves": [len(l) for l in info["leaves"]][:20], "absent": [[a[0], a[1]] for a in absent][:8]}}


# --------------------------------------------------------------------------
# fixed tiny cases (selfcheck smoke test and pinned replays)
def _fixed_labels_case():
    rng = random.Random(1)
    shape = {"style": "flat", "depth": 0, "fanout": 2, "p_direct": 1.0, "shuffle": False, "root_indirect": False}
    return build_labels_case(6, [[0, "r", None, None], [2, "D", "A-", 8], [4, None, "x", None]], ["doc"] * 3, shape, rng)


def _fixed_outline_case():
    return build_outline_case([None, 0, 0, None], ["One", "One.a", "One.b", "Two"], ["doc", "u16", "doc", "doc"],
                              random.Random(1))


def _fixed_dests_case():
    shape = {"style": "balanced", "depth": 1, "fanout": 2, "p_direct": 0.0, "shuffle": False, "root_indirect": True}
    return build_dests_case([b"a", b"b", b"c", b"d"], [], "tree", shape, random.Random(1))


# --------------------------------------------------------------------------
# oracle
# --------------------------------------------------------------------------
def _open(pdf):
    from pdfminer.pdfdocument import PDFDocument
    from pdfminer.pdfparser import PDFParser

    return PDFDocument(PDFParser(io.BytesIO(pdf)))


def _cmp_value(got, want, ind, what):
    """raw object returned by the API against the abstract value; None when equal, else message"""
    from pdfminer.pdftypes import resolve1

    o, e = W.observe(got), W.expected(want)
    if not W.same(o, e):
        return "%s: %s" % (what, W.first_diff(o, e))
    if W.is_ref(want):
        o2, e2 = W.observe(resolve1(got)), W.expected(ind[want[1]])
        if not W.same(o2, e2):
            return "%s (resolved): %s" % (what, W.first_diff(o2, e2))
    return None


def _run_labels(case, classes, nt):
    from pdfminer.pdfpage import PDFPage

    n = case["npages"]
    exp = expected_labels(case["ranges"], n)
    if any(o for _, o in exp):
        classes.append("alpha-over-26")
    import logging

    prev = logging.root.manager.disable
    logging.disable(logging.WARNING)  # "Unknown page label style" would flood stderr when a check fails
    try:
        doc = _open(case["pdf"])
        got1 = list(itertools.islice(doc.get_page_labels(), n))
        got2 = [p.label for p in PDFPage.create_pages(doc)]
    except Exception as e:
        # the only anticipated exception-free path; alpha/roman formatters do not raise in the generated domain
        return Outcome(classes, nt, fail="labels: raised %s: %s" % (type(e).__name__, e), sample=case.get("sample"))
    finally:
        logging.disable(prev)
    bad_known, bad = [], []
    for name, got in (("get_page_labels", got1), ("PDFPage.label", got2)):
        if len(got) != n:
            bad.append("%s yielded %d labels for %d pages" % (name, len(got), n))
            continue
        for i, (g, (e, over)) in enumerate(zip(got, exp)):
            if g != e:
                (bad_known if over else bad).append("%s page %d: got %r, expected %r" % (name, i, g, e))
    if bad:
        return Outcome(classes, nt, fail="; ".join(bad[:4]) + " ranges=%r" % (case["ranges"],), sample=case.get("sample"))
    if bad_known:
        if "alpha-label-over-26" in runner.ACTIVE_KNOWN:
            return Outcome(classes, known="alpha-label-over-26")
        return Outcome(classes, nt, fail="[alpha-label-over-26] " + "; ".join(bad_known[:3]) + " ranges=%r" % (case["ranges"],),
                       sample=case.get("sample"))
    # ---- a selection of pages keeps each page's own label (the label belongs to the page index, not to the position in
    # the selection)
    if n >= 2:
        import io as _io

        sel = sorted({(7 * n + 3) % n, n - 1, (n // 2)} - {0}) or [n - 1]
        try:
            got4 = [(p.label) for p in PDFPage.get_pages(_io.BytesIO(case["pdf"]), pagenos=set(sel))]
        except Exception as e:
            return Outcome(classes, nt, fail="labels: get_pages(pagenos=%r) raised %s: %s" % (sel, type(e).__name__, e), sample=case.get("sample"))
        want4 = [got1[i] for i in sel]
        if got4 != want4:
            return Outcome(classes, nt, fail="get_pages(pagenos=%r): labels %r, the pages' own labels are %r ranges=%r" % (
                sel, got4, want4, case["ranges"]), sample=case.get("sample"))
    # ---- the same labels with settings.STRICT on: a conforming tree gives no reason to raise, and the strict accessors
    # must accept every optional entry being absent
    # (not for shuffled Kids: ISO does not order them, pdfminer's strict mode asks for sorted trees)
    if "num-kids-shuffled" not in case.get("classes", []):
        from pdfminer import settings

        logging.disable(logging.WARNING)
        old = settings.STRICT
        settings.STRICT = True
        try:
            got3 = list(itertools.islice(_open(case["pdf"]).get_page_labels(), n))
        except Exception as e:
            return Outcome(classes + ["strict"], nt, fail="labels with settings.STRICT = True: raised %s: %s ranges=%r" % (
                type(e).__name__, e, case["ranges"]), sample=case.get("sample"))
        finally:
            settings.STRICT = old
            logging.disable(prev)
        if got3 != got1:
            return Outcome(classes + ["strict"], nt, fail="labels with settings.STRICT = True differ: %r, otherwise %r ranges=%r" % (
                got3[:6], got1[:6], case["ranges"]), sample=case.get("sample"))
        classes = classes + ["strict-pass"]
    return Outcome(classes, nt, sample=case.get("sample"))


def _with_default_stack(fn):
    """Run fn with the number of free stack frames a top-level caller has under CPython's default recursion limit
    (1000).  Hypothesis raises the interpreter's limit while it executes a test, the replay tier does not; pinning
    it makes the verdict for long sibling chains identical in search and replay.  The limit is restored."""
    import sys

    depth, f = 0, sys._getframe()
    while f is not None:
        depth += 1
        f = f.f_back
    old = sys.getrecursionlimit()
    sys.setrecursionlimit(depth + 1000)
    try:
        return fn()
    finally:
        sys.setrecursionlimit(old)


def _run_outlines(case, classes, nt):
    try:
        doc = _open(case["pdf"])
        got = _with_default_stack(lambda: list(doc.get_outlines()))
    except Exception as e:
        return Outcome(classes, nt, fail="outlines: raised %s: %s" % (type(e).__name__, str(e)[:200]), sample=case.get("sample"))
    if case["kind"] == "chain":
        n, lv = case["n"], case["level"]
        want = [[j + 1, "a%d" % j, [W.R(3), W.N("Fit")], None] for j in range(lv - 1)]
        want += [[lv, "s%d" % i, [W.R(3), W.N("Fit")], None] for i in range(n)]
        ind = {}
    else:
        want, ind = case["items"], case["ind"]
    if len(got) != len(want):
        return Outcome(classes, nt, fail="get_outlines yielded %d entries, expected %d; got (level,title)=%r expected=%r" % (
            len(got), len(want), [(g[0], g[1]) for g in got[:12]], [(w[0], w[1]) for w in want[:12]]),
            sample=case.get("sample"))
    for i, (g, w) in enumerate(zip(got, want)):
        if g[0] != w[0] or g[1] != w[1]:
            return Outcome(classes, nt, fail="outline entry %d: got (level=%r, title=%r), expected (level=%r, title=%r)" % (
                i, g[0], g[1], w[0], w[1]), sample=case.get("sample"))
        for j, nm in ((2, "dest"), (3, "action")):
            if w[j] is None:
                if g[j] is not None:
                    return Outcome(classes, nt, fail="outline entry %d: %s should be None, got %r" % (i, nm, g[j]),
                                   sample=case.get("sample"))
            else:
                m = _cmp_value(g[j], w[j], ind, "outline entry %d %s" % (i, nm))
                if m:
                    return Outcome(classes, nt, fail=m, sample=case.get("sample"))
    return Outcome(classes, nt, sample=case.get("sample"))


def _run_dests(case, classes, nt):
    from pdfminer.pdfdocument import PDFDestinationNotFound

    try:
        doc = _open(case["pdf"])
    except Exception as e:
        return Outcome(classes, nt, fail="dests: open raised %s: %s" % (type(e).__name__, e), sample=case.get("sample"))
    ind = case["ind"]
    for k, v in list(case["present"]) + list(case["names_present"]):
        try:
            got = doc.get_dest(k)
        except Exception as e:
            return Outcome(classes, nt, fail="get_dest(%r) for a present key raised %s: %s" % (k, type(e).__name__, str(e)[:200]),
                           sample=case.get("sample"))
        m = _cmp_value(got, v, ind, "get_dest(%r)" % (k,))
        if m:
            return Outcome(classes, nt, fail=m, sample=case.get("sample"))
    for k, kind in [(a[0], a[1]) for a in case["absent"]] + [(a, "absent-name") for a in case["absent_names"]]:
        try:
            got = doc.get_dest(k)
        except PDFDestinationNotFound:
            continue
        except Exception as e:
            return Outcome(classes, nt, fail="get_dest(%r) for an absent key (%s) raised %s: %s instead of "
                           "PDFDestinationNotFound" % (k, kind, type(e).__name__, str(e)[:200]), sample=case.get("sample"))
        return Outcome(classes, nt, fail="get_dest(%r) for an absent key (%s) returned %r" % (k, kind, got),
                       sample=case.get("sample"))
    return Outcome(classes, nt, sample=case.get("sample"))


def _run_text(case, classes, nt):
    from pdfminer.utils import decode_text

    for item in case["items"]:
        raw, want = item[0], item[1]
        try:
            got = decode_text(raw)
        except Exception as e:
            return Outcome(classes, nt, fail="decode_text(%r) raised %s: %s" % (raw, type(e).__name__, e))
        if want is None:  # single PDFDocEncoding byte in context: asserted only where Annex D defines the code
            ctx, c = item[2], item[3]
            if c in PDFDOC_UNDEFINED:
                continue
            want = ctx[0] + PDFDOC[c] + ctx[1]
        if got != want:
            return Outcome(classes, nt, fail="decode_text(%r) = %r, expected %r" % (raw, got, want))
    return Outcome(classes, nt, sample=case.get("sample"))


def run_case(case):
    kind = case["kind"]
    classes = ["kind:" + kind] + list(case.get("classes", []))
    nt = bool(case.get("nt"))
    if kind == "labels":
        return _run_labels(case, classes, nt)
    if kind in ("outlines", "chain"):
        return _run_outlines(case, classes, nt)
    if kind == "dests":
        return _run_dests(case, classes, nt)
    if kind == "text":
        return _run_text(case, classes, nt)
    raise ValueError(kind)


# --------------------------------------------------------------------------
# strategies
# --------------------------------------------------------------------------
class Case(dict):
    """plain dict for the runner; short repr so that Hypothesis does not print 100 kB of file bytes on failure"""

    def __repr__(self):
        return "Case(kind=%r, sample=%r)" % (self.get("kind"), self.get("sample"))


ASTRAL = ["\U0001F600", "\U00010000", "\U0010FFFF", "\U0001D11E", "\U00020000"]
BMP_ODD = ["\u0000", "\ufeff", "\ufffe", "\uffff", "\u00ad", "\u2022", "\u20ac", "\ud7ff", "\ue000", "\u0141",
           "\n", "\r", "\u4e2d", "\u05d0", "\u0301", "\ufb01", "\u00fe\u00ff"]


def doc_texts(max_size=12):
    codes = st.one_of(st.sampled_from(DEFINED_CODES), st.sampled_from(SPECIAL_CODES), st.integers(0x20, 0x7E))
    return st.lists(codes, max_size=max_size).map(lambda cs: "".join(PDFDOC[c] for c in cs))


def uni_texts(max_size=10):
    ch = st.one_of(st.characters(blacklist_categories=["Cs"], blacklist_characters="\x1b"),
                   st.sampled_from(ASTRAL), st.sampled_from(BMP_ODD), st.characters(min_codepoint=0x20, max_codepoint=0x7E))
    return st.lists(ch, max_size=max_size).map("".join)


def texts(max_size=10):
    return st.one_of(doc_texts(max_size), doc_texts(max_size), uni_texts(max_size),
                     st.sampled_from(["", "Chapter ", "A-", "\u00fe\u00ff", "\u00ef\u00bb\u00bfx", "(", ")", "\\",
                                      # PDFDocEncoded text that starts with the bytes FF FE: not a byte-order mark in PDF
                                      "\u00ff\u00fe", "\u00ff\u00fex", "\u00ff\u00feA\u0000", "\u00ff\u00fe1.", "\u00ff\u00fe\u00ff\u00fe"]))


@st.composite
def labels_cases(draw, max_pages):
    rng = random.Random(draw(st.integers(0, 2 ** 32)))
    npages = draw(st.one_of(st.integers(1, 12), st.integers(1, max_pages)))
    nranges = draw(st.integers(1, min(8, npages + 1)))
    cand = list(range(1, npages + 3))
    starts = [0] + sorted(draw(st.lists(st.sampled_from(cand), unique=True, min_size=min(nranges - 1, len(cand)),
                                        max_size=min(nranges - 1, len(cand)))))
    pool = draw(st.lists(texts(8), min_size=1, max_size=4))
    ranges, encs = [], []
    # alpha values > 26 are the known finding alpha-label-over-26: kept at a low rate so that the search is not
    # dominated by excluded cases (the other cases keep alpha values within 1..26 by construction)
    allow_over26 = draw(st.integers(0, 9)) == 0
    for idx, start in enumerate(starts):
        style = draw(st.sampled_from(["D", "R", "r", "A", "a", None]))
        seen_len = max(0, (starts[idx + 1] if idx + 1 < len(starts) else npages) - start)  # pages observed in range
        if style in ("A", "a") and not allow_over26 and seen_len > 26:
            style = draw(st.sampled_from(["D", "R", "r", None]))
        prefix = draw(st.sampled_from(pool)) if draw(st.integers(0, 2)) else None
        if style in ("R", "r"):
            hi = 3999 - (npages + 3)
            stv = draw(st.one_of(st.none(), st.integers(1, 60), st.integers(1, hi), st.sampled_from([4, 9, 40, 90, 400, 900, 1888, hi])))
        elif style in ("A", "a"):
            if allow_over26:
                stv = draw(st.one_of(st.none(), st.integers(1, 8), st.integers(1, 26), st.integers(20, 800)))
            else:
                top = 26 - max(seen_len, 1) + 1
                stv = draw(st.one_of(st.none(), st.integers(1, top), st.just(top)))
        else:
            stv = draw(st.one_of(st.none(), st.just(1), st.integers(1, 30), st.integers(1, 10 ** 6)))
        ranges.append([start, style, prefix, stv])
        encs.append(pick_enc(prefix or "", draw(st.integers(0, 3)) == 0))
    shape = _shape(rng)
    ind_entry_p = 0.0
    if GEN_INDIRECT_LABEL_ENTRIES and draw(st.integers(0, 9)) == 0:
        ind_entry_p = 0.5
    return Case(build_labels_case(npages, ranges, encs, shape, rng, ind_entry_p=ind_entry_p))


@st.composite
def outline_cases(draw, max_items):
    rng = random.Random(draw(st.integers(0, 2 ** 32)))
    n = draw(st.one_of(st.integers(0, 8), st.integers(0, max_items)))
    # (also chains as deep as the forest has items: nesting depth is not bounded by the specification)
    maxdepth = draw(st.one_of(st.integers(1, 6), st.integers(1, 6), st.just(1000)))
    bias = draw(st.sampled_from([0.0, 0.3, 0.6, 0.9])) if maxdepth < 1000 else draw(st.sampled_from([0.9, 0.97, 1.0]))
    parents, level = [], []
    for i in range(n):
        if i and level[i - 1] < maxdepth and rng.random() < bias:
            p = i - 1
        else:
            opts = [None] + [j for j in range(i) if level[j] < maxdepth]
            p = rng.choice(opts)
        parents.append(p)
        level.append(1 if p is None else level[p] + 1)
    pool = draw(st.lists(texts(10), min_size=1, max_size=5))
    titles, encs = [], []
    for i in range(n):
        t = rng.choice(pool) + ("" if rng.random() < 0.2 else " #%d" % i)
        titles.append(t)
        encs.append(pick_enc(t, rng.random() < 0.3))
    return Case(build_outline_case(parents, titles, encs, rng))


@st.composite
def chain_cases(draw, lo, hi):
    rng = random.Random(draw(st.integers(0, 2 ** 32)))
    return Case(build_chain_case(draw(st.one_of(st.integers(lo, hi), st.integers(min(900, hi), hi))),
                                 draw(st.sampled_from([1, 1, 2, 3])), rng))


def key_strategy():
    return st.one_of(
        st.text("ab", max_size=5).map(lambda s: s.encode()),
        st.text("abcXYZ019._", min_size=1, max_size=8).map(lambda s: s.encode()),
        st.binary(max_size=4),
        st.lists(st.sampled_from([b"\x00", b"\xff", b"a", b"\x7f", b"\x80", b"(", b")", b"\\", b"\r"]), max_size=4).map(b"".join),
        st.sampled_from([b"Chapter.1", b"Chapter.10", b"Chapter.2", b"G1.100", b"G1.1000", b"\xfe\xff\x00a", b"\xfe\xff\x00b"]),
    )


NAME_ALPHABET = "abcXYZ019._- #/\u00e9"


@st.composite
def dests_cases(draw, max_keys):
    rng = random.Random(draw(st.integers(0, 2 ** 32)))
    mode = draw(st.sampled_from(["tree"] * 6 + ["dict", "dict"] + (["both"] if GEN_NAME_LOOKUP_WITH_TREE else ["dict"])))
    nk = draw(st.sampled_from([0, 1, 2, 3, 6, 10, 10, 25, max_keys]))
    keys = sorted(set(draw(st.lists(key_strategy(), min_size=nk // 2, max_size=nk))))
    extra = draw(st.lists(key_strategy(), max_size=4))
    names, absent_names = [], []
    if mode != "tree":
        names = sorted(set(draw(st.lists(st.text(NAME_ALPHABET, min_size=1, max_size=6), max_size=8))))
        absent_names = sorted(set(draw(st.lists(st.text(NAME_ALPHABET, min_size=1, max_size=6), max_size=3))
                                  + [nm + "x" for nm in names[:2]] + [nm[:-1] for nm in names[:2] if len(nm) > 1]))
    shape = _shape(rng, quick_flat=0.15)
    return Case(build_dests_case(keys, names, mode, shape, rng, extra_probes=extra, absent_names=absent_names))


@st.composite
def text_cases(draw):
    mode = draw(st.sampled_from(["doc", "doc", "u16", "u16", "bytes"]))
    items = []
    classes = ["text:" + mode]
    nt = False
    if mode == "bytes":
        ctx = draw(st.sampled_from([["", ""], ["A", "B"], ["\u2022", ""], ["", "\u20ac"]]))
        pre, post = encode_text(ctx[0], "doc"), encode_text(ctx[1], "doc")
        for c in range(256):
            raw = pre + bytes([c]) + post
            if raw.startswith(b"\xfe\xff") or raw.startswith(b"\xef\xbb\xbf"):
                continue
            items.append([raw, None, ctx, c])
        nt = True
    else:
        for _ in range(draw(st.integers(1, 6))):
            if mode == "doc":
                t = draw(doc_texts(40))
                if not doc_encodable(t):
                    t = "x" + t
                items.append([encode_text(t, "doc"), t])
                if any(ord(ch) > 0x7E or ord(ch) < 0x20 for ch in t):
                    nt = True
                    classes.append("text:doc-special")
            else:
                t = draw(uni_texts(30))
                items.append([encode_text(t, "u16"), t])
                if any(ord(ch) > 0xFFFF for ch in t):
                    nt = True
                    classes.append("text:surrogate-pair")
                elif any(ord(ch) > 0x7E for ch in t):
                    nt = True
                    classes.append("text:u16-nonascii")
    return Case({"kind": "text", "items": items, "classes": sorted(set(classes)), "nt": nt,
                 "sample": {"mode": mode, "first": items[0][0][:40] if items else None}})


# --------------------------------------------------------------------------
def plan(tier):
    q = tier == "quick"
    specs = [{"kind": "labels", "n": 400 if q else 8000, "max": 60 if q else 300} for _ in range(6)]
    specs += [{"kind": "outlines", "n": 300 if q else 6000, "max": 60} for _ in range(6)]
    specs += [{"kind": "chain", "n": 8 if q else 120, "lo": 200, "hi": 1500} for _ in range(2)]
    specs += [{"kind": "dests", "n": 400 if q else 8000, "max": 40 if q else 120} for _ in range(6)]
    specs += [{"kind": "text", "n": 500 if q else 8000} for _ in range(3)]
    specs += [{"kind": "fixed"}]
    return specs


def run_shard(spec, ctx):
    k = spec["kind"]
    if k == "fixed":
        return enum_search(ctx, [_fixed_labels_case(), _fixed_outline_case(), _fixed_dests_case()], run_case)
    if k == "labels":
        return hyp_search(ctx, labels_cases(spec["max"]), run_case, spec["n"])
    if k == "outlines":
        return hyp_search(ctx, outline_cases(spec["max"]), run_case, spec["n"])
    if k == "chain":
        return hyp_search(ctx, chain_cases(spec["lo"], spec["hi"]), run_case, spec["n"], shrink_budget=40)
    if k == "dests":
        return hyp_search(ctx, dests_cases(spec["max"]), run_case, spec["n"])
    return hyp_search(ctx, text_cases(), run_case, spec["n"])
