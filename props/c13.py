"""C13 — damaged input: errors stay in the library's exception family and work stays bounded (fault enumeration)."""
import copy
import io
import os
import random
import re
import traceback

from vlib import pdfwrite as W
from vlib import runner
from vlib import seeds as SD
from vlib.runner import Outcome, ShardResult, enum_search
from vlib.workmeter import METER, WorkBudgetExceeded
from vlib.workmeter import selfcheck as meter_selfcheck

ID = "C13"
LEVEL = "fault_enumeration"
RULE = ("Finite fault space over 9 harness-built feature-covering seed documents (simple fonts with Differences/ToUnicode/"
        "FontFile/Type3; composite fonts with W/DW/W2/ToUnicode/FontFile2 (cmap formats 4 and 2)/predefined CMap; forms, "
        "images with predictor, inline image, colour spaces, ExtGState, marked content; filter chains with predictors, "
        "indirect Length, a CCITT content stream; page labels/outlines/dests and a multi-level page tree; the simple seed "
        "again in object streams + xref stream; three encrypted seeds RC4 / AESV2 / AESV3 whose /Encrypt dictionary is an "
        "ordinary object) and the repository samples simple1-5.  Fault kinds: every dictionary value and array element x "
        "27 replacement values (null, bool, -1, 0, 2^31, real, string, name, arrays, dicts, self-reference, missing "
        "reference, page-tree reference, referrer reference = cycle of length >= 2, +-10^30, real 1e60, empty string, "
        "[missing ref], [null], reference chains that enter a cycle, 2^63-1, 2^63-300, a 14-level fan-out of references); "
        "every key removal; the same values as the whole value of every object and for 9 trailer / xref-stream entries "
        "(plus /Prev = own offset); every stream payload x {truncate at 8 points, flip one bit at 8 points, garbage, "
        "empty}; LZW code faults; CMap range / target faults; every byte of an embedded font program <- 0xFF; every "
        "numeric operand of a content stream x 9 replacements; 22 insertions into an inline image dictionary; payload "
        "cuts and /N /First faults of the writer's object streams; generation / offset fields of classic xref entries; "
        "truncation of the file at every byte (every 64th for the two large samples).  Each damaged file goes through "
        "extract_text, extract_pages, extract_text_to_fp(xml) and, for seeds with images, extract_text_to_fp(output_dir)."
        "  Oracle: return or an instance of PSException (AssertionError tolerated and counted, as the repository's fuzz "
        "harnesses do); anything else is a violation bucketed by (exception type, innermost pdfminer frame); work "
        "measured in sys.monitoring PY_START+JUMP events must stay below 50x the undamaged seed + 2e6.  Quick = the "
        "cycle / chain / payload / trailer / object-stream / operand(simple) / font-program(cid) classes completely plus a "
        "seeded sample of the rest, thorough = all of it plus atheris campaigns.  Non-trivial = the object holding the "
        "faulted site was actually fetched by getobj (truncations: any object fetched; trailer, object-stream and xref "
        "faults always); distinct by (seed, site, kind).")
ASSUMPTIONS = ["image export (output_dir) is exercised for the seeds that contain images; the ImportError that asks for the optional Pillow package is tolerated like AssertionError",
               "work inside C extensions (zlib, re, AES) is not counted; no fault kind enlarges a payload",
               "AssertionError is tolerated because fuzzing/*.py in the repository states that contract"]

REPO = os.environ.get("VERIF_REPO", "/repo")
SAMPLE_FILES = ["samples/simple1.pdf", "samples/simple2.pdf", "samples/simple3.pdf", "samples/simple4.pdf", "samples/simple5.pdf"]
REPL = [None, True, -1, 0, 2 ** 31, W.Real("0.5"), b"abc", W.N("Foo"), [], [1, 2, 3], {}, {b"A": 1}, "SELF", W.R(9999), W.R(2),
        "REFERRER"]
REPL_NAMES = ["null", "true", "-1", "0", "2^31", "real", "string", "name", "[]", "[1 2 3]", "<<>>", "<</A 1>>", "self-ref",
              "missing-ref", "pagetree-ref", "referrer-ref (cycle of length >= 2)"]
# (indices are part of pinned replay files: only ever append)
TRAILER_REPL = list(REPL) + ["SELFPOS", 7]
REPL += [10 ** 30, -10 ** 30, W.Real("1" + "0" * 60 + ".0"), b"", [W.R(9999)], [None], "CHAIN1", "CHAIN2", 2 ** 63 - 1,
         2 ** 63 - 300, "FANOUT", 10 ** 400, "STREAMREF", W.N("to-unicode-Adobe-Japan1")]
REPL_NAMES += ["10^30", "-10^30", "real 1e60", "empty string", "[missing-ref]", "[null]",
               "ref to a new object whose value is a reference to itself",
               "ref to a new object leading into a cycle of two further objects", "2^63-1", "2^63-300",
               "ref to an array of four references to an array of four references ... 14 levels deep", "10^400",
               "ref to a (new) stream object", "name of a to-unicode resource"]
# objects added to the file for the CHAIN replacements: a reference chain that *enters* a cycle
CHAIN_OBJS = {"CHAIN1": {9000: W.R(9000)}, "CHAIN2": {9000: W.R(9001), 9001: W.R(9002), 9002: W.R(9001)},
              # no cycle, but 4**14 paths: every object must be resolved once, not once per path
              "STREAMREF": {9000: W.Stream({}, b"q Q")},
              "FANOUT": dict([(9000 + i, [W.R(9001 + i)] * 4) for i in range(14)] + [(9014, [1, 2, 3, 4])])}
# values nested deeper than the interpreter's recursion limit.  They are written as a name of the same length that is
# replaced in the finished file, because the writer is recursive itself; the object and stream offsets stay right.
DEEP = 3000
DEEP_BYTES = {b"/" + b"Xa" * (DEEP - 1) + b"X": b"[" * DEEP + b"]" * DEEP,
              b"/" + b"Xd" * (3 * DEEP) + b"X": b"<</A" * DEEP + b" 0" + b">>" * DEEP}
assert all(len(k) == len(v) for k, v in DEEP_BYTES.items())
REPL += [W.N(k[1:].decode()) for k in DEEP_BYTES]
REPL_NAMES += ["array nested %d deep" % DEEP, "dictionary nested %d deep" % DEEP]
DEEP_R = (len(REPL) - 2, len(REPL) - 1)
REPL += [2 ** 31 - 1]
REPL_NAMES += ["2^31-1"]
# reals of 400 digits: read as +-infinity
REPL += [W.Real("9" * 400 + "."), W.Real("-" + "9" * 400 + ".")]
REPL_NAMES += ["real of 400 digits (+inf)", "real of 400 digits (-inf)"]
TRAILER_REPL += REPL[16:]
TRAILER_REPL_NAMES = REPL_NAMES[:16] + ["own startxref offset", "7"] + REPL_NAMES[16:]
# (appended after everything else so that the indices in pinned replays stay valid)
TRAILER_REPL += ["SELFPOS-1"]
TRAILER_REPL_NAMES += ["own startxref offset - 1 (the white space in front of the section)"]
LZW_CODE_VALUES = [0, 255, 256, 257, 258, 259, 300, 511, 512, 4095]

_SEEDS = {}


def seed(name):
    if not _SEEDS:
        for f in SD.ALL:
            s = f()
            _SEEDS[s["name"]] = s
    return _SEEDS[name]


def selfcheck():
    meter_selfcheck()
    for f in SD.ALL:
        s = f()
        data = SD.write(s)
        outs = run_entries(data)
        for name, exc, n in outs:
            if exc is not None:
                raise AssertionError("undamaged seed %s fails in %s: %r" % (s["name"], name, exc))


# ------------------------------------------------------------------ fault space
def sites(value, path=()):
    """Yields (path, kind) for every replaceable position below value; path items: ("k", key) / ("i", index) / ("d",)."""
    if W.is_stream(value):
        yield from sites(value[1], path + (("d",),))
    elif isinstance(value, dict):
        for k, v in value.items():
            yield (path + (("k", k),), "value")
            yield from sites(v, path + (("k", k),))
    elif isinstance(value, list):
        for i, v in enumerate(value):
            yield (path + (("i", i),), "value")
            yield from sites(v, path + (("i", i),))


def _get(value, path):
    for p in path:
        if p[0] == "d":
            value = value[1]
        else:
            value = value[p[1]]
    return value


def _set(value, path, new, remove=False):
    """Functional update along path."""
    if not path:
        return new
    p = path[0]
    if p[0] == "d":
        return ("S", _set(value[1], path[1:], new, remove), value[2])
    if p[0] == "k":
        d = dict(value)
        if len(path) == 1 and remove:
            del d[p[1]]
        else:
            d[p[1]] = _set(value[p[1]], path[1:], new, remove)
        return d
    lst = list(value)
    lst[p[1]] = _set(value[p[1]], path[1:], new, remove)
    return lst


def referrer(s, n):
    """Smallest object number whose value contains a reference to object n (closing a cycle of length >= 2)."""
    def refs(v):
        if W.is_ref(v):
            yield v[1]
        elif W.is_stream(v):
            yield from refs(v[1])
        elif isinstance(v, dict):
            for x in v.values():
                yield from refs(x)
        elif isinstance(v, list):
            for x in v:
                yield from refs(x)

    for m in sorted(s["objs"]):
        if m != n and n in set(refs(s["objs"][m])):
            return m
    return None


def _plain_lzw(v):
    return W.is_stream(v) and v[1].get(b"Filter") == W.N("LZWDecode") and b"DecodeParms" not in v[1]


NUM_TOKEN = re.compile(rb"(?<![\w.#/<(\[-])[-+]?(?:\d+\.?\d*|\.\d+)(?![\w.>)])")
OPERAND_REPL = [b"/N", b"(s)", b"[1]", b"<< >>", b"", b"9" * 400, b"1" + b"0" * 30 + b".5", b"-", b"null",
                b"9" * 400 + b".5", b"-" + b"9" * 400 + b".5",
                # finite, but products of two such operands overflow to infinity (and infinity times zero is NaN)
                b"1" + b"0" * 308, b"-1" + b"0" * 308 + b".0"]


# trailer / cross-reference-stream dictionary entries; values REPL[r], then "SELFPOS" (the file's own startxref offset:
# a /Prev chain leading back to itself) and 7 (an offset inside the header)
TRAILER_KEYS = ["Prev", "XRefStm", "Size", "Root", "Info", "ID", "Encrypt", "W", "Index"]


INLINE_INSERTS = [b"/F []", b"/F 3", b"/F null", b"/F /A85", b"/F [/AHx /A85]", b"/F << >>", b"/F (s)", b"/F [3]",
                  b"/Filter []", b"/F /Fl /DP 7", b"/F /Fl /DP [null]", b"/F /LZW /DP << /Predictor /X >>", b"/F /CCF",
                  b"/F /DCT", b"/F /RL", b"/F [/Fl /Fl /Fl]", b"/W /X", b"/BPC [8]", b"/CS 5", b"/CS [/I /G]", b"/D 7", b"/IM (x)"]


def _is_content(v):
    d = v[1]
    if d.get(b"Filter") or b"Length1" in d or d.get(b"Subtype") == W.N("Image"):
        return False
    if d.get(b"Type") in (W.N("XRef"), W.N("ObjStm"), W.N("Metadata")) or b"begincmap" in v[2]:
        return False
    return any(op in v[2] for op in (b" Tj", b" re", b" Do", b" l", b"BT"))


# replacements for the first `<lo> <hi> <target>` line of a bfrange section
CMAP_RANGE_FAULTS = [
    (b"beginbfrange", b"<00000000> <ffffffff> <0041>", b"endbfrange"),
    (b"beginbfrange", b"<000000> <ffffff> <0041>", b"endbfrange"),
    (b"beginbfrange", b"<0000> <ffff> <ffffffff>", b"endbfrange"),
    (b"beginbfrange", b"<0041> <0042> <fffffffffffffffe>", b"endbfrange"),
    (b"begincidrange", b"<00000000> <ffffffff> 0", b"endcidrange"),
    (b"begincidrange", b"<0000> <ffff> 4294967295", b"endcidrange"),
    (b"beginbfrange", b"<0041> <0042> [<0041>]", b"endbfrange"),
    (b"beginbfrange", b"<0042> <0041> <0041>", b"endbfrange"),
    (b"beginbfrange", b"<0041> <0042> [70000000 5]", b"endbfrange"),
    (b"beginbfrange", b"<0041> <0042> [-5 5]", b"endbfrange"),
    (b"beginbfrange", b"<0041> <0042> 65", b"endbfrange"),
    (b"beginbfrange", b"<0041> <0042> [/A#ff /B]", b"endbfrange"),
    (b"beginbfchar", b"<0041> 70000000 <0042> -1", b"endbfchar"),
    (b"begincidchar", b"<0041> 70000000", b"endcidchar"),
]


def fault_space(s):
    """All structural faults of a seed as JSON-able dicts (deterministic order)."""
    out = []
    for n in sorted(s["objs"]):
        v = s["objs"][n]
        for path, _ in sites(v):
            pl = [list(p) for p in path]
            for ri in range(len(REPL)):
                out.append({"t": "replace", "obj": n, "path": pl, "r": ri})
            if path[-1][0] == "k":
                out.append({"t": "remove", "obj": n, "path": pl})
        for ri in range(len(REPL)):
            # the whole value of the indirect object (e.g. `n 0 obj n 0 R endobj`, or a reference back to a referrer)
            out.append({"t": "whole", "obj": n, "r": ri})
        if W.is_stream(v):
            for i in range(8):
                out.append({"t": "payload", "obj": n, "how": "truncate", "i": i})
                out.append({"t": "payload", "obj": n, "how": "flip", "i": i})
            out.append({"t": "payload", "obj": n, "how": "garbage"})
            out.append({"t": "payload", "obj": n, "how": "empty"})
            if _is_content(v):
                # token-level corruption of a content stream: every numeric operand replaced by an operand of another
                # type / an absurd number, or dropped
                for k, m in enumerate(NUM_TOKEN.finditer(v[2])):
                    for r in range(len(OPERAND_REPL)):
                        out.append({"t": "operand", "obj": n, "k": k, "r": r})
            if _is_content(v) and b" ID " in v[2] and b"BI" in v[2]:
                # entries inserted into the dictionary of the first inline image
                for k in range(len(INLINE_INSERTS)):
                    out.append({"t": "inlinekey", "obj": n, "k": k})
            if not v[1].get(b"Filter") and b"Length1" in v[1] and len(v[2]) <= 4000:
                # an embedded font program: every byte overwritten with 0xFF (tables of offsets, counts and keys)
                for pos in range(len(v[2])):
                    out.append({"t": "byteset", "obj": n, "pos": pos, "val": 255})
            if not v[1].get(b"Filter") and b"endbfrange" in v[2]:
                # a CMap program whose range is widened / whose range target overflows: work must stay bounded
                for k in range(len(CMAP_RANGE_FAULTS)):
                    out.append({"t": "cmaprange", "obj": n, "k": k})
            if _plain_lzw(v):
                # code-level corruption of an LZW payload: every one of the first 24 code positions x boundary values
                for pos in range(24):
                    for val in LZW_CODE_VALUES:
                        out.append({"t": "lzwcode", "obj": n, "pos": pos, "val": val})
    if s["form"] == "stream":
        # the object streams the writer packs the non-stream objects into: payload cut at every point of the integer
        # header (and some beyond), /N /First replaced
        for grp in (0, 1):
            for cut in list(range(0, 40)) + [60, 100, 200]:
                out.append({"t": "objstm", "group": grp, "cut": cut})
            for key in ("N", "First"):
                for val in (0, 1, 1000, -1):
                    out.append({"t": "objstm", "group": grp, "key": key, "val": val})
    if s["form"] == "table":
        # fields of the classic cross-reference table entries (generation numbers matter for decryption keys)
        for n in sorted(s["objs"]):
            for val in (b"-0001", b"99999", b"00001", b"65535"):
                out.append({"t": "xrefentry", "obj": n, "field": "gen", "val": val.decode()})
            for val in (b"-000000001", b"9999999999", b"0000000000"):
                out.append({"t": "xrefentry", "obj": n, "field": "off", "val": val.decode()})
    for key in TRAILER_KEYS:
        for ri in range(len(TRAILER_REPL)):
            out.append({"t": "trailer", "key": key, "r": ri})
    size = len(SD.write(s))
    for cut in range(0, size):
        out.append({"t": "truncate", "at": cut})
    for n in UPDATE_COUNTS:
        for mode in UPDATE_MODES:
            out.append({"t": "updates", "n": n, "mode": mode})
    # a number of more digits than int() converts (4300), where the file structure is read without the tokenizer
    out.append({"t": "digits", "where": "startxref"})
    for n in sorted(s["objs"]):
        for where in ("objnum", "objgen"):
            for noxref in (False, True):
                out.append({"t": "digits", "where": where, "obj": n, "noxref": noxref})
    return out


MANY_DIGITS = b"9" * 4400


def many_digits(data, f):
    import re

    if f["where"] == "startxref":
        m = list(re.finditer(rb"startxref\s+(\d+)", data))
        if not m:
            return None
        return data[:m[-1].start(1)] + MANY_DIGITS + data[m[-1].end(1):]
    m = re.search(rb"(?m)^(%d) (0) obj" % f["obj"], data)
    if not m:
        return None
    g = 1 if f["where"] == "objnum" else 2
    out = data[:m.start(g)] + MANY_DIGITS + data[m.end(g):]
    if f["noxref"]:
        # no usable cross-reference: the body scan has to read the header
        out = out.replace(b"startxref", b"startxrfe")
    return out


# incremental updates appended to the file: n sections that change nothing, chained by /Prev ("plain"), chained by
# /Prev and /XRefStm both ("xrefstm"), or with the oldest appended section pointing at the newest ("loop")
UPDATE_COUNTS = (1, 40, 1200, 5000)
UPDATE_MODES = ("plain", "xrefstm", "loop")


def append_updates(data, n, mode):
    import re

    m = list(re.finditer(rb"startxref\s+(\d+)", data))
    if not m:
        return None
    prev = int(m[-1].group(1))
    out = bytearray(data)
    if not out.endswith(b"\n"):
        out += b"\n"
    first = None
    sec = b"xref\n0 1\n0000000000 65535 f \ntrailer\n<< /Size 1 %s >>\nstartxref\n%d\n%%%%EOF\n"
    # every section has the same length for a given number of digits, so the position of the newest one is known
    for k in range(n):
        x = len(out)
        if first is None:
            first = x
        extra = b"/Prev %010d" % prev
        if mode == "xrefstm":
            extra += b" /XRefStm %010d" % prev
        out += sec % (extra, x)
        prev = x
    if mode == "loop":
        # the oldest appended section leads to the newest one instead of the original table
        newest = prev
        old = bytes(out[first:])
        i = old.index(b"/Prev ")
        out[first:] = old[:i] + b"/Prev %010d" % newest + old[i + 16:]
    return bytes(out)


def sample_space(name):
    data = open(os.path.join(REPO, name), "rb").read()
    step = 1 if len(data) < 5000 else 64
    out = [{"t": "truncate", "at": c} for c in range(0, len(data), step)]
    for i in range(0, len(data), max(1, len(data) // 64)):
        out.append({"t": "flipbyte", "at": i})
    return out


def apply_fault(s, f):
    data = _apply_fault(s, f)
    if data is not None and f.get("r") in DEEP_R and f["t"] in ("replace", "whole"):
        n = 0
        for k, v in DEEP_BYTES.items():
            n += data.count(k)
            data = data.replace(k, v)
        if n != 1:
            return None  # the site is inside a compressed object stream
    return data


def is_deep(f):
    return f.get("r") in DEEP_R and f["t"] in ("replace", "whole")


def _apply_fault(s, f):
    objs = s["objs"]
    if f["t"] == "replace":
        path = tuple(tuple(p) for p in f["path"])
        new = REPL[f["r"]]
        if new == "SELF":
            new = W.R(f["obj"])
        elif new == "REFERRER":
            m = referrer(s, f["obj"])
            if m is None:
                return None
            new = W.R(m)
        extra = {}
        if isinstance(new, str) and new in CHAIN_OBJS:
            extra = CHAIN_OBJS[new]
            new = W.R(9000)
        old = _get(objs[f["obj"]], path)
        if W.same(W.expected(old) if not W.is_stream(old) else ("x",), W.expected(new)):
            return None
        o2 = dict(objs)
        o2.update(extra)
        o2[f["obj"]] = _set(objs[f["obj"]], path, copy.deepcopy(new))
        return SD.write(s, o2)
    if f["t"] == "whole":
        new = REPL[f["r"]]
        if new == "SELF":
            new = W.R(f["obj"])
        elif new == "REFERRER":
            m = referrer(s, f["obj"])
            if m is None:
                return None
            new = W.R(m)
        o2 = dict(objs)
        if isinstance(new, str) and new in CHAIN_OBJS:
            o2.update(CHAIN_OBJS[new])
            new = W.R(9000)
        o2[f["obj"]] = copy.deepcopy(new)
        return SD.write(s, o2)
    if f["t"] == "remove":
        path = tuple(tuple(p) for p in f["path"])
        o2 = dict(objs)
        o2[f["obj"]] = _set(objs[f["obj"]], path, None, remove=True)
        return SD.write(s, o2)
    if f["t"] == "payload":
        st = objs[f["obj"]]
        data = st[2]
        n = len(data)
        if f["how"] == "truncate":
            new = data[: n * f["i"] // 8]
        elif f["how"] == "flip":
            if n == 0:
                return None
            pos = min(n - 1, n * f["i"] // 8)
            new = data[:pos] + bytes([data[pos] ^ (1 << f["i"])]) + data[pos + 1:]
        elif f["how"] == "garbage":
            new = (b"\x9c\x00\xffgarbage!(" * (n // 12 + 1))[:n]
        else:
            new = b""
        if new == data:
            return None
        o2 = dict(objs)
        d = dict(st[1])
        # keep a declared direct Length consistent with the new payload (the fault is the payload, not the length)
        if isinstance(d.get(b"Length"), int):
            d[b"Length"] = len(new)
        o2[f["obj"]] = ("S", d, new)
        return SD.write(s, o2)
    if f["t"] == "xrefentry":
        data = bytearray(SD.write(s))
        x = data.rindex(b"xref\n0 ")
        first = data.index(b"\n", x + 5) + 1
        e = first + 20 * f["obj"]
        if f["field"] == "gen":
            data[e + 11:e + 16] = f["val"].encode()
        else:
            data[e:e + 10] = f["val"].encode()
        return bytes(data)
    if f["t"] == "objstm":
        dmg = {"group": f["group"]}
        if "cut" in f:
            dmg["cut"] = f["cut"]
        else:
            dmg["dict"] = {f["key"].encode(): f["val"]}
        return SD.write(dict(s, objstm_damage=dmg))
    if f["t"] == "trailer":
        new = TRAILER_REPL[f["r"]]
        if new == "SELF":
            new = W.R(1)
        elif new == "REFERRER":
            new = W.R(2)
        o2 = None
        if isinstance(new, str) and new in CHAIN_OBJS:
            o2 = dict(objs)
            o2.update(CHAIN_OBJS[new])
            new = W.R(9000)
        return SD.write(s, o2, {f["key"].encode(): copy.deepcopy(new)})
    if f["t"] == "inlinekey":
        st = objs[f["obj"]]
        i = st[2].index(b" ID ")
        new = st[2][:i] + b" " + INLINE_INSERTS[f["k"]] + st[2][i:]
        o2 = dict(objs)
        d = dict(st[1])
        if isinstance(d.get(b"Length"), int):
            d[b"Length"] = len(new)
        o2[f["obj"]] = ("S", d, new)
        return SD.write(s, o2)
    if f["t"] == "operand":
        st = objs[f["obj"]]
        m = list(NUM_TOKEN.finditer(st[2]))[f["k"]]
        new = st[2][:m.start()] + OPERAND_REPL[f["r"]] + st[2][m.end():]
        o2 = dict(objs)
        d = dict(st[1])
        if isinstance(d.get(b"Length"), int):
            d[b"Length"] = len(new)
        o2[f["obj"]] = ("S", d, new)
        return SD.write(s, o2)
    if f["t"] == "byteset":
        st = objs[f["obj"]]
        if st[2][f["pos"]] == f["val"]:
            return None
        new = st[2][:f["pos"]] + bytes([f["val"]]) + st[2][f["pos"] + 1:]
        o2 = dict(objs)
        o2[f["obj"]] = ("S", dict(st[1]), new)
        return SD.write(s, o2)
    if f["t"] == "cmaprange":
        import re

        st = objs[f["obj"]]
        begin, line, end = CMAP_RANGE_FAULTS[f["k"]]
        new = re.sub(rb"1 beginbfrange\s+[^\n]*\n\s*endbfrange", b"1 " + begin + b"\n" + line + b"\n" + end, st[2], count=1)
        if new == st[2]:
            return None
        o2 = dict(objs)
        d = dict(st[1])
        if isinstance(d.get(b"Length"), int):
            d[b"Length"] = len(new)
        o2[f["obj"]] = ("S", d, new)
        return SD.write(s, o2)
    if f["t"] == "lzwcode":
        from vlib import filters as FL

        st = objs[f["obj"]]
        plain = FL._ref_lzw_decode(st[2])
        codes = FL.lzw_codes(plain)
        if f["pos"] >= len(codes) or codes[f["pos"]] == f["val"]:
            return None
        codes[f["pos"]] = f["val"]
        new = FL.lzw_pack(codes)
        o2 = dict(objs)
        d = dict(st[1])
        if isinstance(d.get(b"Length"), int):
            d[b"Length"] = len(new)
        o2[f["obj"]] = ("S", d, new)
        return SD.write(s, o2)
    if f["t"] == "truncate":
        return SD.write(s)[: f["at"]]
    if f["t"] == "updates":
        return append_updates(SD.write(s), f["n"], f["mode"])
    if f["t"] == "digits":
        return many_digits(SD.write(s), f)
    raise ValueError(f)


# ------------------------------------------------------------------ running the entry points
FETCHED = set()
_PATCHED = False


def _patch_getobj():
    global _PATCHED
    if _PATCHED:
        return
    from pdfminer.pdfdocument import PDFDocument

    orig = PDFDocument.getobj

    def getobj(self, objid):
        FETCHED.add(objid)
        return orig(self, objid)

    PDFDocument.getobj = getobj
    _PATCHED = True


def _entries(data, images=False):
    from pdfminer.high_level import extract_pages, extract_text, extract_text_to_fp

    def e_text():
        return extract_text(io.BytesIO(data))

    def e_pages():
        return sum(1 for _ in extract_pages(io.BytesIO(data)))

    def e_xml():
        # a binary sink with the default codec, as pdf2txt.py uses it: the encoding step is part of the entry point
        fp = io.BytesIO()
        extract_text_to_fp(io.BytesIO(data), fp, output_type="xml")
        return len(fp.getvalue())

    def e_images():
        # image export is an option of the same entry point; only documents that mention an image are worth the I/O
        import shutil
        import tempfile

        base = "/dev/shm" if os.path.isdir("/dev/shm") and os.access("/dev/shm", os.W_OK) else None
        d = tempfile.mkdtemp(prefix="c13img-", dir=base)
        try:
            fp = io.StringIO()
            extract_text_to_fp(io.BytesIO(data), fp, output_type="text", codec=None, output_dir=d)
            return len(os.listdir(d))
        finally:
            shutil.rmtree(d, ignore_errors=True)

    out = [("extract_text", e_text), ("extract_pages", e_pages), ("extract_text_to_fp(xml)", e_xml)]
    if images:
        out.append(("extract_text_to_fp(output_dir)", e_images))
    return out


def has_images(data):
    return b"Image" in data or b" BI" in data or b"\nBI" in data


def run_entries(data, limits=None, images=False):
    out = []
    for i, (name, fn) in enumerate(_entries(data, images)):
        r, exc, n = METER.run(fn, None if limits is None else limits[i])
        out.append((name, exc, n))
    return out


_BASE = {}


def base_work(key, data):
    """Events of every entry point on the undamaged document; image export is exercised for documents with images (the
    decision is taken on the undamaged document, so that limits and results line up)."""
    if key not in _BASE:
        img = has_images(data)
        run_entries(data, None, img)  # warm-up (imports, CMap caches)
        _BASE[key] = [n for _, _, n in run_entries(data, None, img)]
    return _BASE[key]


def bucket(exc):
    tb = traceback.extract_tb(exc.__traceback__)
    inner = None
    for fr in tb:
        fn = fr.filename.replace("\\", "/")
        if "/pdfminer/" in fn:
            inner = (os.path.basename(fn), fr.name)
    if inner is None:
        inner = ("?", "?")
    return "%s@%s:%s" % (type(exc).__name__, inner[0], inner[1])


def run_case(case):
    from pdfminer.psexceptions import PSException

    _patch_getobj()
    if case["seed"] == "raw":  # whole file bytes from the coverage-guided campaign
        data = case["data"]
        base = [20_000, 20_000, 20_000] + ([20_000] if has_images(data) else [])
    elif case["seed"].startswith("samples/"):
        orig = open(os.path.join(REPO, case["seed"]), "rb").read()
        f = case["fault"]
        if f["t"] == "truncate":
            data = orig[: f["at"]]
        else:
            data = orig[: f["at"]] + bytes([orig[f["at"]] ^ 0x55]) + orig[f["at"] + 1:]
        base = base_work(case["seed"], orig)
    else:
        s = seed(case["seed"])
        data = apply_fault(s, case["fault"])
        base = base_work(case["seed"], SD.write(s))
        if data is None:
            return Outcome(["noop"], False)
    limits = [50 * b + 2_000_000 for b in base]
    FETCHED.clear()
    outs = run_entries(data, limits, len(base) > 3)
    fetched = set(FETCHED)
    classes = ["fault:" + case["fault"]["t"], "seed:" + case["seed"].split("/")[-1]]
    viol = []
    for name, exc, n in outs:
        if exc is None:
            classes.append("returns")
        elif isinstance(exc, PSException):
            classes.append("raises-PSException")
        elif isinstance(exc, AssertionError):
            classes.append("raises-AssertionError(tolerated)")
        elif isinstance(exc, ImportError) and "Pillow" in str(exc):
            # the documented message for the optional image dependency, which this sandbox does not have: a property of
            # the environment, not an internal error
            classes.append("raises-ImportError(Pillow not installed)")
        elif isinstance(exc, WorkBudgetExceeded):
            viol.append(("WorkBudgetExceeded@%s" % name, "%s: work exceeded %d events (undamaged seed: %d)" % (name, limits[0], base[0])))
        elif isinstance(exc, RecursionError) and is_deep(case["fault"]):
            # one known family (KNOWN_FINDINGS.txt): recursive consumers of parsed values - resolve_all, repr() / str() in
            # messages - on a value nested deeper than the interpreter's recursion limit
            viol.append(("RecursionError@value-nested-%d-deep" % DEEP, "%s raised RecursionError (%s)" % (name, bucket(exc))))
        else:
            viol.append((bucket(exc), "%s raised %s: %s" % (name, type(exc).__name__, str(exc)[:200])))
    f = case["fault"]
    if f["t"] in ("truncate", "flipbyte", "raw", "trailer", "objstm", "xrefentry", "updates", "digits"):
        nt = bool(fetched) or f["t"] in ("trailer", "objstm", "xrefentry")
    else:
        nt = f["obj"] in fetched
    fp = None
    if viol:
        unknown = [v for v in viol if v[0] not in runner.ACTIVE_KNOWN]
        if not unknown:
            return Outcome(classes + ["known:" + viol[0][0]], known=viol[0][0])
        what = describe(case)
        return Outcome(classes, nt, fail="[%s] %s; fault: %s" % (unknown[0][0], unknown[0][1], what))
    return Outcome(sorted(set(classes)), nt, fp=fp, sample={"seed": case["seed"], "fault": describe(case)})


def describe(case):
    f = case["fault"]
    if f["t"] == "replace":
        return "seed %s object %d path %s <- %s" % (case["seed"], f["obj"], _fmt_path(f["path"]), REPL_NAMES[f["r"]])
    if f["t"] == "whole":
        return "seed %s object %d whole value <- %s" % (case["seed"], f["obj"], REPL_NAMES[f["r"]])
    if f["t"] == "remove":
        return "seed %s object %d key %s removed" % (case["seed"], f["obj"], _fmt_path(f["path"]))
    if f["t"] == "payload":
        return "seed %s stream %d payload %s %s" % (case["seed"], f["obj"], f["how"], f.get("i", ""))
    if f["t"] == "xrefentry":
        return "seed %s xref table entry of object %d: %s <- %s" % (case["seed"], f["obj"], f["field"], f["val"])
    if f["t"] == "objstm":
        return "seed %s object stream #%d %s" % (case["seed"], f["group"], ("payload cut to %d bytes" % f["cut"]) if "cut" in f else "/%s <- %d" % (f["key"], f["val"]))
    if f["t"] == "trailer":
        return "seed %s trailer /%s <- %s" % (case["seed"], f["key"], TRAILER_REPL_NAMES[f["r"]])
    if f["t"] == "inlinekey":
        return "seed %s content stream %d inline image dictionary gets %s" % (case["seed"], f["obj"], INLINE_INSERTS[f["k"]].decode())
    if f["t"] == "operand":
        return "seed %s content stream %d numeric operand #%d <- %r" % (case["seed"], f["obj"], f["k"], OPERAND_REPL[f["r"]][:20])
    if f["t"] == "byteset":
        return "seed %s font program %d byte %d <- 0x%02x" % (case["seed"], f["obj"], f["pos"], f["val"])
    if f["t"] == "cmaprange":
        return "seed %s CMap stream %d range <- %s" % (case["seed"], f["obj"], CMAP_RANGE_FAULTS[f["k"]][1].decode())
    if f["t"] == "lzwcode":
        return "seed %s LZW stream %d code #%d <- %d" % (case["seed"], f["obj"], f["pos"], f["val"])
    if f["t"] == "digits":
        return "seed %s: %s%s written with 4400 digits%s" % (case["seed"], f["where"], " of object %d" % f["obj"] if "obj" in f else "",
                                                          ", no cross-reference" if f.get("noxref") else "")
    if f["t"] == "updates":
        return "seed %s followed by %d incremental update sections (%s)" % (case["seed"], f["n"], f["mode"])
    if f["t"] == "raw":
        return "fuzzed file of %d bytes: %r..." % (len(case["data"]), case["data"][:60])
    return "seed %s %s at byte %d" % (case["seed"], f["t"], f["at"])


def _fmt_path(path):
    out = ""
    for p in path:
        if p[0] == "k":
            out += "/" + (p[1].decode("latin-1") if isinstance(p[1], bytes) else str(p[1]))
        elif p[0] == "i":
            out += "[%d]" % p[1]
    return out


# ------------------------------------------------------------------ plan
def all_cases():
    cases = []
    for f in SD.ALL:
        s = f()
        for flt in fault_space(s):
            cases.append({"seed": s["name"], "fault": flt})
    for name in SAMPLE_FILES:
        for flt in sample_space(name):
            cases.append({"seed": name, "fault": flt})
    return cases


def exhaustive(tier):
    return tier == "thorough"


def plan(tier):
    total = len(all_cases())
    if tier == "quick":
        return [{"kind": "sample", "part": i, "parts": 16, "n": 650, "total": total} for i in range(16)]
    chunk = 2000
    return [{"kind": "range", "lo": lo, "hi": min(total, lo + chunk)} for lo in range(0, total, chunk)] + \
           [{"kind": "atheris", "runs": 12000} for _ in range(4)]


def run_atheris(spec, ctx):
    """Thorough tier: libFuzzer over whole files, corpus = the seed documents and the small repository samples."""
    import glob
    import re
    import shutil
    import subprocess
    import sys
    import tempfile

    res = ShardResult()
    here = os.path.dirname(os.path.abspath(__file__))
    tmp = tempfile.mkdtemp(prefix="c13fuzz")
    try:
        art, corp = os.path.join(tmp, "art"), os.path.join(tmp, "corpus")
        os.mkdir(art)
        os.mkdir(corp)
        for f in SD.ALL:
            s = f()
            with open(os.path.join(corp, s["name"] + ".pdf"), "wb") as fh:
                fh.write(SD.write(s))
        for name in SAMPLE_FILES[:3]:
            shutil.copy(os.path.join(REPO, name), corp)
        env = dict(os.environ)
        env["PYTHONHASHSEED"] = "0"
        env["VERIF_KNOWN"] = ",".join(sorted(runner.ACTIVE_KNOWN))
        seed = (ctx.hseed("atheris") % (2 ** 31 - 1)) + 1
        r = subprocess.run([sys.executable, os.path.join(here, "c13_fuzz.py"), art, "-runs=%d" % spec["runs"],
                            "-seed=%d" % seed, "-max_len=8000", "-rss_limit_mb=4096", corp], capture_output=True, env=env)
        out = (r.stderr + r.stdout).decode("latin-1")
        m = re.search(r"Done (\d+) runs", out)
        crashes = glob.glob(os.path.join(art, "crash-*"))
        if crashes:
            data = open(crashes[0], "rb").read()
            case = {"seed": "raw", "data": data, "fault": {"t": "raw"}}
            o = run_case(case)
            res.evaluations += 1
            if o.fail:
                res.failures.append((case, "atheris campaign: " + o.fail))
            else:
                res.harness_errors.append("atheris crash does not reproduce through run_case (%d bytes)\n%s" % (len(data), out[-1500:]))
        elif r.returncode != 0 or not m:
            if "No module named 'atheris'" in out:
                res.notes.append("atheris not installed: campaign skipped")
            else:
                res.harness_errors.append("atheris campaign failed (rc=%d): %s" % (r.returncode, out[-1500:]))
        if m:
            res.evaluations += int(m.group(1))
            res.extra["atheris_runs"] = int(m.group(1))
            res.classes["atheris-campaign"] += 1
            cov = re.findall(r"cov: (\d+)", out)
            res.notes.append("atheris seed=%d runs=%s final cov=%s" % (seed, m.group(1), cov[-1] if cov else "?"))
    finally:
        shutil.rmtree(tmp, ignore_errors=True)
    return res


def run_shard(spec, ctx):
    if spec["kind"] == "atheris":
        return run_atheris(spec, ctx)
    cases = all_cases()
    if spec["kind"] == "sample":
        # quick tier: the reference-cycle classes and all payload corruptions are always enumerated completely (they are
        # where unbounded work / recursion hides and each is small); the type-replacement, key-removal and truncation
        # faults are sampled with a seeded PRNG
        import re as _re

        simple = SD.write(seed("simple"))
        # cuts inside a #xx name escape (after the # and between the two digits)
        esc_cuts = {m.start() + k for m in _re.finditer(rb"#[0-9A-Fa-f]{2}", simple) for k in (1, 2)}

        def always(c):
            f = c["fault"]
            if f["t"] == "truncate" and c["seed"] == "simple" and f["at"] in esc_cuts:
                return True
            if f["t"] == "updates" and (f["n"] <= 1200 or c["seed"] == "simple"):
                return True
            if f["t"] == "digits" and (c["seed"] in ("simple", "crypt-aes") or f["where"] == "startxref"):
                return True
            if f["t"] == "operand" and c["seed"] == "simple":
                return True
            if f["t"] == "byteset" and c["seed"] == "cid":
                return True  # the TrueType program: small, and every table of it is offsets / counts / keys
            return f["t"] in ("payload", "lzwcode", "whole", "cmaprange", "trailer", "inlinekey", "objstm") or (
                f["t"] == "xrefentry" and str(c["seed"]).startswith("crypt")) or (
                f["t"] == "replace" and REPL[f["r"]] in ("SELF", "REFERRER", "CHAIN1", "CHAIN2", "FANOUT") or
                                                          (f["t"] == "replace" and f["r"] == 14))
        fixed = [i for i, c in enumerate(cases) if always(c)]
        rest = [i for i, c in enumerate(cases) if not always(c)]
        rnd = random.Random(ctx.seed * 1000003 + 17)
        idx = fixed + rnd.sample(rest, min(len(rest), max(0, spec["n"] * spec["parts"] - len(fixed))))
        mine = sorted(idx)[spec["part"]::spec["parts"]]
        sel = [cases[i] for i in mine]
    else:
        sel = cases[spec["lo"]:spec["hi"]]
    res = enum_search(ctx, sel, run_case, stop_after=3)
    res.extra["fault_space"] = len(cases) if spec.get("part", 0) == 0 and spec.get("lo", 0) == 0 else 0
    return res
