"""C04 — page tree: order, inheritance, rotation/box normalisation, page selection, cycles."""
import random
import io
import re
from fractions import Fraction as Fr

from hypothesis import strategies as st

from vlib import interp
from vlib import pdfwrite as W
from vlib.runner import Outcome, hyp_search
from vlib.workmeter import METER, WorkBudgetExceeded

ID = "C04"
LEVEL = "exploration"
RULE = ("Hypothesis draws rooted Pages/Page trees (depth 1-6, fan-out 0-5, <= 40 leaves), each inheritable attribute "
        "(Resources, MediaBox, CropBox, Rotate) independently absent / null-valued (= absent) / direct / indirect at every node (boxes also "
        "with indirect elements), MediaBox with non-zero dyadic origin, Rotate = 90k for k in [-9,9], cyclic variants "
        "(Kids containing an ancestor, the node itself, the same child twice), one glyph per leaf at a drawn point, and "
        "a selection (page_numbers as set/list/tuple/empty/None over [0,n+3), maxpages in [0,n+2]).  Oracle: independent "
        "recursive walker (first visit, depth-first, nearest ancestor wins) for pageid/resources/mediabox/cropbox/rotate; "
        "LTPage.bbox == (0,0,W',H') with W',H' swapped for 90/270; glyph origin == closed-form image of its point under "
        "Rotate (exact); the font actually used is the one of the effective Resources; selected indices == [i<n | "
        "(no page_numbers or i in page_numbers) and (maxpages==0 or i<maxpages)] through PDFPage.get_pages, "
        "extract_pages and extract_text.  Non-trivial = attribute inherited from a non-parent ancestor, or rotate != 0 "
        "with MediaBox origin != (0,0), or page_numbers and maxpages both set, or a cycle/repeat; distinct by case.")
ASSUMPTIONS = ["harness document writer; MediaBox present on every root-to-leaf path; exact dyadic coordinates"]

INH = ["Resources", "MediaBox", "CropBox", "Rotate"]


def font(name):
    return W.D(Type=W.N("Font"), Subtype=W.N("Type1"), BaseFont=W.N(name), FirstChar=32, LastChar=126,
               Widths=[500] * 95, Encoding=W.N("WinAnsiEncoding"),
               FontDescriptor=W.D(Type=W.N("FontDescriptor"), FontName=W.N(name), Flags=32,
                                  FontBBox=[0, 0, 1000, 1000], Ascent=800, Descent=0))


def nv(v):
    v = Fr(v)
    return v.numerator if v.denominator == 1 else W.Real(str(float(v)))


class Builder:
    """Turns the abstract tree into objects and computes the expected page list with an independent walker."""

    def __init__(self, case):
        self.case = case
        self.objs = {1: W.D(Type=W.N("Catalog"), Pages=W.R(2))}
        self.next = 2
        self.nodes = {}  # node id (path tuple) -> object number
        self.fonts = {}
        self.assign(case["tree"], ())
        self.emit(case["tree"], (), None)

    def alloc(self):
        n = self.next
        self.next += 1
        return n

    def assign(self, node, path):
        self.nodes[path] = self.alloc()
        for i, k in enumerate(node.get("kids", [])):
            if isinstance(k, dict):
                self.assign(k, path + (i,))

    def attr_value(self, name, spec, path):
        """spec = {"v": abstract value, "ind": 0 direct / 1 indirect / 2 indirect elements}"""
        v = spec["v"]
        if name == "Resources":
            fname = "Fnt" + "".join(str(i) for i in path) + "R"
            fn = self.alloc()
            self.objs[fn] = font(fname)
            val = {b"Font": {b"F1": W.R(fn)}}
            spec["fontname"] = fname
        elif name == "Rotate":
            val = v
        else:
            if name == "MediaBox" and self.case.get("corners"):
                # any two diagonally opposite corners define the rectangle (ISO 32000-1 7.9.5)
                v = (v[2], v[3], v[0], v[1]) if self.case["corners"] == "swapped" else (v[0], v[3], v[2], v[1])
            val = [nv(x) for x in v]
            if spec["ind"] == 2:
                out = []
                for x in val:
                    n = self.alloc()
                    self.objs[n] = x
                    out.append(W.R(n))
                val = out
        if spec["ind"] == 1:
            n = self.alloc()
            self.objs[n] = val
            return W.R(n)
        return val

    def emit(self, node, path, parent_num):
        num = self.nodes[path]
        d = {b"Type": W.N("Pages" if node["kind"] == "pages" else "Page")}
        if parent_num is not None:
            d[b"Parent"] = W.R(parent_num)
        for name in INH:
            if name in node["attrs"]:
                d[name.encode()] = self.attr_value(name, node["attrs"][name], path)
            elif name in node.get("nulls", ()):
                # a null-valued entry is equivalent to omitting the entry (ISO 32000-1 7.3.9): the value is inherited
                d[name.encode()] = None
        if node["kind"] == "pages":
            kids = []
            for i, k in enumerate(node["kids"]):
                if isinstance(k, dict):
                    kids.append(W.R(self.nodes[path + (i,)]))
                    self.emit(k, path + (i,), num)
                elif k[0] == "up":
                    kids.append(W.R(self.nodes[path[:max(0, len(path) - k[1])]]))
                elif k[0] == "self":
                    kids.append(W.R(num))
                elif k[0] == "dup":
                    tgt = [j for j, kk in enumerate(node["kids"][:i]) if isinstance(kk, dict)]
                    if tgt:
                        kids.append(W.R(self.nodes[path + (tgt[k[1] % len(tgt)],)]))
            if node.get("kids_ind"):
                # the /Kids array itself as an indirect object
                kn = self.alloc()
                self.objs[kn] = kids
                d[b"Kids"] = W.R(kn)
            else:
                d[b"Kids"] = kids
            d[b"Count"] = 0
        else:
            x, y = node["pt"]
            if node.get("blank"):
                # /Contents is optional: a page without it (or with an empty array) is a blank page, but it is a page
                if node["blank"] == "empty-array":
                    d[b"Contents"] = []
            else:
                cn = self.alloc()
                content = b"BT /F1 10 Tf %s %s Td (%s) Tj ET" % (str(float(x)).encode(), str(float(y)).encode(), node["text"].encode())
                self.objs[cn] = W.Stream({}, content)
                d[b"Contents"] = W.R(cn)
        self.objs[num] = d

    # ---- independent walker over the abstract tree
    def walk(self):
        out = []
        visited = set()

        def rec(node, path, inherited):
            if path in visited:
                return
            visited.add(path)
            eff = dict(inherited)
            for name in INH:
                if name in node["attrs"]:
                    eff[name] = (node["attrs"][name], len(path))
            if node["kind"] == "page":
                out.append((path, node, eff))
                return
            for i, k in enumerate(node["kids"]):
                if isinstance(k, dict):
                    rec(k, path + (i,), eff)
                elif k[0] == "up":
                    p2 = path[:max(0, len(path) - k[1])]
                    rec(self.node_at(p2), p2, eff)
                elif k[0] == "self":
                    rec(node, path, eff)
                elif k[0] == "dup":
                    tgt = [j for j, kk in enumerate(node["kids"][:i]) if isinstance(kk, dict)]
                    if tgt:
                        j = tgt[k[1] % len(tgt)]
                        rec(node["kids"][j], path + (j,), eff)

        rec(self.case["tree"], (), {})
        return out

    def node_at(self, path):
        n = self.case["tree"]
        for i in path:
            n = n["kids"][i]
        return n

    def pdf(self):
        return W.build_pdf(self.objs)


def image_point(rot, box, pt):
    x0, y0, x1, y1 = box
    x, y = pt
    if rot == 0:
        return (x - x0, y - y0)
    if rot == 90:
        return (y - y0, x1 - x)
    if rot == 180:
        return (x1 - x, y1 - y)
    return (y1 - y, x - x0)


def selection(n, sel):
    pn, mp = sel.get("page_numbers"), sel.get("maxpages", 0)
    return [i for i in range(n) if (not pn or i in pn) and (mp == 0 or i < mp)]


def _container(sel):
    pn = sel.get("page_numbers")
    if pn is None:
        return None
    kind = sel.get("container", "set")
    return {"set": set, "list": list, "tuple": tuple, "frozenset": frozenset}[kind](pn)


def run_case(case):
    from pdfminer.high_level import extract_pages, extract_text
    from pdfminer.layout import LTChar
    from pdfminer.pdfpage import PDFPage

    b = Builder(case)
    pdf = b.pdf()
    exp = b.walk()
    n = len(exp)
    classes = ["leaves:%s" % ("0" if n == 0 else "1-5" if n <= 5 else "6+")]
    nt = False
    if case.get("spine"):
        classes.append("deep-spine")
    if case.get("corners"):
        classes.append("mediabox-corners:" + case["corners"])
    if case.get("cyclic"):
        classes.append("cyclic")
        nt = True
    sel = case["sel"]
    if sel.get("page_numbers") and sel.get("maxpages"):
        classes.append("sel-both")
        nt = True
    for path, node, eff in exp:
        for name in INH:
            if name in eff and eff[name][1] < len(path) - 1:
                classes.append("inherit-grand")
                nt = True
        rot = (eff["Rotate"][0]["v"] % 360) if "Rotate" in eff else 0
        if rot and tuple(eff["MediaBox"][0]["v"][:2]) != (0, 0):
            classes.append("rot-origin")
            nt = True
    classes = sorted(set(classes))
    desc = lambda: "tree=%r" % (case["tree"],)  # noqa: E731
    # "a tree whose Kids contain cycles or repeated nodes still terminates": event budget, no wall clock
    nnodes = len(b.nodes)
    budget = 5_000_000 + 400_000 * nnodes
    r, e, _n = METER.run(lambda: (list(PDFPage.get_pages(io.BytesIO(pdf))), interp.pages(pdf)), budget)
    if isinstance(e, WorkBudgetExceeded):
        return Outcome(classes, nt, fail="page tree walk did not finish within %d interpreter events (%d nodes); %s" % (
            budget, nnodes, desc()))
    if e is not None:
        if not isinstance(e, Exception):
            raise e
        return Outcome(classes, nt, fail="raised %s: %s; %s" % (type(e).__name__, e, desc()))
    pages, lts = r
    if [p.pageid for p in pages] != [b.nodes[path] for path, _, _ in exp]:
        return Outcome(classes, nt, fail="page order (object ids) %r expected %r; %s" % (
            [p.pageid for p in pages], [b.nodes[path] for path, _, _ in exp], desc()))
    for i, (page, lt, (path, node, eff)) in enumerate(zip(pages, lts, exp)):
        mb = tuple(float(v) for v in eff["MediaBox"][0]["v"])
        cb = tuple(float(v) for v in eff["CropBox"][0]["v"]) if "CropBox" in eff else mb
        rot = (eff["Rotate"][0]["v"] % 360) if "Rotate" in eff else 0
        corners = case.get("corners")
        if corners:
            # written with another pair of opposite corners: the page must still get *this* box (its own or the nearest
            # ancestor's), as the four numbers written or as the same rectangle with the corners put in order
            written = (mb[2], mb[3], mb[0], mb[1]) if corners == "swapped" else (mb[0], mb[3], mb[2], mb[1])
            if tuple(page.mediabox) not in (written, mb):
                return Outcome(classes, nt, fail="page %d mediabox %r expected %r (written %r); %s" % (i, page.mediabox, mb, written, desc()))
            if "CropBox" not in eff:
                cb = tuple(page.mediabox)
        elif tuple(page.mediabox) != mb:
            return Outcome(classes, nt, fail="page %d mediabox %r expected %r; %s" % (i, page.mediabox, mb, desc()))
        if tuple(page.cropbox) != cb:
            return Outcome(classes, nt, fail="page %d cropbox %r expected %r; %s" % (i, page.cropbox, cb, desc()))
        if page.rotate != rot:
            return Outcome(classes, nt, fail="page %d rotate %r expected %r; %s" % (i, page.rotate, rot, desc()))
        fontname = eff["Resources"][0]["fontname"]
        res = W.observe(page.resources)
        if res[0] != "dict" or list(res[1]) != ["Font"]:
            return Outcome(classes, nt, fail="page %d resources %r; %s" % (i, res, desc()))
        w, h = mb[2] - mb[0], mb[3] - mb[1]
        ebox = (0, 0, h, w) if rot in (90, 270) else (0, 0, w, h)
        if corners:
            # (where the page box and the glyphs land for such a MediaBox is not asserted)
            chars = [c for c in interp.leaves(lt) if isinstance(c, LTChar)]
            if "".join(c.get_text() for c in chars) != ("" if node.get("blank") else node["text"]):
                return Outcome(classes, nt, fail="page %d text %r expected %r; %s" % (
                    i, "".join(c.get_text() for c in chars), node["text"], desc()))
            continue
        if tuple(lt.bbox) != ebox:
            return Outcome(classes, nt, fail="page %d LTPage.bbox %r expected %r (rotate %d, mediabox %r); %s" % (
                i, lt.bbox, ebox, rot, mb, desc()))
        chars = [c for c in interp.leaves(lt) if isinstance(c, LTChar)]
        if node.get("blank"):
            if chars:
                return Outcome(classes, nt, fail="page %d has no /Contents but shows %r; %s" % (i, "".join(c.get_text() for c in chars), desc()))
            continue
        if "".join(c.get_text() for c in chars) != node["text"]:
            return Outcome(classes, nt, fail="page %d text %r expected %r; %s" % (
                i, "".join(c.get_text() for c in chars), node["text"], desc()))
        if chars[0].fontname != fontname:
            return Outcome(classes, nt, fail="page %d used font %r, effective Resources define %r; %s" % (
                i, chars[0].fontname, fontname, desc()))
        ex, ey = image_point(rot, eff["MediaBox"][0]["v"], node["pt"])
        if (chars[0].matrix[4], chars[0].matrix[5]) != (float(ex), float(ey)):
            return Outcome(classes, nt, fail="page %d glyph origin %r expected %r (rotate %d, mediabox %r, point %r); %s" % (
                i, chars[0].matrix[4:], (float(ex), float(ey)), rot, mb, node["pt"], desc()))
    # ---- a second walk over the same document (count the pages, then read them) gives the same pages in the same order
    if pages and not case.get("cyclic"):
        try:
            again = [p.pageid for p in PDFPage.create_pages(pages[0].doc)]
        except Exception as e:
            return Outcome(classes, nt, fail="second create_pages() on the same document raised %s: %s; %s" % (type(e).__name__, e, desc()))
        if again != [p.pageid for p in pages]:
            return Outcome(classes, nt, fail="second create_pages() on the same document: page order %r, first walk %r; %s" % (
                again, [p.pageid for p in pages], desc()))
    # ---- walking the page tree does not change the objects: what getobj returns for a node afterwards (the document of
    # the PDFPage objects has object caching on) holds the entries written for that node, not the inherited ones
    if pages:
        doc = pages[0].doc
        for num, d in b.objs.items():
            if isinstance(d, dict) and d.get(b"Type") in (W.N("Page"), W.N("Pages")):
                want = sorted(k.decode() for k, v in d.items() if v is not None)
                try:
                    got = sorted(doc.getobj(num).keys())
                except Exception as e:
                    return Outcome(classes, nt, fail="getobj(%d) after the page walk raised %s: %s; %s" % (num, type(e).__name__, e, desc()))
                if got != want:
                    return Outcome(classes, nt, fail="after the page walk getobj(%d) has the entries %r, the file defines %r; %s" % (
                        num, got, want, desc()))
    # ---- the `rotation` option of extract_text_to_fp is added to /Rotate and reduced modulo 360 in the same way
    rot_opt = case.get("rotation", 0)
    if rot_opt and n and not case.get("corners"):
        from pdfminer.high_level import extract_text_to_fp

        try:
            fp = io.StringIO()
            extract_text_to_fp(io.BytesIO(pdf), fp, output_type="xml", codec=None, rotation=rot_opt, laparams=None)
        except Exception as e:
            return Outcome(classes, nt, fail="extract_text_to_fp(rotation=%d) raised %s: %s; %s" % (rot_opt, type(e).__name__, e, desc()))
        got_boxes = re.findall(r'<page id="[^"]*" bbox="([^"]*)" rotate="(-?\d+)"', fp.getvalue())
        exp_boxes = []
        for path, node, eff in exp:
            mb = [float(v) for v in eff["MediaBox"][0]["v"]]
            rot = ((eff["Rotate"][0]["v"] if "Rotate" in eff else 0) + rot_opt) % 360
            w, h = mb[2] - mb[0], mb[3] - mb[1]
            ww, hh = (h, w) if rot in (90, 270) else (w, h)
            exp_boxes.append("%.3f,%.3f,%.3f,%.3f" % (0, 0, ww, hh))
        if [g[0] for g in got_boxes] != exp_boxes:
            return Outcome(classes, nt, fail="extract_text_to_fp(rotation=%d): page boxes %r expected %r; %s" % (
                rot_opt, [g[0] for g in got_boxes], exp_boxes, desc()))
        classes.append("rotation-option")
    # ---- selection
    want = selection(n, sel)
    pn = _container(sel)
    mp = sel.get("maxpages", 0)
    try:
        got1 = [p.pageid for p in PDFPage.get_pages(io.BytesIO(pdf), pagenos=pn, maxpages=mp)]
        got2 = ["".join(sorted(c.get_text() for c in interp.leaves(lt) if isinstance(c, LTChar)))
                for lt in extract_pages(io.BytesIO(pdf), page_numbers=pn, maxpages=mp, laparams=None)]
        got3 = extract_text(io.BytesIO(pdf), page_numbers=pn, maxpages=mp)
    except Exception as e:
        return Outcome(classes, nt, fail="selection raised %s: %s; sel=%r %s" % (type(e).__name__, e, sel, desc()))
    ids = [b.nodes[exp[i][0]] for i in want]
    # layout analysis reorders the glyphs of rotated pages: page texts are compared as sorted characters
    texts = ["" if exp[i][1].get("blank") else "".join(sorted(exp[i][1]["text"])) for i in want]
    if got1 != ids:
        return Outcome(classes, nt, fail="get_pages(pagenos=%r, maxpages=%r) gave pages %r expected indices %r = %r; n=%d" % (
            pn, mp, got1, want, ids, n))
    if got2 != texts:
        return Outcome(classes, nt, fail="extract_pages(page_numbers=%r, maxpages=%r) gave %r expected %r" % (pn, mp, got2, texts))
    # rotated pages put the three glyphs on separate lines: compare page texts with white space removed
    g3 = ["".join(sorted("".join(t.split()))) for t in got3.split("\f")]
    if g3 and g3[-1] == "":
        g3.pop()
    if g3 != texts:
        return Outcome(classes, nt, fail="extract_text(page_numbers=%r, maxpages=%r) gave %r expected %r" % (pn, mp, g3, texts))
    return Outcome(classes, nt, sample={"leaves": n, "sel": sel, "cyclic": bool(case.get("cyclic"))})


# ---------------------------------------------------------------------------------------------- generators
COORD = st.integers(-200, 400).map(lambda k: Fr(k, 2))


@st.composite
def box(draw):
    x0, y0 = draw(COORD), draw(COORD)
    w = draw(st.integers(40, 800).map(lambda k: Fr(k, 2)))
    h = draw(st.integers(40, 800).map(lambda k: Fr(k, 2)))
    if draw(st.integers(0, 4)) == 0:
        x0, y0 = Fr(0), Fr(0)
    return (x0, y0, x0 + w, y0 + h)


@st.composite
def attrs(draw, p=3):
    a = {}
    for name in INH:
        if draw(st.integers(0, p)) != 0:
            continue
        ind = draw(st.integers(0, 2 if name in ("MediaBox", "CropBox") else 1))
        if name == "Resources":
            v = None
        elif name == "Rotate":
            v = 90 * draw(st.integers(-9, 9))
        else:
            v = draw(box())
        a[name] = {"v": v, "ind": ind}
    return a


def nulls(draw, a):
    return [name for name in INH if name not in a and draw(st.integers(0, 5)) == 0]


@st.composite
def tree(draw, depth, budget, cyc):
    if depth >= draw(st.integers(1, 6)) or budget[0] <= 0:
        budget[0] -= 1
        a = draw(attrs())
        return {"kind": "page", "attrs": a, "nulls": nulls(draw, a), "pt": (Fr(1), Fr(1)), "text": "P",
                "blank": draw(st.sampled_from([None] * 8 + ["absent", "empty-array"]))}
    a = draw(attrs())
    node = {"kind": "pages", "attrs": a, "nulls": nulls(draw, a), "kids": [], "kids_ind": draw(st.integers(0, 3)) == 0}
    for _ in range(draw(st.integers(0, 5))):
        if budget[0] <= 0:
            break
        if cyc and draw(st.integers(0, 7)) == 0:
            k = draw(st.sampled_from(["up", "self", "dup"]))
            node["kids"].append((k, draw(st.integers(1, 3))))
        else:
            node["kids"].append(draw(tree(depth + 1, budget, cyc)))
    return node


def _fixup(node, inherited, counter, draw):
    eff = set(inherited) | set(node["attrs"])
    if node["kind"] == "page":
        if "MediaBox" not in eff:
            node["attrs"]["MediaBox"] = {"v": draw(box()), "ind": 0}
        if "Resources" not in eff:
            node["attrs"]["Resources"] = {"v": None, "ind": 0}
        node["text"] = "P%02d" % counter[0]
        counter[0] += 1
        return
    for k in node["kids"]:
        if isinstance(k, dict):
            _fixup(k, eff, counter, draw)


@st.composite
def cases(draw):
    cyc = draw(st.integers(0, 3)) == 0
    root = draw(tree(0, [40], cyc))
    if root["kind"] == "page":
        root = {"kind": "pages", "attrs": draw(attrs()), "kids": [root]}
    if draw(st.integers(0, 7)) == 0:
        # a spine: the whole tree hangs 65 - 200 single-child levels below a root that also has a page of its own
        # (the page tree may be as deep as the producer likes; attributes are inherited through every level)
        rnd = random.Random(draw(st.integers(0, 2 ** 32)))
        for lvl in range(draw(st.sampled_from([65, 70, 100, 200]))):
            a = {}
            if rnd.random() < 0.05:
                a["Rotate"] = {"v": 90 * rnd.randrange(-3, 4), "ind": 0}
            root = {"kind": "pages", "attrs": a, "nulls": [], "kids": [root], "kids_ind": False}
        shallow = {"kind": "page", "attrs": {}, "nulls": [], "pt": (Fr(1), Fr(1)), "text": "P"}
        root = {"kind": "pages", "attrs": draw(attrs()), "nulls": [], "kids": [shallow, root] if rnd.random() < 0.5 else [root, shallow],
                "kids_ind": False}
        case_spine = True
    else:
        case_spine = False
    if draw(st.integers(0, 2)) > 0 and "MediaBox" not in root["attrs"]:
        root["attrs"]["MediaBox"] = {"v": draw(box()), "ind": draw(st.integers(0, 2))}
    _fixup(root, set(), [0], draw)
    case = {"tree": root, "cyclic": cyc, "spine": case_spine,
            "corners": draw(st.sampled_from([None] * 6 + ["swapped", "other-diagonal"]))}
    # glyph points must lie inside the effective MediaBox: computed with the walker
    b = Builder({"tree": root})
    leaves = b.walk()
    for path, node, eff in leaves:
        x0, y0, x1, y1 = eff["MediaBox"][0]["v"]
        node["pt"] = (x0 + draw(st.integers(1, 15)), y0 + draw(st.integers(1, 15)))
    # unvisited leaves (only reachable through nothing) still need a point for the writer
    def fill(n):
        if n["kind"] == "page":
            if n["pt"] is None:
                n["pt"] = (Fr(1), Fr(1))
        else:
            for k in n["kids"]:
                if isinstance(k, dict):
                    fill(k)
    fill(root)
    n = len(leaves)
    sel = {}
    k = draw(st.integers(0, 3))
    if k >= 1:
        pn = draw(st.lists(st.integers(0, n + 2), max_size=n + 3))
        sel["page_numbers"] = sorted(set(pn)) if draw(st.booleans()) else pn
        sel["container"] = draw(st.sampled_from(["set", "list", "tuple", "frozenset"]))
    if k in (0, 2, 3):
        sel["maxpages"] = draw(st.integers(0, n + 2))
    case["sel"] = sel
    case["rotation"] = draw(st.sampled_from([0, 0, 90, 180, 270, 270]))
    return case


def plan(tier):
    q = tier == "quick"
    return [{"n": 100 if q else 2500} for _ in range(16)]


def run_shard(spec, ctx):
    return hyp_search(ctx, cases(), run_case, spec["n"])
