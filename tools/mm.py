#!/venv/bin/python
"""tools/mm.py ID name file OLD NEW  -> writes mutants/ID/name.json after checking OLD occurs once in /repo/file"""
import json, os, sys
pid, name, f, old, new = sys.argv[1:6]
s = open(os.path.join("/repo", f)).read()
c = s.count(old)
if c != 1:
    sys.exit("OLD occurs %d times" % c)
d = os.path.join(os.path.dirname(os.path.dirname(os.path.abspath(__file__))), "mutants", pid)
os.makedirs(d, exist_ok=True)
json.dump({"file": f, "old": old, "new": new}, open(os.path.join(d, name + ".json"), "w"), indent=1)
print("ok", name)
