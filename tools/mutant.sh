#!/bin/bash
# usage: tools/mutant.sh <ID> <mutant file (.json {file,old,new[,count]} or unified diff)> [tier]
# Applies the change to a scratch worktree of /repo (outside /repo and /verif), runs the check against it
# (VERIF_REPO), prints the verdict and removes the worktree.  Exit 0 iff the check reported a violation.
ID=$1; PATCH=$(readlink -f "$2"); TIER=${3:-quick}
S=$(mktemp -d /tmp/mut.XXXXXX)
git -C /repo worktree add -q --detach "$S/r" HEAD >/dev/null 2>&1 || { echo "worktree failed"; exit 3; }
cleanup() { git -C /repo worktree remove --force "$S/r" >/dev/null 2>&1; rm -rf "$S"; }
case "$PATCH" in
 *.json) /venv/bin/python - "$PATCH" "$S/r" <<'PY' || { echo "MUTANT-DOES-NOT-APPLY $PATCH"; cleanup; exit 3; }
import json, sys, os
m = json.load(open(sys.argv[1])); root = sys.argv[2]
for e in (m if isinstance(m, list) else [m]):
    p = os.path.join(root, e["file"]); s = open(p).read()
    if s.count(e["old"]) != e.get("count", 1): sys.exit("old text occurs %d times in %s" % (s.count(e["old"]), e["file"]))
    open(p, "w").write(s.replace(e["old"], e["new"]))
PY
 ;;
 *) (cd "$S/r" && git apply "$PATCH") || { echo "MUTANT-DOES-NOT-APPLY $PATCH"; cleanup; exit 3; } ;;
esac
cd /verif
OUT=$(VERIF_REPO="$S/r" VERIF_EVIDENCE_DIR="$S/ev" ./check "$ID" "$TIER" 2>&1); RC=$?
echo "$OUT" | grep -E "VIOLATION|HARNESS|failure:" | cut -c1-300 | head -3
cleanup
if [ $RC -eq 1 ]; then echo "KILLED $ID $(basename $PATCH)"; exit 0; else echo "SURVIVED(rc=$RC) $ID $(basename $PATCH)"; exit 1; fi
