#!/bin/bash
# usage: tools/applyfix.sh <diff> <commit message file>   -- apply to /repo, run the pinned suite, commit as one fix
set -e
D=$(readlink -f "$1"); M=$(readlink -f "$2")
cd /repo
git apply --3way "$D" || git apply "$D"
/verif/tools/repotest.sh >/tmp/repotest.out 2>&1 || { tail -20 /tmp/repotest.out; echo "TESTS FAIL - reverting"; git checkout -- .; exit 1; }
git commit -qa -F "$M"
git log --oneline | head -1
