#!/bin/bash
# usage: tools/seedrecheck.sh <seeded dir name, e.g. C05-6> <check ID> [tier] [note]
# Re-runs ./check <ID> against a scratch worktree carrying seeded/<name>/patch.diff and records the verdict in meta.json
# under "checks_run" with the key "./check <ID> <tier> (after strengthening)".
NAME=$1; ID=$2; TIER=${3:-quick}; NOTE=${4:-}
S=$(mktemp -d /tmp/sv.XXXXXX)
git -C /repo worktree add -q --detach "$S/r" HEAD >/dev/null 2>&1
cleanup() { git -C /repo worktree remove --force "$S/r" >/dev/null 2>&1; rm -rf "$S"; }
(cd "$S/r" && git apply /verif/seeded/$NAME/patch.diff) || { echo "PATCH DOES NOT APPLY"; cleanup; exit 3; }
cd /verif
OUT=$(VERIF_REPO="$S/r" VERIF_EVIDENCE_DIR="$S/ev" ./check "$ID" "$TIER" 2>&1); RC=$?
FAIL=$(echo "$OUT" | grep -m1 "failure:" | cut -c1-400)
/venv/bin/python - "/verif/seeded/$NAME/meta.json" "$ID" "$RC" "$TIER" "$FAIL" "$NOTE" <<'PY'
import json, sys
dst, pid, rc, tier, fail, note = sys.argv[1:7]
m = json.load(open(dst))
key = "./check %s %s (after strengthening)" % (pid, tier)
m.setdefault("checks_run", {})[key] = {"exit": int(rc), "verdict": "DETECTED" if rc == "1" else ("MISSED" if rc == "0" else "HARNESS-ERROR"), "first_failure": fail}
if note:
    m["checks_run"][key]["what_was_strengthened"] = note
json.dump(m, open(dst, "w"), indent=1)
print(dst, key, m["checks_run"][key]["verdict"])
PY
cleanup
