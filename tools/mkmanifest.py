#!/venv/bin/python
"""Regenerates MANIFEST.json from the table below.  A property is claimed iff props/<id>.py exists
and the id is in BUILT."""
import json
import os

HERE = os.path.dirname(os.path.dirname(os.path.abspath(__file__)))

# id: (category, technique, assurance text, trusted base / assumptions)
T = {
    "C01": ("exploration", "Hypothesis round-trip: generated values x generated conformant spellings x BUFSIZ/offset, against the harness serializer",
            "Generated-input search with a round-trip oracle: every generated value is written by an independent serializer that draws one ISO-conformant spelling, read back through PDFStreamParser and PDFDocument.getobj under several read-buffer sizes and file offsets, and compared type-strictly. Holds on everything generated; no absence proof.",
            "The harness serializer (vlib/pdfwrite.py) emits only ISO 32000-1 conformant spellings; narrowings listed in DESIGN.md C01."),
    "C02": ("exploration", "Hypothesis model-based histories: revision histories x physical forms, dictionary model 'newest wins', cross-form differential, damage -> fallback",
            "Generated revision histories are rendered by an independent writer in drawn physical forms (table / xref stream / hybrid, object streams) and read back; a dictionary model decides getobj/objids/catalog; the same history in several forms must agree; damaged startxref/xref must fall back to the body scan.",
            "Harness xref/objstm/xref-stream writer is conformant; see DESIGN.md C02."),
    "C03": ("exploration", "Hypothesis round-trip against independent filter/predictor encoders",
            "Generated payloads are pushed through the harness's own ASCIIHex/ASCII85/LZW/Flate/RunLength encoders and forward TIFF/PNG predictors with free encoder choices, embedded in a document with drawn container syntax, and must decode to exactly the original bytes.",
            "Harness encoders are correct (each is validated against an independent decoder where one exists)."),
    "C04": ("exploration", "Hypothesis generated page trees x selections against an independent tree walker and closed-form rotation map",
            "Generated page trees (inheritance, rotation, box origin, cycles) are walked by an independent reference; page attributes, LTPage boxes, glyph positions and page selection are compared exactly.",
            "Harness document writer; exact dyadic arithmetic regime."),
    "C05": ("exploration", "Hypothesis generated operator programs against a reference text-model interpreter over exact rationals; split/insert metamorphic relations",
            "Generated content-stream programs are interpreted by an independent ISO 32000-1 9.3-9.4 reference over Fractions and compared glyph by glyph with LTChar matrix/adv/font/colour; splitting contents, broken operators and form XObjects are checked as metamorphic relations.",
            "Reference interpreter written from ISO 32000-1; dyadic operands make float results exact."),
    "C06": ("exploration", "Hypothesis generated font dictionaries + exhaustive base-encoding tables against an independent AGL / encoding / width lookup",
            "Generated simple-font dictionaries are shown code by code; text and advance are compared with an independently written lookup pipeline (ToUnicode, reference AGL algorithm, Differences over base table, Widths/FirstChar/MissingWidth/AFM).",
            "Glyph list and AFM raw data are shared with the library (cross-validated against platform codecs where possible)."),
    "C07": ("exploration", "Hypothesis generated Type0 fonts/CMaps + exhaustive CJK character classes against platform codecs",
            "Generated composite fonts (Identity and predefined CMaps, ToUnicode grammar, W/DW/W2/DW2) are compared with models; predefined CJK CMaps are compared with Python's codecs exhaustively over kana, hangul and unified ideographs.",
            "Python codecs as third-party oracle; harness CMap emitter."),
    "C08": ("exploration", "Hypothesis generated glyph/shape multisets x LAParams against a validity predicate over the result tree",
            "Generated pages (LTChar/shape/figure multisets incl. extreme positions and parameters) are analysed; conservation, exact bbox unions, line/box class, ordering, numbering and text concatenation are checked on the resulting tree.",
            "Validity predicate states only what the property lists."),
    "C09": ("exploration", "Hypothesis threshold-directed arrangements against the documented-margin model; 2^k scale metamorphic relation",
            "Arrangements placed on, just below and just above each documented threshold in exact binary coordinates are compared with a model written from the documentation; the canonical tree must be identical after scaling by 2^k.",
            "Model follows docs/source/topic/converting_pdf_to_text.rst; exact dyadic regime."),
    "C10": ("exploration", "Hypothesis round-trip against an independent standard-security-handler encryptor",
            "Generated plaintext documents are encrypted by the harness's own implementation of the standard security handler (RC4 40-128, AESV2, AESV3 R5/R6) and must open with either password to exactly the plaintext; near-miss passwords must be rejected.",
            "Harness encryptor written from ISO 32000-1 7.6 / ISO 32000-2; AES primitive from `cryptography`."),
    "C11": ("exploration", "Hypothesis generated documents x sinks: layout tree vs text vs expat-parsed XML",
            "For generated documents the text output must equal the in-order concatenation of the layout tree and the XML output must parse with expat and be isomorphic to the tree, for text and binary sinks with several codecs.",
            "extract_pages tree is the reference (same bytes, same parameters)."),
    "C12": ("exploration", "Hypothesis model-based call histories against fresh-process baselines",
            "Generated call histories (documents sharing names/numbers, interleaved page iterators, caching flips, single-page extraction) run in one long-lived process; every result must equal the baseline computed in a fresh interpreter.",
            "Baselines computed by a spawned subprocess that has run nothing else."),
    "C13": ("fault_enumeration", "Enumeration of single structural faults over seed documents; exception-family and deterministic work-bound oracle",
            "Every single fault (site x kind) of a declared finite space over feature-covering seeds is applied; each entry point must return or raise a PSException within a sys.monitoring work budget proportional to the undamaged run.",
            "Work is measured in Python-level events; C extensions are not counted."),
    "C14": ("exploration", "Bounded exhaustive enumeration over a lexical-class alphabet + Hypothesis fragment strings; BUFSIZ differential",
            "All byte strings up to a length bound over an alphabet with one representative per lexical class are tokenised at every buffer size 1..len+1 and the default; totality, progress, position sanity and buffer-size independence are asserted. Exhaustive within the bound, sampled beyond it.",
            "Alphabet covers every byte class the scanners distinguish; PSBaseParser.BUFSIZ is the buffer knob."),
    "C15": ("exploration", "Hypothesis hostile-name documents under an audit-hook monitor and filesystem snapshot diff",
            "Documents with hostile resource and image names are processed inside a sandbox tree while a sys.addaudithook monitor records every open/os.* event; any access outside the allowed directories, any overwrite, any file outside output_dir is a violation.",
            "Audit events cover all file access from Python code; bait files make traversal observable."),
    "C16": ("exploration", "Hypothesis generated path programs against a reference path/graphics-state interpreter",
            "Generated path/painting/colour/q-Q-cm programs are interpreted by an independent reference and compared with the LTLine/LTRect/LTCurve sequence (points, class, flags, width, dash, colours, original path).",
            "Reference written from ISO 32000-1 8.5; exact dyadic regime."),
    "C17": ("exploration", "Hypothesis generated number/name trees, outline forests and text strings against abstract-data models",
            "Labels, outlines and destinations are generated as abstract data, laid out as trees of drawn shape by the harness writer, and read back through the public API; text strings are checked against an Annex D table and the UTF-16 codec.",
            "Annex D table transcribed in the harness."),
    "C18": ("exploration", "Hypothesis generated images: strict BMP reader round-trip, byte equality for DCT, inline-image metamorphic relation",
            "Generated image XObjects and inline images are exported/collected; a strict independent BMP reader must recover the stored samples, JPEG payloads must be byte-identical, names distinct, and glyphs after an inline image unchanged.",
            "Harness BMP reader follows the BMP specification (bottom-up, BGR, 4-byte stride)."),
    "C19": ("exploration", "Exhaustive small bitmaps + Hypothesis wide bitmaps: round-trip against an independent T.6 encoder with free mode choices",
            "Bitmaps are encoded by the harness's own ITU-T T.6 encoder, which draws any admissible coding mode at each step, and must decode to exactly the original rows, with and without byte alignment and for both polarities.",
            "Harness encoder written from ITU-T T.6; code tables checked prefix-free and compared with the library's."),
    "C20": ("exploration", "Hypothesis algebraic laws over exact rationals + model-based operation histories against a list model of the index",
            "Matrix helpers are checked against affine-algebra laws over Fractions; Plane add/remove/find/iterate histories are compared with a brute-force list model.",
            "Completeness of find is asserted for overlaps inside the index bounds (the index is documented to cover its bbox)."),
}

BUILT = [l.strip() for l in open(os.path.join(HERE, "tools", "built.txt")) if l.strip() and not l.startswith("#")]

checks = []
na = []
for pid in sorted(T):
    cat, tech, text, note = T[pid]
    if pid in BUILT and os.path.exists(os.path.join(HERE, "props", pid.lower() + ".py")):
        checks.append({
            "property_id": pid,
            "quick_cmd": "./check %s quick" % pid,
            "thorough_cmd": "./check %s thorough" % pid,
            "evidence_file": "/verif/evidence/%s.json" % pid,
            "replay_cmd_template": "./check %s --replay {path}" % pid,
            "engine": "pbt",
            "level_claimed": {"category": cat, "text": text, "design_ref": "DESIGN.md section 3, " + pid},
            "level_note": note,
            "technique": tech,
        })
    else:
        na.append({"property_id": pid, "reason": "addressable by this technique (see DESIGN.md) but its check is not built/registered yet"})

m = {
    "version": 1,
    "setup_cmd": "./setup.sh",
    "hooks": {
        "guard": "PDFMINER_SIX_VERIF",
        "enable": "no source hooks are needed: checks import pdfminer from /repo's working tree (PYTHONPATH) and observe it through public API, sys.addaudithook and sys.monitoring",
        "baseline_off_cmd": "cd /repo && /venv/bin/python -m pytest -ra -q -p no:cacheprovider --timeout=900 --continue-on-collection-errors",
        "source_commits": [],
        "add_only": True,
    },
    "engines": [{"name": "pbt", "path": "check", "serves_properties": [c["property_id"] for c in checks],
                 "kind_free_text": "Hypothesis strategies / bounded enumeration / fault enumeration sharded over 16 processes (vlib/runner.py), oracles in props/"}],
    "checks": checks,
    "not_applicable": na,
    "notes": "Exit 0 held / 1 VIOLATION / 2 harness error. KNOWN_FINDINGS.txt lists known and fixed defects. See DESIGN.md.",
}
json.dump(m, open(os.path.join(HERE, "MANIFEST.json"), "w"), indent=1)
print("claimed:", [c["property_id"] for c in checks])
