#!/venv/bin/python
"""usage: tools/seedtable.py 5 6   -> markdown table of seeded/<ID>-5, seeded/<ID>-6 from their meta.json"""
import glob
import json
import os
import sys

HERE = os.path.dirname(os.path.dirname(os.path.abspath(__file__)))
print("| Change | What it does | First run | After strengthening |")
print("|---|---|---|---|")
first_ok = n = 0
for d in sorted(glob.glob(os.path.join(HERE, "seeded", "C*-*"))):
    name = os.path.basename(d)
    if name.split("-")[1] not in sys.argv[1:]:
        continue
    m = json.load(open(os.path.join(d, "meta.json")))
    runs = m.get("checks_run", {})
    first = [(k, v) for k, v in runs.items() if "after strengthening" not in k]
    later = [(k, v) for k, v in runs.items() if "after strengthening" in k]
    f = first[0][1]["verdict"] if first else "?"
    n += 1
    first_ok += f == "DETECTED"
    fs = "detected (quick)" if f == "DETECTED" else "MISSED (quick)"
    ls = "; ".join("%s by %s" % (v["verdict"].lower(), k.split()[1]) for k, v in later) or "-"
    print("| %s | %s | %s | %s |" % (name, m.get("summary", "").replace("|", "/").replace("\n", " ")[:150], fs, ls))
print("\n%d of %d detected on the first run" % (first_ok, n), file=sys.stderr)
