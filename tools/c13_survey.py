#!/venv/bin/python
"""Enumerates the whole C13 fault space once and prints every violation bucket with a count and an example.
usage: tools/c13_survey.py [stride]"""
import os, sys, collections, json
HERE = os.path.dirname(os.path.dirname(os.path.abspath(__file__)))
repo = os.environ.get("VERIF_REPO", "/repo")
sys.path[:0] = [repo, HERE]
os.environ.setdefault("PYTHONHASHSEED", "0")
import multiprocessing as mp


def tb_of(c13, case):
    import traceback, io
    try:
        if case["seed"].startswith("samples/"):
            return ""
        s = c13.seed(case["seed"]); data = c13.apply_fault(s, case["fault"])
        for name, fn in c13._entries(data):
            from vlib.workmeter import METER
            r, e, n = METER.run(fn, 3_000_000)
            if e is not None:
                from pdfminer.psexceptions import PSException
                if isinstance(e, (PSException, AssertionError)):
                    continue
                tb = traceback.extract_tb(e.__traceback__)
                fr = [f for f in tb if "/pdfminer/" in f.filename][-6:]
                return "          " + " <- ".join("%s:%d %s" % (f.filename.split("/")[-1], f.lineno, f.name) for f in reversed(fr))
    except BaseException as e:
        return "tb failed %r" % e
    return ""


def work(args):
    lo, hi, stride = args
    import logging
    logging.getLogger("pdfminer").setLevel(logging.CRITICAL)
    from props import c13
    from vlib import runner
    runner.ACTIVE_KNOWN = set()
    cases = c13.all_cases()
    out = collections.Counter()
    ex = {}
    n = 0
    for i in range(lo, min(hi, len(cases)), stride):
        o = c13.run_case(cases[i])
        n += 1
        if o.fail:
            b = o.fail.split("]")[0][1:]
            out[b] += 1
            if b not in ex:
                ex[b] = (i, o.fail[:300] + "\n" + tb_of(c13, cases[i]))
    return n, out, ex


if __name__ == "__main__":
    stride = int(sys.argv[1]) if len(sys.argv) > 1 else 1
    from props import c13
    total = len(c13.all_cases())
    print("fault space:", total)
    chunk = 1500
    jobs = [(lo, lo + chunk, stride) for lo in range(0, total, chunk)]
    tot = collections.Counter(); exs = {}; n = 0
    with mp.get_context("spawn").Pool(16) as pool:
        for k, c, e in pool.imap_unordered(work, jobs):
            n += k; tot.update(c)
            for b, v in e.items():
                exs.setdefault(b, v)
    print("cases run:", n, "violating:", sum(tot.values()), "buckets:", len(tot))
    for b, c in tot.most_common():
        print("%6d  %s\n        e.g. case %d: %s" % (c, b, exs[b][0], exs[b][1]))
