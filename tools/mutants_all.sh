#!/bin/bash
# usage: tools/mutants_all.sh ID...   -- runs every mutant of the given properties, prints a summary
for ID in "$@"; do
  for m in /verif/mutants/$ID/*.json /verif/mutants/$ID/*.patch; do
    [ -f "$m" ] || continue
    /verif/tools/mutant.sh $ID $m | tail -1
  done
done
