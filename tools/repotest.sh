#!/bin/bash
# Runs the repository's pinned test suite (guard off); exit status is pytest's.
set -o pipefail
cd "${1:-/repo}" && /venv/bin/python -m pytest -q -p no:cacheprovider -q -n 8 --timeout=900 2>&1 | tail -5
