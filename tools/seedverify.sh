#!/bin/bash
# usage: tools/seedverify.sh <ID> <k> [tier]   (source: /tmp/seed/<ID>/out/<k>/)
# Confirms the seeded change in a scratch worktree: demo passes on the clean tree, fails with the patch, the repo
# suite passes with the patch; then runs ./check <ID> against the patched tree.  Stores everything under seeded/<ID>-<k>/.
ID=$1; K=$2; TIER=${3:-quick}
SRC=${SEED_BASE:-/tmp/seed}/$ID/out/$K
NAME=${SEED_NAME:-$K}
[ -f $SRC/patch.diff ] || { echo "no patch at $SRC"; exit 3; }
S=$(mktemp -d /tmp/sv.XXXXXX)
git -C /repo worktree add -q --detach "$S/r" HEAD >/dev/null 2>&1
cleanup() { git -C /repo worktree remove --force "$S/r" >/dev/null 2>&1; rm -rf "$S"; }
cd "$S/r"
PYTHONPATH="$S/r" /venv/bin/python $SRC/demo.py >/dev/null 2>&1; CLEAN=$?
git apply $SRC/patch.diff || { echo "PATCH DOES NOT APPLY"; cleanup; exit 3; }
PYTHONPATH="$S/r" /venv/bin/python $SRC/demo.py > "$S/demo.out" 2>&1; PATCHED=$?
/verif/tools/repotest.sh "$S/r" > "$S/tests.out" 2>&1; TESTS=$?
cd /verif
OUT=$(VERIF_REPO="$S/r" VERIF_EVIDENCE_DIR="$S/ev" ./check "$ID" "$TIER" 2>&1); RC=$?
DEST=/verif/seeded/$ID-$NAME
mkdir -p $DEST
cp $SRC/patch.diff $SRC/demo.py $DEST/
FAIL=$(echo "$OUT" | grep -m1 "failure:" | cut -c1-400)
/venv/bin/python - "$SRC/meta.json" "$DEST/meta.json" "$ID" "$CLEAN" "$PATCHED" "$TESTS" "$RC" "$TIER" "$FAIL" <<'PY'
import json, sys
src, dst, pid, clean, patched, tests, rc, tier, fail = sys.argv[1:10]
try: m = json.load(open(src))
except Exception: m = {}
m["property"] = pid
m["confirmed"] = {"demo_exit_on_clean_tree": int(clean), "demo_exit_with_patch": int(patched), "repo_suite_exit_with_patch": int(tests)}
m.setdefault("checks_run", {})
m["checks_run"]["./check %s %s" % (pid, tier)] = {"exit": int(rc), "verdict": "DETECTED" if rc == "1" else ("MISSED" if rc == "0" else "HARNESS-ERROR"), "first_failure": fail}
json.dump(m, open(dst, "w"), indent=1)
print(pid, "demo clean/patched:", clean, patched, "tests:", tests, "check(%s) rc:" % tier, rc, "->", m["checks_run"]["./check %s %s" % (pid, tier)]["verdict"])
PY
cleanup
